------------------------------ MODULE Malformed ------------------------------
(***************************************************************************)
(* The space of malformed inputs for C20 ("errors, never panics"), as a     *)
(* grid of shapes.  A case is a pair or triple of shape names; the harness  *)
(* owns the table from shape names to concrete values.  Every case is an    *)
(* initial state; the only thing the property states about it is that the   *)
(* call returns (TLC checks that the grid is what it claims to be: every    *)
(* node kind meets every JSON value kind, every operation meets every path  *)
(* shape and every payload shape).  Expect records whether the model thinks *)
(* the input is acceptable: informational only.                             *)
(***************************************************************************)
EXTENDS Naturals, Sequences, FiniteSets, TLC, Json

CONSTANT Mode    \* "json" | "path" | "req" | "seq"

\* schema node kinds at which a JSON value is placed
NodeKinds == {"container", "presence", "list", "ordered-list", "multikey-list", "unkeyed-list", "leaf-list",
              "leaf-int", "leaf-int64", "leaf-string", "leaf-bool", "leaf-enum", "leaf-identityref", "leaf-union", "leaf-binary",
              "leaf-empty", "leaf-decimal", "list-entry-member", "root",
              \* compressed (OpenConfig-style) placements: a field reachable through two JSON paths (config/k and k)
              "oc-list", "oc-ordered-list", "oc-multikey-list"}

\* JSON value kinds
JsonKinds == {"null", "true", "number", "negative", "fraction", "huge", "string", "empty-string", "object", "object-unknown-member",
              "object-null-member", "object-nested-unknown", "array-empty", "array-null", "array-number", "array-string", "array-object",
              "array-object-no-key", "array-object-bad-key", "array-object-dup-key", "array-array", "array-mixed", "array-null-object", "deep-nesting",
              \* a list key given at both of its JSON paths: equal arrays, equal objects, different scalars, null and scalar
              "array-object-key-twice-array", "array-object-key-twice-object", "array-object-key-twice-differ", "array-object-key-twice-null"}

ExpectJson(n, v) ==
  CASE n \in {"container", "presence", "root"} /\ v \in {"object"} -> "ok"
    [] n = "leaf-list" /\ v \in {"array-number", "array-string", "array-empty"} -> "maybe"
    [] n = "leaf-empty" /\ v = "array-null" -> "ok"
    [] OTHER -> "maybe-error"

\* operations on paths
PathOps == {"GetNode", "GetNode-partial", "GetNode-wildcards", "GetNode-tolerate-nil", "GetOrCreateNode", "SetNode-typed", "SetNode-json",
            "SetNode-nil", "DeleteNode"}

\* (a nil element inside a repeated field cannot come off the wire and is not a shape of the grid; nil
\* message-typed fields -- path, value, prefix -- are)
PathShapes == {"nil", "empty", "empty-name", "unknown-node", "through-leaf", "through-leaflist", "list-no-key", "list-missing-key",
               "list-extra-key", "list-unknown-key", "list-empty-key-value", "list-wildcard", "list-bad-key-type", "ordered-list-no-key",
               "ordered-list-bad-key", "multikey-one-key", "unkeyed-list", "unkeyed-list-with-key", "leaf", "leaf-with-key", "container",
               "root-origin", "element-form", "very-long", "choice-name", "module-prefixed", "compressed-out-container"}

ValShapes == {"nil", "nil-oneof", "string", "int", "uint-huge", "double-nan", "bytes-nil", "leaflist-empty", "leaflist-nil-element",
              "leaflist-mixed", "leaflist-nested", "json-ietf-bad", "json-ietf-array", "json-ietf-object", "json-ietf-null", "json-val", "any-nil",
              "decimal-nil", "ascii", "proto-bytes"}

\* request / notification shapes
ReqShapes == {"nil", "empty", "nil-prefix", "prefix-with-target", "update-nil-path", "update-nil-val",
              "replace-nil-val", "duplicate-updates", "leaflist-twice", "leaflist-twice-different", "conflicting-replaces", "delete-root",
              "update-root-json", "update-root-bad-json", "update-through-leaf", "update-unknown-node", "element-paths", "mixed-origin",
              "notification-atomic-nil-prefix", "notification-delete"}

ReqApis == {"UnmarshalSetRequest", "UnmarshalSetRequest-best-effort", "UnmarshalNotifications", "DiffSetRequest-schema", "DiffSetRequest-noschema",
            "DiffSetRequestToNotifications-schema", "DiffSetRequestToNotifications-noschema"}

Cases ==
  CASE Mode = "json" -> [n : NodeKinds, v : JsonKinds]
    [] Mode = "path" -> [op : PathOps, p : PathShapes, val : ValShapes]
    [] Mode = "req"  -> [api : ReqApis, r : ReqShapes]
    [] Mode = "seq"  -> [op1 : {"SetNode-typed", "DeleteNode", "GetOrCreateNode"}, p1 : {"list-missing-key", "through-leaf", "unknown-node", "list-bad-key-type"},
                         op2 : {"GetNode", "SetNode-json", "DeleteNode"}, p2 : {"list-no-key", "leaf", "list-wildcard", "container"}]

VARIABLE c
vars == <<c>>
Init == c \in Cases
Next == UNCHANGED c
Spec == Init /\ [][Next]_vars

\* the grid is complete: every row meets every column
GridComplete ==
  /\ Mode = "json" => Cardinality(Cases) = Cardinality(NodeKinds) * Cardinality(JsonKinds)
  /\ Mode = "path" => Cardinality(Cases) = Cardinality(PathOps) * Cardinality(PathShapes) * Cardinality(ValShapes)
  /\ Mode = "req"  => Cardinality(Cases) = Cardinality(ReqApis) * Cardinality(ReqShapes)

Emit ==
  CASE Mode = "json" -> PrintT("MJSON " \o ToJson([n |-> c.n, v |-> c.v, expect |-> ExpectJson(c.n, c.v)]))
    [] Mode = "path" -> PrintT("MPATH " \o ToJson(c))
    [] Mode = "req"  -> PrintT("MREQ " \o ToJson(c))
    [] Mode = "seq"  -> PrintT("MSEQ " \o ToJson(c))

=============================================================================
