------------------------------ MODULE MC_TreeA ------------------------------
EXTENDS TreeMachine
\* slice A: a container leaf and the keyed list with a value leaf and a nested container
EnabledA == { <<"c">>, <<"c","a">>, <<"l">>, <<"l","k">>, <<"l","v">>, <<"l","sub">>, <<"l","sub","w">> }
\* slice B: leaf-list, presence container, ordered list
EnabledB == { <<"c">>, <<"c","a">>, <<"c","ll">>, <<"c","p">>, <<"c","p","x">>, <<"ol">>, <<"ol","k">>, <<"ol","v">> }
\* slice M: the two-key list
\* slice O: the ordered list with a nested container in its entries
EnabledO == { <<"ol">>, <<"ol","k">>, <<"ol","sub">>, <<"ol","sub","w">> }
EnabledM == { <<"c">>, <<"c","a">>, <<"m">>, <<"m","k1">>, <<"m","k2">>, <<"m","v">> }
MCWithGOC == TRUE
\* everything
EnabledAll == DOMAIN SK
=============================================================================
