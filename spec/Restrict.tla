------------------------------- MODULE Restrict -------------------------------
(***************************************************************************)
(* YANG scalar restrictions (RFC 7950 9.2.4, 9.4.4, 9.4.5) as value-space   *)
(* semantics, for ytypes.Validate{Int,Uint,Decimal,String,Binary}-          *)
(* Restrictions and util.SanitizedPattern.                                  *)
(*                                                                         *)
(* Mode "range":  a range / length restriction is an ascending sequence of  *)
(*   disjoint parts over an ordered domain of symbolic positions 1..NPos    *)
(*   (the harness concretises positions per base type: boundary values of   *)
(*   every integer width, decimal64 values, string lengths in characters    *)
(*   using multi-byte letters, binary lengths in bytes).                    *)
(* Mode "pattern": a regular expression is an abstract syntax tree over the *)
(*   letters a, b, U (a non-ASCII letter), character classes, concatenation,*)
(*   alternation, star and optional; optionally written with a leading "^"  *)
(*   and/or a trailing "$" or escaped "\$".  Its language is computed as a  *)
(*   set of strings up to a length bound; XSD patterns match the WHOLE      *)
(*   string.  A leading "^" / trailing "$" has two readings -- the XSD one  *)
(*   (ordinary characters) and the anchor one many YANG authors intend and  *)
(*   ygot documents --; a string is DECISIVE only when both readings agree. *)
(***************************************************************************)
EXTENDS Naturals, Sequences, FiniteSets, TLC, SequencesExt, Json

CONSTANTS Mode, NPos, MaxParts, Depth, MaxS

VARIABLES c,      \* the case
          chosen  \* pattern mode: the initial state fixes (pre, suf, left operand), the single step
                  \* completes the expression, so that TLC's workers share the cases
vars == <<c, chosen>>

----------------------------------------------------------------------------
(* ranges *)

Intervals == {<<lo, hi>> \in (1..NPos) \X (1..NPos) : lo <= hi}

\* ascending, disjoint and not adjacent-merged sequences of at most MaxParts parts
PartSeqs == UNION {{s \in [1..n -> Intervals] : \A x \in 1..(n - 1) : s[x][2] < s[x + 1][1]} : n \in 0..MaxParts}

InParts(v, ps) == ps = << >> \/ \E x \in 1..Len(ps) : ps[x][1] <= v /\ v <= ps[x][2]

RangeCases == [parts : PartSeqs, v : 1..NPos]

----------------------------------------------------------------------------
(* patterns: ASTs as tuples <<"lit", c>>, <<"cls", {chars}>>, <<"cat", x, y>>, *)
(* <<"alt", x, y>>, <<"star", x>>, <<"opt", x>>                                 *)

Letters == {"a", "b", "U"}
Sym == Letters \cup {"^", "$"}

Leaves == {<<"lit", ch>> : ch \in Letters} \cup {<<"cls", {"a", "b"}>>}

RECURSIVE ASTs(_)
ASTs(d) ==
  IF d = 0 THEN Leaves
  ELSE LET S == ASTs(d - 1) IN
       S \cup {<<"star", x>> : x \in S} \cup {<<"opt", x>> : x \in S}
         \cup {<<"cat", x, y>> : x \in S, y \in S} \cup {<<"alt", x, y>> : x \in S, y \in S}

Short(X) == {s \in X : Len(s) <= MaxS}
CatL(X, Y) == Short({x \o y : x \in X, y \in Y})

RECURSIVE StarL(_, _)
StarL(X, acc) == LET nxt == acc \cup CatL(acc, X) IN IF nxt = acc THEN acc ELSE StarL(X, nxt)

RECURSIVE L(_)
L(r) ==
  CASE r[1] = "lit"  -> {<<r[2]>>}
    [] r[1] = "cls"  -> {<<ch>> : ch \in r[2]}
    [] r[1] = "cat"  -> CatL(L(r[2]), L(r[3]))
    [] r[1] = "alt"  -> L(r[2]) \cup L(r[3])
    [] r[1] = "star" -> StarL(L(r[2]), {<< >>})
    [] r[1] = "opt"  -> L(r[2]) \cup {<< >>}

\* the pattern text; sub-expressions that are not atoms are parenthesised
RECURSIVE Text(_)
Atom(r) == IF r[1] \in {"lit", "cls"} THEN Text(r) ELSE "(" \o Text(r) \o ")"
Text(r) ==
  CASE r[1] = "lit"  -> r[2]
    [] r[1] = "cls"  -> "[ab]"
    [] r[1] = "cat"  -> Atom(r[2]) \o Atom(r[3])
    [] r[1] = "alt"  -> Atom(r[2]) \o "|" \o Atom(r[3])
    [] r[1] = "star" -> Atom(r[2]) \o "*"
    [] r[1] = "opt"  -> Atom(r[2]) \o "?"

\* a character written in front of / behind the text binds to the first / last alternative of a
\* top-level alternation (nested alternations are parenthesised by Text)
AttachL(r, ch) == IF r[1] = "alt" THEN <<"alt", <<"cat", <<"lit", ch>>, r[2]>>, r[3]>> ELSE <<"cat", <<"lit", ch>>, r>>
AttachR(r, ch) == IF r[1] = "alt" THEN <<"alt", r[2], <<"cat", r[3], <<"lit", ch>>>>>> ELSE <<"cat", r, <<"lit", ch>>>>

Pres == {"", "^"}
Sufs == {"", "$", "\\$"}

PatternCases == [r : ASTs(Depth), pre : Pres, suf : Sufs]

PatText(pc) == pc.pre \o Text(pc.r) \o pc.suf

\* XSD reading: "^" and "$" are ordinary characters; "\$" is an escaped "$"
LitAST(pc) ==
  LET r1 == IF pc.pre = "^" THEN AttachL(pc.r, "^") ELSE pc.r
  IN IF pc.suf = "" THEN r1 ELSE AttachR(r1, "$")

\* anchor reading: a leading "^" / trailing unescaped "$" anchor the whole expression
AncAST(pc) == IF pc.suf = "\\$" THEN AttachR(pc.r, "$") ELSE pc.r

LLit(pc) == L(LitAST(pc))
LAnc(pc) == L(AncAST(pc))

AllStrs == UNION {[1..k -> Sym] : k \in 0..MaxS}

Decisive(pc, s) == (s \in LLit(pc)) = (s \in LAnc(pc))

----------------------------------------------------------------------------
Init ==
  IF Mode = "range" THEN c \in RangeCases /\ chosen = TRUE
  ELSE c \in [r : ASTs(Depth - 1), pre : Pres, suf : Sufs] /\ chosen = FALSE

\* every expression of ASTs(Depth) exactly once: the left (or only) operand is c.r
Completions(x) ==
  {x, <<"star", x>>, <<"opt", x>>} \cup {<<"cat", x, y>> : y \in ASTs(Depth - 1)} \cup {<<"alt", x, y>> : y \in ASTs(Depth - 1)}

Next ==
  /\ ~chosen /\ chosen' = TRUE
  /\ \E r \in Completions(c.r) : c' = [c EXCEPT !.r = r]

Spec == Init /\ [][Next]_vars

\* laws of the reference semantics itself
RangeLaws ==
  (Mode = "range" /\ chosen) =>
    /\ (c.parts = << >> => InParts(c.v, c.parts))
    /\ (\A x \in 1..Len(c.parts) : c.parts[x][1] = c.v \/ c.parts[x][2] = c.v => InParts(c.v, c.parts))   \* bounds are inclusive
    /\ (InParts(c.v, c.parts) /\ c.parts # << >> => \E x \in 1..Len(c.parts) : c.parts[x][1] <= c.v)

PatternLaws ==
  (Mode = "pattern" /\ chosen) =>
    /\ (c.pre = "" /\ c.suf = "" => LLit(c) = LAnc(c))                  \* without anchors one reading
    /\ LLit(c) \cup LAnc(c) \subseteq AllStrs                             \* languages are cut at MaxS

Str(cs) == IF cs = << >> THEN "" ELSE FoldLeft(LAMBDA x, y : x \o y, "", cs)
StrSet(S) == SetToSeq({Str(s) : s \in S})

Emit ==
  chosen =>
  IF Mode = "range"
  THEN PrintT("RANGE " \o ToJson([parts |-> c.parts, v |-> c.v, ok |-> InParts(c.v, c.parts)]))
  ELSE LET ll == LLit(c)
           la == LAnc(c)
       IN PrintT("PAT " \o ToJson([pat |-> PatText(c), flagged |-> (c.pre # "" \/ c.suf = "$"),
                                    acc |-> StrSet(ll \cap la),                    \* accepted under both readings
                                    unspec |-> StrSet((ll \cup la) \ (ll \cap la)), \* the readings disagree
                                    base |-> Text(c.r), plain |-> StrSet(L(c.r))]))

=============================================================================
