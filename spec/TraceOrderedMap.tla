--------------------------- MODULE TraceOrderedMap ---------------------------
(***************************************************************************)
(* Trace validation (code -> spec) for the generated ordered maps: a random *)
(* driver that does not consult the model calls the real generated methods  *)
(* and logs, per call, the call, the value the code returned and the state  *)
(* of the list read back through the independent projector.  Each logged    *)
(* line must be explained by the action of OrderedMap it names, with the    *)
(* logged return value and the logged state; the structural invariants are  *)
(* part of the step, so they are evaluated on the REAL states.  Traces are  *)
(* concatenated; a "reset" line starts the next one.                        *)
(***************************************************************************)
EXTENDS OrderedMap

Tr == ndJsonDeserialize("trace.ndjson")

VARIABLE l
tvars == <<vars, l>>

LoggedMap(ev) ==
  [k \in {ev.ents[i].k : i \in 1..Len(ev.ents)} |->
     LET e == ev.ents[CHOOSE i \in 1..Len(ev.ents) : ev.ents[i].k = k] IN [kl |-> e.kl, v |-> e.v]]

Logged(ev) == alloc' = ev.alloc /\ keys' = ev.keys /\ vmap' = LoggedMap(ev)

Reset ==
  /\ alloc' = FALSE /\ keys' = << >> /\ vmap' = << >> /\ ref' = << >>
  /\ act' = [op |-> "init"]

Step(ev) ==
  CASE ev.op = "reset"          -> Reset
    [] ev.op = "Append"         -> DoAppend(ev.via, ev.k, ev.v) /\ act'.ret = ev.ret
    [] ev.op = "AppendNilEntry" -> DoAppendNilEntry(ev.via) /\ act'.ret = ev.ret
    [] ev.op = "AppendNew"      -> DoAppendNew(ev.via, ev.k) /\ act'.ret = ev.ret
    [] ev.op = "Delete"         -> DoDelete(ev.via, ev.k) /\ act'.ret = ev.ret
    [] ev.op = "Get"            -> DoGet(ev.via, ev.k) /\ act'.ret = ev.ret
    [] ev.op = "Keys"           -> DoKeys /\ act'.ret = ev.retl
    [] ev.op = "Values"         -> DoValues /\ act'.ret = ev.retl
    [] ev.op = "Len"            -> DoLen /\ ToString(act'.ret) = ev.ret
    [] OTHER                    -> FALSE

TraceInit == Init /\ l = 1

TraceNext ==
  /\ l <= Len(Tr)
  /\ l' = l + 1
  /\ Step(Tr[l])
  /\ Logged(Tr[l])
  /\ Consistent' /\ Refines' /\ RefUnique'

TraceSpec == TraceInit /\ [][TraceNext]_tvars

TraceAccepted == TLCGet("stats").diameter - 1 = Len(Tr)

=============================================================================
