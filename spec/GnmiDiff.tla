------------------------------- MODULE GnmiDiff -------------------------------
(***************************************************************************)
(* The intent of a gNMI SetRequest as gnmidiff defines it (C22, C23): the   *)
(* set of deleted subtrees (deletes, and replaces of non-leaf targets) and  *)
(* the map of leaf writes (leaf / leaf-list payloads as they are, JSON      *)
(* payloads flattened to their leaves, key leaves of the entries a document *)
(* names included).  Requests come from GnmiSet.tla.                        *)
(*                                                                         *)
(* Intent-preserving rewrites are operators on requests; TLC checks on      *)
(* every request of the bounded universe that each rewrite leaves the       *)
(* intent unchanged (so the harness never demands an empty diff for two     *)
(* requests that differ), and emits the request, its rewrites and its       *)
(* intent.  A request with conflicting operations is outside the decisive   *)
(* set (gnmidiff documents an error for it).                                *)
(***************************************************************************)
EXTENDS GnmiSet

VARIABLE r
gdvars == <<r>>

IsLeafTarget(p) == p \in LeafDP \cup LeafListDP

\* the leaves one operation writes
OpWrites(o) ==
  CASE o.k \in {"del", "adel"} -> << >>
    [] o.pay.t \in {"leaf", "ll"} -> (o.p :> o.pay.v)
    [] o.pay.t = "json" ->
         \* the leaves the document itself carries: the key leaves of list entries the PATH goes
         \* through on its way to a node BELOW them are implied by the path and are not written by
         \* the payload (gnmidiff compares the leaves an operation names, not the entries a server
         \* would have to create).  A document addressed to the entry itself does carry its keys
         \* (with a schema gnmidiff unmarshals it into the entry; without one the comparison with
         \* the leaf-by-leaf form is not decidable and the harness skips it).
         LET f == Flat(DocTree(o.pay.d)) IN
         Restrict(f, {x \in DOMAIN f : ~(IsKeyLeaf(x) /\ StrictlyBelow(Front(x), o.p) /\ x \notin DOMAIN o.pay.d)})

RECURSIVE WritesOf(_)
WritesOf(s) == IF s = << >> THEN << >> ELSE OpWrites(Last(s)) @@ WritesOf(Front(s))    \* later operations win

Intent(q) ==
  [ del |-> {q[i].p : i \in {j \in 1..Len(q) : q[j].k = "del" \/ (q[j].k = "rep" /\ ~IsLeafTarget(q[j].p))}},
    upd |-> WritesOf(q) ]

\* conflicts: a leaf written twice with different values; a deleted / replaced path given twice
\* or below another one; a leaf write strictly below another leaf write
Conflicting(q) ==
  \/ \E i, j \in 1..Len(q) : i # j /\ \E x \in (DOMAIN OpWrites(q[i])) \cap (DOMAIN OpWrites(q[j])) : OpWrites(q[i])[x] # OpWrites(q[j])[x]
  \/ \E i, j \in 1..Len(q) : i # j /\ q[i].k \in {"del", "rep"} /\ q[j].k \in {"del", "rep"} /\ Below(q[i].p, q[j].p)
  \/ \E i \in 1..Len(q) : q[i].k = "adel"
  \* a plain delete of something the same request writes (the order-dependent case gnmidiff does not claim)
  \/ \E i \in 1..Len(q) : q[i].k = "del" /\ \E x \in DOMAIN WritesOf(q) : Below(q[i].p, x)

Decisive(q) == ~Conflicting(q)

----------------------------------------------------------------------------
(* Rewrites *)

SetSeq(S) == LET RECURSIVE F(_)
                F(T) == IF T = {} THEN << >> ELSE LET x == CHOOSE x \in T : TRUE IN <<x>> \o F(T \ {x})
            IN F(S)

LeafOp(x, v) == [k |-> "upd", p |-> x, pay |-> IF x \in LeafListDP THEN [t |-> "ll", v |-> v] ELSE [t |-> "leaf", v |-> v]]

\* one JSON update -> the equivalent leaf updates
SplitOp(o) ==
  IF o.k = "upd" /\ o.pay.t = "json"
  THEN LET f == OpWrites(o) IN [i \in 1..Cardinality(DOMAIN f) |-> LeafOp(SetSeq(DOMAIN f)[i], f[SetSeq(DOMAIN f)[i]])]
  ELSE <<o>>

RECURSIVE FlatMap(_)
FlatMap(s) == IF s = << >> THEN << >> ELSE SplitOp(Head(s)) \o FlatMap(Tail(s))

SplitJSON(q) == FlatMap(q)

Sel(q, kinds) == SelectSeq(q, LAMBDA o : o.k \in kinds)
Reorder(q) == Reverse(Sel(q, {"del"})) \o Reverse(Sel(q, {"rep"})) \o Reverse(Sel(q, {"upd"}))

\* a replace of a leaf is an update of it
LeafRepToUpd(q) ==
  Sel(q, {"del"}) \o SelectSeq(q, LAMBDA o : o.k = "rep" /\ ~IsLeafTarget(o.p))
    \o [i \in 1..Len(SelectSeq(q, LAMBDA o : o.k = "rep" /\ IsLeafTarget(o.p))) |->
          [SelectSeq(q, LAMBDA o : o.k = "rep" /\ IsLeafTarget(o.p))[i] EXCEPT !.k = "upd"]]
    \o Sel(q, {"upd"})

DupUpdate(q) == IF Sel(q, {"upd"}) = << >> THEN q ELSE q \o <<Head(Sel(q, {"upd"}))>>

Rewrites(q) == [ split |-> SplitJSON(q), reorder |-> Reorder(q), reptoupd |-> LeafRepToUpd(q), dup |-> DupUpdate(q) ]

\* every rewrite preserves the intent of a conflict-free request
RewritesPreserveIntent ==
  (pc = 1 /\ Decisive(r)) => \A kind \in DOMAIN Rewrites(r) : Intent(Rewrites(r)[kind]) = Intent(r) /\ Decisive(Rewrites(r)[kind])

\* the leaves of the intent that lie below a deleted / replaced subtree, and a free leaf below
\* one (for the "added under a deleted subtree" edit of C23)
FreeUnder(q) == {x \in LeafDP : ~IsKeyLeaf(x) /\ x \notin DOMAIN Intent(q).upd /\ \E d \in Intent(q).del : StrictlyBelow(d, x)}

\* The first operation is chosen by the initial state, the single step leaves it or adds a second
\* one (so that TLC's workers share the requests); pc = 1 marks a finished request.  The other
\* variables of GnmiSet are not used here.
GDInit == Init /\ r \in {<<o>> : o \in Ops}
GDNext ==
  /\ pc = 0 /\ pc' = 1
  /\ (r' = r \/ (MaxOps > 1 /\ \E o \in Ops : WellShaped(r \o <<o>>) /\ r' = r \o <<o>>))
  /\ UNCHANGED <<tree, req, tree0, act>>
GDSpec == GDInit /\ [][GDNext]_<<r, vars>>

IntentJson(q) == [del |-> SetSeq(Intent(q).del), upd |-> SetSeq({<<x, Intent(q).upd[x]>> : x \in DOMAIN Intent(q).upd}),
                  free |-> SetSeq(FreeUnder(q))]

GDEmit ==
  (pc = 1 /\ Decisive(r)) =>
    PrintT("GD " \o ToJson([req |-> ReqJson(r), intent |-> IntentJson(r),
                            rw |-> [kind \in DOMAIN Rewrites(r) |-> ReqJson(Rewrites(r)[kind])]]))

=============================================================================
