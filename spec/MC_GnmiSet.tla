------------------------------ MODULE MC_GnmiSet ------------------------------
EXTENDS GnmiSet
EnabledA == { <<"c">>, <<"c","a">>, <<"l">>, <<"l","k">>, <<"l","v">>, <<"l","sub">>, <<"l","sub","w">> }
EnabledB == { <<"c">>, <<"c","a">>, <<"c","ll">>, <<"c","p">>, <<"c","p","x">>, <<"ol">>, <<"ol","k">>, <<"ol","v">> }
\* slice O: the ordered list with a nested container in its entries
EnabledO == { <<"ol">>, <<"ol","k">>, <<"ol","sub">>, <<"ol","sub","w">> }
EnabledM == { <<"c">>, <<"c","a">>, <<"m">>, <<"m","k1">>, <<"m","k2">>, <<"m","v">> }
=============================================================================
