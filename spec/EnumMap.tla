------------------------------- MODULE EnumMap -------------------------------
(***************************************************************************)
(* Enumeration / identity name maps (C17).  A generated enumerated type is  *)
(* a finite map from non-zero integer values to YANG names; rendering maps  *)
(* a value to its name, parsing maps a name back.  The harness records, for *)
(* every generated type of every package, the table the generated code      *)
(* carries (\Lambda Enum), the names goyang finds in the schema, and what   *)
(* the real render / parse functions did for every defined value, for the   *)
(* zero value and for undefined values; TLC validates every record against  *)
(* the laws below (code -> spec).                                           *)
(*                                                                         *)
(* A record:  [pkg, type, entries : Seq([v, name]), schema : Seq(name),     *)
(*             obs : Seq([v, cls, json, back, tv, tvback, ename])]          *)
(*   cls   "defined" | "zero" | "undefined"                                 *)
(*   json  the name written by Marshal7951 (module prefix stripped),        *)
(*         "absent" if the leaf was not rendered, "error" if rendering      *)
(*         failed; back the value read back by Unmarshal ("-" if n/a)       *)
(*   tv / tvback   the same through EncodeTypedValue / SetNode              *)
(*   ename the result of ygot.EnumName ("error" on failure)                 *)
(***************************************************************************)
EXTENDS Naturals, Sequences, FiniteSets, TLC, Json

Recs == ndJsonDeserialize("trace.ndjson")

VARIABLE l
vars == <<l>>

Names(r)  == {r.entries[i].name : i \in 1..Len(r.entries)}
Values(r) == {r.entries[i].v : i \in 1..Len(r.entries)}
NameOf(r, v) == r.entries[CHOOSE i \in 1..Len(r.entries) : r.entries[i].v = v].name

\* the table is a bijection between its values and its names, and 0 is not a value
Bijective(r) ==
  /\ Cardinality(Names(r)) = Len(r.entries)
  /\ Cardinality(Values(r)) = Len(r.entries)
  /\ "0" \notin Values(r)
  /\ "" \notin Names(r)

\* the names are exactly the schema's
MatchesSchema(r) == Names(r) = {r.schema[i] : i \in 1..Len(r.schema)}

ObsOK(r, o) ==
  CASE o.cls = "defined" ->
         /\ o.v \in Values(r)
         /\ o.json = NameOf(r, o.v) /\ o.back = o.v          \* render then parse is the identity
         /\ o.tv = NameOf(r, o.v) /\ o.tvback = o.v
         /\ o.ename = NameOf(r, o.v)
    [] o.cls = "zero" ->
         /\ o.json = "absent" /\ o.tv \in {"absent", "error"} \* the UNSET value is never rendered
    [] o.cls = "undefined" ->
         /\ o.v \notin Values(r)
         /\ o.json = "error" /\ o.tv = "error" /\ o.ename = "error"   \* an error, not output

RecOK(r) == Bijective(r) /\ MatchesSchema(r) /\ \A i \in 1..Len(r.obs) : ObsOK(r, r.obs[i])

Init == l = 1
Next == l <= Len(Recs) /\ RecOK(Recs[l]) /\ l' = l + 1
TraceSpec == Init /\ [][Next]_vars

TraceAccepted == TLCGet("stats").diameter - 1 = Len(Recs)

=============================================================================
