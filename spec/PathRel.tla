------------------------------- MODULE PathRel -------------------------------
(***************************************************************************)
(* Set semantics of gNMI paths (util/gnmi.go): a path denotes the set of    *)
(* concrete data paths it matches, a missing key or the value "*" being a   *)
(* wildcard, and a path covering the whole subtree below it.                *)
(*                                                                         *)
(* RelDen(a, b) is the property's definition: the relation between the two  *)
(* denotations, computed on the finite universe of concrete paths.          *)
(* RelComp(a, b) is the algorithm shaped like ComparePaths -- one relation   *)
(* per path element from the key maps, then a combination over the common   *)
(* prefix and the length difference -- written without the early returns    *)
(* of the code.  TLC checks RelComp = RelDen on every ordered pair of paths *)
(* of the bounded universe (so the oracle given to the harness has been     *)
(* checked against the definition), and the other helper functions'         *)
(* reference definitions are stated on the same denotation.                 *)
(***************************************************************************)
EXTENDS Naturals, Sequences, FiniteSets, TLC, SequencesExt, Json

CONSTANTS Names,     \* element names
          KVals,     \* concrete key values
          Keys1,     \* key names of the list at position 1
          Keys2,     \* key names of the lists at positions >= 2
          MaxLen,    \* maximal path length
          Origins,   \* origins used in the origin family
          Mode       \* "pairs" (all pairs, origin "") or "origins" (short paths x origins)

Star == "*"
Absent == "-"

K(i) == IF i = 1 THEN Keys1 ELSE Keys2

Elems(i) == [n : Names, k : [K(i) -> KVals \cup {Star, Absent}]]
Conc(i)  == [n : Names, k : [K(i) -> KVals]]

PathsOfLen(n) == IF n = 0 THEN {<< >>}
                 ELSE {p \in [1..n -> UNION {Elems(i) : i \in 1..n}] : \A i \in 1..n : p[i] \in Elems(i)}
Paths == UNION {PathsOfLen(n) : n \in 0..MaxLen}

ConcOfLen(n) == IF n = 0 THEN {<< >>}
                ELSE {p \in [1..n -> UNION {Conc(i) : i \in 1..n}] : \A i \in 1..n : p[i] \in Conc(i)}
Universe == UNION {ConcOfLen(n) : n \in 0..MaxLen}

\* Queries (PathMatchesQuery): the element NAME may be the wildcard "*" as well ("Only the query
\* may contain wildcard name or keys"); ComparePaths knows no name wildcard, so these paths
\* are a family of their own (Mode = "query": a concrete data path against every query).
QElems(i) == [n : Names \cup {"*"}, k : [K(i) -> KVals \cup {"*", "-"}]]
QPathsOfLen(n) == IF n = 0 THEN {<< >>}
                  ELSE {p \in [1..n -> UNION {QElems(i) : i \in 1..n}] : \A i \in 1..n : p[i] \in QElems(i)}
QPaths == UNION {QPathsOfLen(n) : n \in 0..MaxLen}

\* One state per ordered pair.  The first path is chosen in the initial state, the second by
\* the single step (so that TLC's workers share the pairs).
VARIABLES A, B, oa, ob, chosen
vars == <<A, B, oa, ob, chosen>>

ShortPaths == {p \in Paths : Len(p) <= 1}

Init ==
  /\ B = << >> /\ ob = "" /\ chosen = FALSE
  /\ IF Mode = "pairs" THEN A \in Paths /\ oa = ""
     ELSE IF Mode = "query" THEN A \in Universe /\ oa = ""
     ELSE A \in ShortPaths /\ oa \in Origins

Next ==
  /\ ~chosen /\ chosen' = TRUE
  /\ UNCHANGED <<A, oa>>
  /\ IF Mode = "pairs" THEN B' \in Paths /\ ob' = ""
     ELSE IF Mode = "query" THEN B' \in QPaths /\ ob' = ""
     ELSE B' \in ShortPaths /\ ob' \in Origins

Spec == Init /\ [][Next]_vars

Chosen == chosen
ChosenRel == chosen /\ Mode # "query"   \* the ComparePaths laws: no wildcard names

----------------------------------------------------------------------------
(* Denotation *)

Wild(v) == v \in {Star, Absent}

EMatch(e, c) == e.n = c.n /\ \A key \in DOMAIN e.k : Wild(e.k[key]) \/ e.k[key] = c.k[key]

\* concrete paths at or below p
Den(p) == {q \in Universe : Len(q) >= Len(p) /\ \A x \in 1..Len(p) : EMatch(p[x], q[x])}

OriginEq(x, y) == x = y \/ {x, y} = {"", "openconfig"}

SetRel(S, T) ==
  IF S = T THEN "Equal"
  ELSE IF S \cap T = {} THEN "Disjoint"
  ELSE IF S \subseteq T THEN "Subset"
  ELSE IF T \subseteq S THEN "Superset"
  ELSE "PartialIntersect"

RelDen(a, b, x, y) == IF ~OriginEq(x, y) THEN "Disjoint" ELSE SetRel(Den(a), Den(b))

----------------------------------------------------------------------------
(* The algorithm: per-element relation from the key maps, then combination *)

\* relation of one key: values equal / both wildcard -> Equal; a wildcard vs a value -> the
\* wildcard side is the superset; two different values -> Disjoint
KeyRel(va, vb) ==
  IF (Wild(va) /\ Wild(vb)) \/ va = vb THEN "Equal"
  ELSE IF Wild(va) THEN "Superset"
  ELSE IF Wild(vb) THEN "Subset"
  ELSE "Disjoint"

\* combination of independent dimensions
Combine(R) ==
  IF "Disjoint" \in R THEN "Disjoint"
  ELSE IF "PartialIntersect" \in R \/ {"Subset", "Superset"} \subseteq R THEN "PartialIntersect"
  ELSE IF "Subset" \in R THEN "Subset"
  ELSE IF "Superset" \in R THEN "Superset"
  ELSE "Equal"

ElemRel(ea, eb) ==
  IF ea.n # eb.n THEN "Disjoint"
  ELSE Combine({KeyRel(ea.k[key], eb.k[key]) : key \in DOMAIN ea.k})

RelComp(a, b, x, y) ==
  IF ~OriginEq(x, y) THEN "Disjoint"
  ELSE LET m == IF Len(a) < Len(b) THEN Len(a) ELSE Len(b)
           lenRel == IF Len(a) > Len(b) THEN {"Subset"} ELSE IF Len(a) < Len(b) THEN {"Superset"} ELSE {}
       IN Combine({ElemRel(a[x1], b[x1]) : x1 \in 1..m} \cup lenRel)

AlgorithmMatchesDenotation == ChosenRel => RelComp(A, B, oa, ob) = RelDen(A, B, oa, ob)

Swap(r) == CASE r = "Subset" -> "Superset" [] r = "Superset" -> "Subset" [] OTHER -> r
SwapSymmetry == ChosenRel => RelDen(B, A, ob, oa) = Swap(RelDen(A, B, oa, ob))

----------------------------------------------------------------------------
(* The helper functions on the same denotation.  IsConcrete(p): every key   *)
(* present with a concrete value (a data path as found in a Notification).  *)

IsConcrete(p) == \A x \in 1..Len(p) : \A key \in DOMAIN p[x].k : ~Wild(p[x].k[key])

\* PathMatchesQuery(path, query) for a concrete path: the path lies in the query's denotation
MatchesQuery(p, q, x, y) == OriginEq(x, y) /\ p \in Den(q)

\* exact-match helpers: decisive unless the two paths differ somewhere only by an explicit "*"
\* against a missing key (the code is documented as syntactic there)
StarVsAbsent(a, b) ==
  \E x \in 1..(IF Len(a) < Len(b) THEN Len(a) ELSE Len(b)) :
     \E key \in DOMAIN a[x].k : {a[x].k[key], b[x].k[key]} = {Star, Absent}

ElemSame(ea, eb) == ea.n = eb.n /\ \A key \in DOMAIN ea.k : KeyRel(ea.k[key], eb.k[key]) = "Equal"

\* PathMatchesPathElemPrefix(path, prefix)
ElemPrefix(p, pre) == Len(p) >= Len(pre) /\ \A x \in 1..Len(pre) : ElemSame(p[x], pre[x])

\* length of the longest common element prefix (FindPathElemPrefix on two paths)
RECURSIVE LCP(_, _, _)
LCP(a, b, n) == IF n < Len(a) /\ n < Len(b) /\ ElemSame(a[n + 1], b[n + 1]) THEN LCP(a, b, n + 1) ELSE n

HelperLaws == ChosenRel =>
  /\ (ElemPrefix(A, B) => RelDen(A, B, "", "") \in {"Equal", "Subset"})      \* a path below its prefix
  /\ (IsConcrete(A) /\ MatchesQuery(A, B, "", "") => RelDen(A, B, "", "") \in {"Equal", "Subset"})
  /\ LCP(A, B, 0) = LCP(B, A, 0)

----------------------------------------------------------------------------
(* Queries with wildcard names.  QDen(q): the concrete paths at or below a  *)
(* query; a "*" name matches any name but the element's keys still          *)
(* constrain the entry.  QueryLaws states the definition a second way: a    *)
(* wildcard-name query denotes the union of its named instantiations.       *)

QMatch(e, c) == (e.n = Star \/ e.n = c.n) /\ \A key \in DOMAIN e.k : Wild(e.k[key]) \/ e.k[key] = c.k[key]
QDen(q) == {c \in Universe : Len(c) >= Len(q) /\ \A x \in 1..Len(q) : QMatch(q[x], c[x])}

Instances(q) == {r \in PathsOfLen(Len(q)) : \A x \in 1..Len(q) : r[x].k = q[x].k /\ (q[x].n # Star => r[x].n = q[x].n)}

QueryLaws == (Chosen /\ Mode = "query") =>
  /\ (A \in QDen(B)) = (\E r \in Instances(B) : A \in Den(r))
  /\ ((\A x \in 1..Len(B) : B[x].n # Star) => (A \in QDen(B)) = MatchesQuery(A, B, "", ""))

----------------------------------------------------------------------------
(* Emission: one line per pair; paths in a compact string form              *)
(*   name[key=value,...]/name[...]   ("-" for the empty path)               *)

RECURSIVE JoinStr(_, _)
JoinStr(seq, sep) == IF seq = << >> THEN "" ELSE IF Len(seq) = 1 THEN seq[1] ELSE seq[1] \o sep \o JoinStr(Tail(seq), sep)

EncElem(e) ==
  LET ks == SetToSeq({key \in DOMAIN e.k : e.k[key] # Absent}) IN
  e.n \o "[" \o JoinStr([x \in 1..Len(ks) |-> ks[x] \o "=" \o e.k[ks[x]]], ",") \o "]"

EncPath(p) == IF p = << >> THEN "-" ELSE JoinStr([x \in 1..Len(p) |-> EncElem(p[x])], "/")

B01(x) == IF x THEN "1" ELSE "0"

Emit ==
  Chosen => IF Mode = "query" THEN PrintT("QRY " \o EncPath(A) \o "|" \o EncPath(B) \o "|" \o B01(A \in QDen(B)))
  ELSE PrintT("REL " \o EncPath(A) \o "|" \o EncPath(B) \o "|" \o oa \o "|" \o ob \o "|" \o RelDen(A, B, oa, ob) \o "|"
                   \o B01(IsConcrete(A)) \o B01(IsConcrete(A) /\ MatchesQuery(A, B, oa, ob)) \o B01(ElemPrefix(A, B))
                   \o B01(StarVsAbsent(A, B)) \o ToString(LCP(A, B, 0)))

=============================================================================
