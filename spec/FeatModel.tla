------------------------------ MODULE FeatModel ------------------------------
(***************************************************************************)
(* Three declarative models over the module schemas/vf-feat.yang:           *)
(*                                                                         *)
(*  Mode "valid"    (C07) Valid(t): every value in its type's value space   *)
(*     (ranges, lengths, patterns, defined enumeration / identity members,  *)
(*     union members), map keys equal to key leaves, unique configuration   *)
(*     leaf-list values, min/max-elements, at most one case per choice.     *)
(*     Cases: three valid base trees, every valid single-field variation    *)
(*     and every single-fault mutation of them.                             *)
(*  Mode "defaults" (C33) PopulateDefaults: every unset leaf with a YANG    *)
(*     default takes it, set leaves keep their value, validity preserved.   *)
(*  Mode "leafref"  (C30) Dangling(t): some leafref leaf holds a value that *)
(*     is not in the node set its path selects (predicates evaluated on the *)
(*     current data).                                                       *)
(*                                                                         *)
(* A value is a record [c |-> canonical text for the harness, n |-> number  *)
(* or text the semantics looks at].  Absent is the record Abs.              *)
(***************************************************************************)
EXTENDS Integers, Sequences, FiniteSets, TLC, Json

CONSTANT Mode

Abs == [c |-> "-", n |-> 0, a |-> TRUE]
V(c, n) == [c |-> c, n |-> n, a |-> FALSE]
IsAbs(v) == v.a

----------------------------------------------------------------------------
(* Mode "valid": fields of containers d and v with candidate values.        *)
(* n: integers as such; decimals in hundredths; strings: <<length, lower>>; *)
(* enumerations: 1 if defined else 0; binary: length; lists: see below.     *)

Cand ==
  [ i8   |-> {V("int8:-10", -10), V("int8:10", 10), V("int8:0", 0), V("int8:-11", -11), V("int8:11", 11)},
    u16  |-> {V("uint16:1", 1), V("uint16:100", 100), V("uint16:1000", 1000), V("uint16:2000", 2000),
              V("uint16:0", 0), V("uint16:101", 101), V("uint16:999", 999), V("uint16:2001", 2001)},
    dec  |-> {V("dec:-1.5", -150), V("dec:10.25", 1025), V("dec:0", 0), V("dec:-1.51", -151), V("dec:10.26", 1026)},
    str  |-> {V("str:ab", <<2, TRUE>>), V("str:abcde", <<5, TRUE>>), V("str:a", <<1, TRUE>>), V("str:abcdef", <<6, TRUE>>),
              V("str:aB", <<2, FALSE>>), V("str:ab1", <<3, FALSE>>), V("str:éé", <<2, FALSE>>)},
    en   |-> {V("enum:RED", 1), V("enum:BLUE", 1), V("enum?:99", 0), V("enum?:-1", 0)},
    idr  |-> {V("enum:CIRCLE", 1), V("enum?:99", 0)},
    un   |-> {V("int32:5", <<"int", 5>>), V("str:abc", <<"str", TRUE>>), V("int32:10", <<"int", 10>>), V("str:ABC", <<"str", FALSE>>)},
    bin  |-> {V("bin:00", 1), V("bin:00ff1020", 4), V("bin:", 0), V("bin:0011223344", 5)},
    \* union { uint16; union { string [a-z]+; boolean } }: the nested union is not the first member
    nu   |-> {V("uint16:80", <<"int", 80>>), V("str:abc", <<"str", TRUE>>), V("bool:true", <<"bool", TRUE>>), V("str:ABC", <<"str", FALSE>>)} ]

Fields == DOMAIN Cand

FieldValid(f, v) ==
  IsAbs(v) \/
  CASE f = "i8"  -> -10 <= v.n /\ v.n <= 10
    [] f = "u16" -> (1 <= v.n /\ v.n <= 100) \/ (1000 <= v.n /\ v.n <= 2000)
    [] f = "dec" -> -150 <= v.n /\ v.n <= 1025
    [] f = "str" -> 2 <= v.n[1] /\ v.n[1] <= 5 /\ v.n[2]          \* length in characters, pattern [a-z]+
    [] f \in {"en", "idr"} -> v.n = 1                              \* a defined member
    [] f = "un"  -> IF v.n[1] = "int" THEN 0 <= v.n[2] /\ v.n[2] <= 9 ELSE v.n[2]   \* fits a member type
    [] f = "bin" -> 1 <= v.n /\ v.n <= 4                           \* length in bytes
    [] f = "nu"  -> IF v.n[1] = "int" THEN TRUE ELSE v.n[2]         \* fits uint16, or one of the nested members

\* structural part: leaf-lists as sequences of texts, list ml as a set of [key, keyleaf, n],
\* choice c2 as the set of populated cases
\* mk: the two-key list as a set of [k1, k2 (map key), kl1, kl2 (key leaves, "" when unset)]
Struct(cfgll, sll, mm, ml, c2) == [cfgll |-> cfgll, sll |-> sll, mm |-> mm, ml |-> ml, c2 |-> c2, ull |-> << >>, mk |-> {}]
WithUll(s, u) == [s EXCEPT !.ull = u]
WithMk(s, m) == [s EXCEPT !.mk = m]

NoDupSeq(s) == Cardinality({s[i] : i \in 1..Len(s)}) = Len(s)

StructValid(s) ==
  /\ NoDupSeq(s.cfgll)                                  \* configuration leaf-list: unique values
  /\ NoDupSeq(s.ull)                                    \* ... of a union type: int32 5 and string "5" are different values
  /\ (s.mm # << >> => 2 <= Len(s.mm) /\ Len(s.mm) <= 3 /\ NoDupSeq(s.mm))  \* min-elements 2, max-elements 3 (an absent
                                                                          \* leaf-list is not decided: partial trees)
  /\ Cardinality(s.ml) <= 2                             \* max-elements 2
  /\ \A e \in s.ml : e.kl = e.k                          \* map key equals the key leaf (an unset key leaf is "")
  /\ \A e \in s.mk : e.kl1 = e.k1 /\ e.kl2 = e.k2        \* ... for every key of a multi-key list
  /\ Cardinality(s.c2) <= 1                             \* at most one case of the choice
  \* s.sll (state leaf-list) may hold duplicates

GoodStructs ==
  { Struct(<< >>, << >>, <<"uint8:1", "uint8:2">>, {}, {}),
    Struct(<<"str:a", "str:b">>, <<"str:s", "str:s">>, <<"uint8:1", "uint8:2", "uint8:3">>,
           {[k |-> "str:k1", kl |-> "str:k1"], [k |-> "str:k2", kl |-> "str:k2"]}, {"x"}),
    Struct(<<"str:a">>, <<"str:s">>, << >>, {[k |-> "str:k1", kl |-> "str:k1"]}, {"y"}),
    WithUll(Struct(<< >>, << >>, << >>, {[k |-> "str:", kl |-> "str:"]}, {}), <<"int32:5", "str:5">>),
    WithMk(Struct(<< >>, << >>, << >>, {}, {}), {[k1 |-> "str:a", k2 |-> "uint8:1", kl1 |-> "str:a", kl2 |-> "uint8:1"],
                                                  [k1 |-> "str:a", k2 |-> "uint8:0", kl1 |-> "str:a", kl2 |-> "uint8:0"]}) }

BadStructs ==
  { Struct(<<"str:a", "str:a">>, << >>, << >>, {}, {}),                                         \* duplicate config leaf-list value
    Struct(<<"str:a", "str:b", "str:a">>, << >>, << >>, {}, {}),
    Struct(<< >>, << >>, <<"uint8:1">>, {}, {}),                                                \* below min-elements
    Struct(<< >>, << >>, <<"uint8:1", "uint8:2", "uint8:3", "uint8:4">>, {}, {}),               \* above max-elements
    Struct(<< >>, << >>, <<"uint8:1", "uint8:1">>, {}, {}),                                     \* duplicate values
    Struct(<< >>, << >>, << >>, {[k |-> "str:k1", kl |-> "str:k1"], [k |-> "str:k2", kl |-> "str:k2"], [k |-> "str:k3", kl |-> "str:k3"]}, {}),
    Struct(<< >>, << >>, << >>, {[k |-> "str:k1", kl |-> "str:other"]}, {}),                   \* key mismatch
    Struct(<< >>, << >>, << >>, {[k |-> "str:", kl |-> "str:other"]}, {}),                     \* ... under the zero-valued map key
    WithUll(Struct(<< >>, << >>, << >>, {}, {}), <<"int32:5", "str:x", "int32:5">>),           \* duplicate in a union leaf-list
    Struct(<< >>, << >>, << >>, {[k |-> "str:k1", kl |-> ""]}, {}),                            \* key leaf unset
    Struct(<< >>, << >>, << >>, {}, {"x", "y"}),                                                \* two cases
    WithMk(Struct(<< >>, << >>, << >>, {}, {}), {[k1 |-> "str:a", k2 |-> "uint8:1", kl1 |-> "str:a", kl2 |-> ""]}),      \* second key leaf unset
    WithMk(Struct(<< >>, << >>, << >>, {}, {}), {[k1 |-> "str:a", k2 |-> "uint8:1", kl1 |-> "", kl2 |-> "uint8:1"]}),    \* first key leaf unset
    WithMk(Struct(<< >>, << >>, << >>, {}, {}), {[k1 |-> "str:a", k2 |-> "uint8:1", kl1 |-> "str:a", kl2 |-> "uint8:2"]}) }  \* key mismatch

\* base assignments of the scalar fields: all absent, and two assignments of valid values
B1 == [i8 |-> "int8:-10", u16 |-> "uint16:1", dec |-> "dec:-1.5", str |-> "str:ab", en |-> "enum:RED", idr |-> "enum:CIRCLE",
       un |-> "int32:5", bin |-> "bin:00", nu |-> "uint16:80"]
B2 == [i8 |-> "int8:10", u16 |-> "uint16:2000", dec |-> "dec:10.25", str |-> "str:abcde", en |-> "enum:BLUE", idr |-> "enum:CIRCLE",
       un |-> "str:abc", bin |-> "bin:00ff1020", nu |-> "str:abc"]
Base(i) == [f \in Fields |->
   IF i = 0 THEN Abs ELSE CHOOSE v \in Cand[f] : v.c = (IF i = 1 THEN B1[f] ELSE B2[f])]

ValidCases ==
  LET gs == CHOOSE g \in GoodStructs : g.c2 = {"x"} IN
  \* every base with every good structure; every single-field variation; every bad structure
  {[fl |-> Base(i), st |-> g] : i \in 0..2, g \in GoodStructs}
  \cup UNION {{[fl |-> [Base(i) EXCEPT ![f] = v], st |-> gs] : i \in 0..2, v \in Cand[f]} : f \in Fields}
  \cup {[fl |-> Base(i), st |-> b] : i \in 0..2, b \in BadStructs}

Valid(cs) == (\A f \in Fields : FieldValid(f, cs.fl[f])) /\ StructValid(cs.st)

----------------------------------------------------------------------------
(* Mode "defaults": leaves of container d that have a default, each unset   *)
(* or set to a value different from the default; the choice ch (default     *)
(* case ca: a1 has a default, a2 and b1 have none); list dl with entries    *)
(* whose dv / dc/dw are unset or set.                                       *)

Defaults ==
  [ i8 |-> "int8:-3", u16 |-> "uint16:7", i64 |-> "int64:-9223372036854775808", u64 |-> "uint64:18446744073709551615",
    dec |-> "dec:2.5", str |-> "str:abc", bo |-> "bool:true", en |-> "enum:GREEN", idr |-> "enum:SQUARE",
    un |-> "str:xyz", un2 |-> "enum:BLUE", bin |-> "bin:00ff10",
    \* union (binary length 3 | string) with default "YWI=": two octets, so the string member
    ub |-> "str:YWI=" ]
  \* defaults below nodes whose generated names collide (rate-limit / rate_limit, peer-group / peer_group);
  \* the containers and one entry "x" of each list are always present
  @@ ("rate-limit/burst" :> "uint16:200") @@ ("rate_limit/burst" :> "uint16:300")
  @@ ("peer-group/=str:x/ttl" :> "uint8:32") @@ ("peer_group/=str:x/ttl" :> "uint8:64")

Other ==
  [ i8 |-> "int8:4", u16 |-> "uint16:50", i64 |-> "int64:0", u64 |-> "uint64:0", dec |-> "dec:0", str |-> "str:zz", bo |-> "bool:false",
    en |-> "enum:RED", idr |-> "enum:TRI", un |-> "int32:5", un2 |-> "uint32:0", bin |-> "bin:01", ub |-> "bin:010203" ]
  @@ ("rate-limit/burst" :> "uint16:1") @@ ("rate_limit/burst" :> "uint16:2")
  @@ ("peer-group/=str:x/ttl" :> "uint8:1") @@ ("peer_group/=str:x/ttl" :> "uint8:2")

DLeaves == DOMAIN Defaults

\* which leaves are set: a subset; choice state; list entries
DefCases ==
  [ set : {{}, DLeaves} \cup {{f} : f \in DLeaves} \cup {DLeaves \ {f} : f \in DLeaves},
    ch  : {"none", "a1", "a2", "b1"},
    dl  : {"none", "empty-entry", "entry-with-dv", "two-entries"} ]

\* the leaf set (path |-> canonical) of a defaults case before and after PopulateDefaults
DPre(cs) ==
  [f \in cs.set |-> Other[f]]

\* leaves inside the choice and the list, as path strings
ChPre(cs) == CASE cs.ch = "none" -> << >> [] cs.ch = "a1" -> [x \in {"a1"} |-> "str:mine"]
               [] cs.ch = "a2" -> [x \in {"a2"} |-> "uint8:3"] [] cs.ch = "b1" -> [x \in {"b1"} |-> "str:bee"]

\* after: every unset defaulted leaf takes its default; a1 (default of the default case) is set
\* when it is unset -- unless another case (cb) is populated, where what the code may do is fixed
\* by the validity clause: the tree must still validate (at most one case)
DPost(cs) == [f \in DLeaves |-> IF f \in cs.set THEN Other[f] ELSE Defaults[f]]

A1After(cs) == CASE cs.ch = "a1" -> "str:mine" [] cs.ch = "b1" -> "-" [] OTHER -> "str:da"

----------------------------------------------------------------------------
(* Mode "leafref": targets tgt[name] with id and sub[s] entries; referrers.  *)

Names == {"n1", "n2"}
Subs  == {"s1", "s2"}

LrCases ==
  [ tgt   : SUBSET Names,                                  \* existing target entries
    ids   : {<< >>} \cup {[x \in {"n1"} |-> 7]},            \* id leaf of n1 (if n1 exists)
    subs  : {{}, {<<"n1", "s1">>}, {<<"n2", "s1">>}},      \* sub entries <<target, s>>
    abs   : {"-", "n1", "n3"},                             \* ref-abs
    rel   : {"-", "n2"},                                   \* ref-rel
    rid   : {"-", "7", "8"},                               \* ref-id
    tname : {"-", "n1", "n2"},                             \* q/tname
    sref  : {"-", "s1"},                                   \* q/sref: /tgt[name=current()/../tname]/sub/s
    lr    : {{}, {"n1"}, {"n3"}} ]                         \* keys of list lr (leafref keys)

WellFormedLr(cs) ==
  /\ (cs.ids # << >> => "n1" \in cs.tgt)
  /\ \A p \in cs.subs : p[1] \in cs.tgt

Dangling(cs) ==
  \/ cs.abs # "-" /\ cs.abs \notin cs.tgt
  \/ cs.rel # "-" /\ cs.rel \notin cs.tgt
  \/ cs.rid # "-" /\ ~(cs.ids # << >> /\ cs.rid = "7")
  \/ cs.tname # "-" /\ cs.tname \notin cs.tgt
  \/ cs.sref # "-" /\ ~(\E p \in cs.subs : p[1] = cs.tname /\ p[2] = cs.sref)
  \/ \E n \in cs.lr : n \notin cs.tgt

----------------------------------------------------------------------------
VARIABLE c
vars == <<c>>

Init == c \in (CASE Mode = "valid" -> ValidCases
                 [] Mode = "defaults" -> DefCases
                 [] Mode = "leafref" -> {x \in LrCases : WellFormedLr(x)})
Next == UNCHANGED c
Spec == Init /\ [][Next]_vars

\* sanity laws of the models themselves
ModelLaws ==
  /\ Mode = "valid" =>
       /\ \A i \in 0..2 : \A f \in Fields : FieldValid(f, Base(i)[f])
       /\ \A g \in GoodStructs : StructValid(g)
       /\ \A b \in BadStructs : ~StructValid(b)
       /\ \A f \in Fields : \E v \in Cand[f] : ~FieldValid(f, v)        \* every field has a fault
  /\ Mode = "defaults" => \A f \in DLeaves : Defaults[f] # Other[f]
  /\ Mode = "leafref" => (c.abs = "-" /\ c.rel = "-" /\ c.rid = "-" /\ c.tname = "-" /\ c.sref = "-" /\ c.lr = {} => ~Dangling(c))

SeqOfSet(S) == LET RECURSIVE F(_)
                   F(T) == IF T = {} THEN << >> ELSE LET x == CHOOSE x \in T : TRUE IN <<x>> \o F(T \ {x})
               IN F(S)

FieldsJson(fl) == SeqOfSet({<<f, fl[f].c>> : f \in {g \in DOMAIN fl : ~IsAbs(fl[g])}})

Emit ==
  CASE Mode = "valid" ->
         PrintT("VALID " \o ToJson([fields |-> FieldsJson(c.fl), cfgll |-> c.st.cfgll, sll |-> c.st.sll, mm |-> c.st.mm, ull |-> c.st.ull,
                                    ml |-> SeqOfSet(c.st.ml), mk |-> SeqOfSet(c.st.mk), c2 |-> SeqOfSet(c.st.c2), valid |-> Valid(c)]))
    [] Mode = "defaults" ->
         PrintT("DEF " \o ToJson([pre |-> SeqOfSet({<<f, DPre(c)[f]>> : f \in c.set}), ch |-> c.ch, dl |-> c.dl,
                                  post |-> SeqOfSet({<<f, DPost(c)[f]>> : f \in DLeaves}), a1 |-> A1After(c)]))
    [] Mode = "leafref" ->
         PrintT("LREF " \o ToJson([tgt |-> SeqOfSet(c.tgt), id7 |-> (c.ids # << >>), subs |-> SeqOfSet(c.subs), abs |-> c.abs, rel |-> c.rel,
                                   rid |-> c.rid, tname |-> c.tname, sref |-> c.sref, lr |-> SeqOfSet(c.lr), dangling |-> Dangling(c)]))

=============================================================================
