-------------------------------- MODULE Codec --------------------------------
(***************************************************************************)
(* Value spaces of the YANG leaf types and their encodings, for             *)
(*   C18  decoding of RFC 7951 JSON scalars and gNMI TypedValues into a     *)
(*        leaf (ytypes.Unmarshal, ytypes.SetNode),                          *)
(*   C16  list keys as gNMI path key strings,                               *)
(*   C17  enumeration / identity names.                                     *)
(*                                                                         *)
(* Values are symbolic classes (TLC integers are 32-bit; the harness        *)
(* concretises MIN, MAX, BIG53 = 2^53+1, ... per type).  An input is a      *)
(* record [k |-> kind, x |-> class]; Dec gives the property's verdict:      *)
(*   <<"denotes", v>>  the input denotes value v: the code stores exactly v *)
(*                     or returns an error                                  *)
(*   <<"reject">>      outside the value space / wrong kind / malformed:    *)
(*                     the code must return an error (the statement's list) *)
(*   <<"unspec">>      the statement does not decide (lenient forms)        *)
(* Enc is the canonical encoding.  TLC checks Dec(Enc(v)) = denotes v for   *)
(* every type and value, that verdicts are unique, and emits every case.    *)
(***************************************************************************)
EXTENDS Naturals, Sequences, FiniteSets, TLC, Json

CONSTANT Mode     \* "json" | "tv" | "tvtol" (TypedValues with TolerateJSONInconsistencies) | "key"

Signed   == {"int8", "int16", "int32", "int64"}
Unsigned == {"uint8", "uint16", "uint32", "uint64"}
Ints     == Signed \cup Unsigned
Is64(t)  == t \in {"int64", "uint64"}
Types    == Ints \cup {"dec2", "string", "boolean", "enum", "idref", "u-is", "u-eu", "u-bu", "binary", "empty"}

\* value classes of each type's value space
Vals(t) ==
  CASE t \in Signed     -> {"MIN", "MIN1", "NEG1", "ZERO", "ONE", "MAX1", "MAX"} \cup (IF t = "int64" THEN {"BIG53"} ELSE {})
    [] t \in Unsigned   -> {"ZERO", "ONE", "MID", "MAX1", "MAX"} \cup (IF t = "uint64" THEN {"BIG53"} ELSE {})
    [] t = "dec2"       -> {"DNEG", "DZERO", "DSMALL", "DINT", "DBIG"}        \* -1.25 0 0.01 3 1000000.01
    [] t = "string"     -> {"SPLAIN", "SSPACE", "SNONASCII", "SDIGITS", "SEMPTY"}
    [] t = "boolean"    -> {"TRUE", "FALSE"}
    [] t = "enum"       -> {"E1", "E2"}
    [] t = "idref"      -> {"I1", "I2"}
    [] t = "u-is"       -> {"UINT", "USTR"}         \* union { int32; string [a-z]+ }
    [] t = "u-eu"       -> {"UENUM", "UUINT"}       \* union { enumeration; uint32 }
    [] t = "u-bu"       -> {"UBIN", "UU16"}         \* union { uint16; binary }
    [] t = "u-bs"       -> {"UBOOL", "USTRBOOLISH"}  \* union { boolean; string }: a string that merely looks like a boolean
    \* union { uint64; int64 }: a non-negative number belongs to the FIRST member (declaration order, not
    \* the numeric order of the type kinds), a negative one only fits the second
    [] t = "u-ul"       -> {"UU64", "UI64NEG"}
    [] t = "u-lb"       -> {"UI64", "UBOOL"}        \* union { int64; boolean }
    [] t = "binary"     -> {"BEMPTY", "BBYTES"}
    [] t = "empty"      -> {"SET"}

----------------------------------------------------------------------------
(* RFC 7951 JSON *)

JKinds == {"num", "str", "bool", "null", "arrnull", "arrempty", "arrnum", "arrnullnull", "arrnullnum", "obj"}

\* classes of JSON numbers / strings offered to every type
\* NEGFRAC: a negative non-integral number above -1 (-0.5), so that truncation would give 0
NumX == {"MIN", "MIN1", "NEG1", "ZERO", "ONE", "MID", "MAX1", "MAX", "BIG53", "BELOW", "ABOVE", "FRAC", "NEGFRAC", "HUGE"}
StrX == {"C:" \o v : v \in {"MIN", "MIN1", "NEG1", "ZERO", "ONE", "MID", "MAX1", "MAX", "BIG53", "DNEG", "DZERO", "DSMALL", "DINT", "DBIG"}}
        \cup {"PLUS", "PADDED", "HEX", "EMPTY", "EXP", "FRACSTR", "EXCESSFRAC", "ALPHA", "ABOVE", "BELOW",
              "NAME1", "NAME2", "MODNAME1", "UNKNOWNNAME", "B64", "B64EMPTY", "BADB64", "LOWER", "TRUESTR",
              \* COLONS: a defined name behind TWO prefixes ("x:y:NAME"): only one module prefix may be stripped
              "COLONS"}

JInputs == {[k |-> "num", x |-> x] : x \in NumX} \cup {[k |-> "str", x |-> x] : x \in StrX}
           \cup {[k |-> "bool", x |-> b] : b \in {"TRUE", "FALSE"}}
           \cup {[k |-> kk, x |-> "-"] : kk \in {"null", "arrnull", "arrempty", "arrnum", "arrnullnull", "arrnullnum", "obj"}}

Denotes(v) == <<"denotes", v>>
Reject == <<"reject">>
Unspec == <<"unspec">>

CanonOf(x) == IF Len(x) > 2 /\ SubSeq(x, 1, 2) = "C:" THEN SubSeq(x, 3, Len(x)) ELSE "-"

\* canonical encoding of value v of type t
Enc(t, v) ==
  CASE t \in Ints /\ ~Is64(t) -> [k |-> "num", x |-> v]
    [] t \in Ints /\ Is64(t)  -> [k |-> "str", x |-> "C:" \o v]
    [] t = "dec2"             -> [k |-> "str", x |-> "C:" \o v]
    [] t = "string"           -> [k |-> "str", x |-> CASE v = "SPLAIN" -> "LOWER" [] v = "SDIGITS" -> "C:ONE" [] v = "SEMPTY" -> "EMPTY"
                                                       [] v = "SSPACE" -> "PADDED" [] v = "SNONASCII" -> "ALPHA"]
    [] t = "boolean"          -> [k |-> "bool", x |-> v]
    [] t = "enum"             -> [k |-> "str", x |-> IF v = "E1" THEN "NAME1" ELSE "NAME2"]
    [] t = "idref"            -> [k |-> "str", x |-> IF v = "I1" THEN "MODNAME1" ELSE "NAME2"]
    [] t = "u-is"             -> IF v = "UINT" THEN [k |-> "num", x |-> "NEG1"] ELSE [k |-> "str", x |-> "LOWER"]
    [] t = "u-eu"             -> IF v = "UENUM" THEN [k |-> "str", x |-> "NAME1"] ELSE [k |-> "num", x |-> "ONE"]
    [] t = "u-bu"             -> IF v = "UBIN" THEN [k |-> "str", x |-> "B64"] ELSE [k |-> "num", x |-> "ONE"]
    [] t = "binary"           -> [k |-> "str", x |-> IF v = "BEMPTY" THEN "B64EMPTY" ELSE "B64"]
    [] t = "empty"            -> [k |-> "arrnull", x |-> "-"]

\* verdict of JSON input in for a leaf of type t
Dec(t, in) ==
  CASE in.k = "null" -> Unspec                                   \* a null member: not decided
    [] t = "empty" -> IF in.k = "arrnull" THEN Denotes("SET") ELSE Reject          \* empty only as [null]
    [] in.k \in {"arrnull", "arrempty", "arrnum", "arrnullnull", "arrnullnum", "obj"} -> Reject   \* wrong JSON kind for a scalar leaf
    [] t \in Ints /\ in.k = "num" ->
         IF in.x \in Vals(t) THEN Denotes(in.x)                   \* also for 64-bit types: exact or error
         ELSE IF in.x \in {"BELOW", "ABOVE", "FRAC", "NEGFRAC", "HUGE"} THEN Reject
         ELSE IF in.x \in {"MIN", "MIN1", "NEG1"} /\ t \in Unsigned THEN Reject
         ELSE IF in.x = "BIG53" /\ ~Is64(t) THEN (IF t \in {"int8", "int16", "int32", "uint8", "uint16", "uint32"} THEN Reject ELSE Unspec)
         ELSE IF in.x = "MID" /\ t \in Signed THEN Reject           \* 2^(w-1) is MAX+1 of the signed type
         ELSE Unspec
    [] t \in Ints /\ in.k = "str" ->
         IF ~Is64(t) THEN Reject                                   \* 8/16/32-bit integers are JSON numbers
         ELSE IF CanonOf(in.x) \in Vals(t) THEN Denotes(CanonOf(in.x))
         ELSE IF in.x \in {"EMPTY", "EXP", "FRACSTR", "EXCESSFRAC", "ALPHA", "ABOVE", "BELOW", "PADDED", "NAME1", "NAME2", "MODNAME1", "COLONS",
                           "UNKNOWNNAME", "B64", "BADB64", "LOWER", "TRUESTR", "C:DNEG", "C:DSMALL", "C:DBIG"} THEN Reject
         ELSE IF in.x \in {"C:MIN", "C:MIN1", "C:NEG1"} /\ t = "uint64" THEN Reject
         ELSE Unspec                                                \* "+5", hexadecimal, ...
    [] t \in Ints -> Reject                                         \* bool
    [] t = "dec2" /\ in.k = "str" ->
         IF CanonOf(in.x) \in Vals(t) THEN Denotes(CanonOf(in.x))
         ELSE IF in.x \in {"C:ZERO", "C:ONE", "C:NEG1"} THEN Unspec  \* integer lexical form of a decimal
         ELSE IF in.x \in {"EMPTY", "ALPHA", "PADDED", "NAME1", "NAME2", "MODNAME1", "COLONS", "UNKNOWNNAME", "BADB64", "LOWER", "TRUESTR", "HEX"} THEN Reject
         ELSE Unspec
    [] t = "dec2" /\ in.k = "num" -> Unspec                         \* RFC 7951 wants a string; leniency not decided
    [] t = "dec2" -> Reject
    [] t = "string" -> IF in.k = "str" THEN Denotes(CASE in.x = "LOWER" -> "SPLAIN" [] in.x = "C:ONE" -> "SDIGITS" [] in.x = "EMPTY" -> "SEMPTY"
                                                       [] in.x = "PADDED" -> "SSPACE" [] in.x = "ALPHA" -> "SNONASCII" [] OTHER -> "OTHER")
                       ELSE Reject
    [] t = "boolean" -> IF in.k = "bool" THEN Denotes(in.x) ELSE Reject
    [] t = "enum" -> IF in.k # "str" THEN Reject
                     ELSE IF in.x = "NAME1" THEN Denotes("E1") ELSE IF in.x = "NAME2" THEN Denotes("E2")
                     ELSE IF in.x = "MODNAME1" THEN Unspec ELSE Reject      \* unknown enumeration names
    [] t = "idref" -> IF in.k # "str" THEN Reject
                      ELSE IF in.x \in {"NAME1", "MODNAME1"} THEN Denotes("I1") ELSE IF in.x = "NAME2" THEN Denotes("I2")
                      ELSE Reject
    [] t = "binary" -> IF in.k # "str" THEN Reject
                       ELSE IF in.x = "B64" THEN Denotes("BBYTES") ELSE IF in.x \in {"B64EMPTY", "EMPTY"} THEN Denotes("BEMPTY")
                       ELSE IF in.x = "BADB64" THEN Reject ELSE Unspec      \* other strings may or may not be base64
    [] t = "u-is" -> IF in.k = "num" THEN (IF in.x \in {"MIN", "MIN1", "NEG1", "ZERO", "ONE", "MID", "MAX1", "MAX"} THEN Unspec
                                           ELSE IF in.x \in {"FRAC", "NEGFRAC", "HUGE"} THEN Reject ELSE Unspec)
                     ELSE IF in.k = "str" THEN (IF in.x = "LOWER" THEN Denotes("USTR") ELSE Unspec)
                     ELSE Reject
    [] t = "u-eu" -> IF in.k = "str" THEN (IF in.x = "NAME1" THEN Denotes("UENUM") ELSE IF in.x \in {"COLONS", "UNKNOWNNAME"} THEN Reject ELSE Unspec)
                     ELSE IF in.k = "num" THEN (IF in.x = "ONE" THEN Denotes("UUINT") ELSE IF in.x \in {"FRAC", "NEGFRAC", "HUGE", "BELOW"} THEN Reject ELSE Unspec)
                     ELSE Reject
    [] t = "u-bu" -> IF in.k = "str" THEN (IF in.x = "B64" THEN Denotes("UBIN") ELSE Unspec)
                     ELSE IF in.k = "num" THEN (IF in.x = "ONE" THEN Denotes("UU16") ELSE IF in.x \in {"FRAC", "NEGFRAC", "HUGE", "BELOW"} THEN Reject ELSE Unspec)
                     ELSE Reject

\* u-is: the number NEG1 is the canonical int32 member
DecFix(t, in) == IF t = "u-is" /\ in.k = "num" /\ in.x = "NEG1" THEN Denotes("UINT") ELSE Dec(t, in)

----------------------------------------------------------------------------
(* gNMI TypedValue *)

TVKinds == {"int_val", "uint_val", "string_val", "bool_val", "double_val", "float_val", "decimal_val", "bytes_val",
            "leaflist_val", "ascii_val", "any_val", "nil_oneof", "nil_value"}

TVX(k) ==
  CASE k = "int_val"    -> {"MIN", "MIN1", "NEG1", "ZERO", "ONE", "MAX1", "MAX", "BIG53", "BELOW", "ABOVE"}
    [] k = "uint_val"   -> {"ZERO", "ONE", "MID", "MAX1", "MAX", "BIG53", "ABOVE"}
    [] k = "string_val" -> {"NAME1", "NAME2", "UNKNOWNNAME", "LOWER", "C:ONE", "EMPTY", "PADDED", "ALPHA"}
    [] k = "bool_val"   -> {"TRUE", "FALSE"}
    [] k = "double_val" -> {"DNEG", "DZERO", "DSMALL", "DINT", "DBIG", "ONE"}
    [] k = "bytes_val"  -> {"BBYTES", "BEMPTY"}
    [] OTHER            -> {"-"}

TVInputs == UNION {{[k |-> k, x |-> x] : x \in TVX(k)} : k \in TVKinds}

EncTV(t, v) ==
  CASE t \in Signed   -> [k |-> "int_val", x |-> v]
    [] t \in Unsigned -> [k |-> "uint_val", x |-> v]
    [] t = "dec2"     -> [k |-> "double_val", x |-> v]
    [] t = "string"   -> [k |-> "string_val", x |-> CASE v = "SPLAIN" -> "LOWER" [] v = "SDIGITS" -> "C:ONE" [] v = "SEMPTY" -> "EMPTY"
                                                             [] v = "SSPACE" -> "PADDED" [] v = "SNONASCII" -> "ALPHA"]
    [] t = "boolean"  -> [k |-> "bool_val", x |-> v]
    [] t = "enum"     -> [k |-> "string_val", x |-> IF v = "E1" THEN "NAME1" ELSE "NAME2"]
    [] t = "idref"    -> [k |-> "string_val", x |-> IF v = "I1" THEN "NAME1" ELSE "NAME2"]
    [] t = "u-is"     -> IF v = "UINT" THEN [k |-> "int_val", x |-> "NEG1"] ELSE [k |-> "string_val", x |-> "LOWER"]
    [] t = "u-eu"     -> IF v = "UENUM" THEN [k |-> "string_val", x |-> "NAME1"] ELSE [k |-> "uint_val", x |-> "ONE"]
    [] t = "u-bu"     -> IF v = "UBIN" THEN [k |-> "bytes_val", x |-> "BBYTES"] ELSE [k |-> "uint_val", x |-> "ONE"]
    [] t = "binary"   -> [k |-> "bytes_val", x |-> v]
    [] t = "empty"    -> [k |-> "bool_val", x |-> "TRUE"]

DecTVPlain(t, in) ==
  CASE in.k \in {"nil_oneof", "nil_value", "any_val", "ascii_val", "float_val", "decimal_val", "leaflist_val"} ->
         IF in.k \in {"nil_oneof", "any_val", "leaflist_val"} THEN Reject ELSE Unspec   \* not a scalar of the leaf's kind (a nil
                                                                                      \* value is how SetNode creates nodes: not decided)
    [] t \in Signed /\ in.k = "int_val" -> IF in.x \in Vals(t) THEN Denotes(in.x) ELSE Reject        \* out of range for the width
    [] t \in Unsigned /\ in.k = "uint_val" -> IF in.x \in Vals(t) THEN Denotes(in.x) ELSE Reject
    [] t \in Signed /\ in.k = "uint_val" -> IF in.x \in {"ABOVE"} THEN Reject ELSE Unspec          \* cross-signedness: tolerance not decided
    [] t \in Unsigned /\ in.k = "int_val" -> IF in.x \in {"MIN", "MIN1", "NEG1", "BELOW"} THEN Reject ELSE Unspec
    [] t \in Ints -> Reject                                                                          \* wrong kind
    [] t = "dec2" -> IF in.k = "double_val" THEN (IF in.x \in Vals(t) THEN Denotes(in.x) ELSE Unspec)
                     ELSE IF in.k \in {"int_val", "uint_val"} THEN Unspec ELSE Reject
    [] t = "string" -> IF in.k = "string_val" THEN Denotes(CASE in.x = "LOWER" -> "SPLAIN" [] in.x = "C:ONE" -> "SDIGITS" [] in.x = "EMPTY" -> "SEMPTY"
                                                              [] in.x = "PADDED" -> "SSPACE" [] in.x = "ALPHA" -> "SNONASCII" [] OTHER -> "OTHER")
                       ELSE Reject
    [] t = "boolean" -> IF in.k = "bool_val" THEN Denotes(in.x) ELSE Reject
    [] t = "enum" -> IF in.k # "string_val" THEN Reject
                     ELSE IF in.x = "NAME1" THEN Denotes("E1") ELSE IF in.x = "NAME2" THEN Denotes("E2") ELSE Reject
    [] t = "idref" -> IF in.k # "string_val" THEN Reject
                      ELSE IF in.x = "NAME1" THEN Denotes("I1") ELSE IF in.x = "NAME2" THEN Denotes("I2") ELSE Reject
    [] t = "binary" -> IF in.k = "bytes_val" THEN Denotes(in.x) ELSE IF in.k = "string_val" THEN Unspec ELSE Reject
    [] t = "empty" -> IF in.k = "bool_val" THEN (IF in.x = "TRUE" THEN Denotes("SET") ELSE Unspec) ELSE Reject
    [] t = "u-is" -> IF in.k = "int_val" THEN (IF in.x = "NEG1" THEN Denotes("UINT") ELSE Unspec)
                     ELSE IF in.k = "string_val" THEN (IF in.x = "LOWER" THEN Denotes("USTR") ELSE Unspec)
                     ELSE IF in.k = "uint_val" THEN Unspec ELSE Reject
    [] t = "u-eu" -> IF in.k = "string_val" THEN (IF in.x = "NAME1" THEN Denotes("UENUM") ELSE Unspec)
                     ELSE IF in.k = "uint_val" THEN (IF in.x = "ONE" THEN Denotes("UUINT") ELSE Unspec)
                     ELSE IF in.k = "int_val" THEN Unspec ELSE Reject
    [] t = "u-bu" -> IF in.k = "bytes_val" THEN (IF in.x = "BBYTES" THEN Denotes("UBIN") ELSE Unspec)
                     ELSE IF in.k = "uint_val" THEN (IF in.x = "ONE" THEN Denotes("UU16") ELSE Unspec)
                     ELSE IF in.k = "int_val" THEN Unspec ELSE Reject

\* with TolerateJSONInconsistencies a non-negative int_val that is a value of the unsigned type is
\* accepted for an unsigned leaf; everything else is as without the option
DecTVTol(t, in) ==
  IF t \in Unsigned /\ in.k = "int_val"
  THEN IF in.x \in Vals(t) THEN Denotes(in.x) ELSE Reject            \* negative or beyond the width: still an error
  ELSE DecTVPlain(t, in)


DecTV(t, in) == DecTVPlain(t, in)

----------------------------------------------------------------------------
(* gNMI path key strings (C16): every key type, the value classes used as   *)
(* keys and the class of string the key is written as.                      *)

KeyTypes == Ints \cup {"dec2", "string", "boolean", "enum", "idref", "u-is", "u-eu", "u-bs", "u-ul", "u-lb"}

KeyStrClass(t, v) ==
  CASE t \in Ints     -> "DECIMAL-DIGITS"       \* optional "-", decimal digits
    [] t = "dec2"     -> "DECIMAL-FRACTION"     \* no exponent
    [] t = "string"   -> "VERBATIM"
    [] t = "boolean"  -> "TRUE-FALSE"
    [] t \in {"enum", "idref"} -> "NAME"
    [] t = "u-is"     -> IF v = "UINT" THEN "DECIMAL-DIGITS" ELSE "VERBATIM"
    [] t = "u-eu"     -> IF v = "UENUM" THEN "NAME" ELSE "DECIMAL-DIGITS"
    [] t = "u-bs"     -> IF v = "UBOOL" THEN "TRUE-FALSE" ELSE "VERBATIM"
    [] t = "u-ul"     -> "DECIMAL-DIGITS"
    [] t = "u-lb"     -> IF v = "UBOOL" THEN "TRUE-FALSE" ELSE "DECIMAL-DIGITS"

----------------------------------------------------------------------------
VARIABLE c
vars == <<c>>

Cases ==
  CASE Mode = "json" -> [t : Types, in : JInputs]
    [] Mode = "tv"   -> [t : Types, in : TVInputs]
    [] Mode = "tvtol" -> [t : Unsigned, in : {i \in TVInputs : i.k \in {"int_val", "uint_val"}}]
    [] Mode = "key"  -> UNION {{[t |-> t, v |-> v] : v \in Vals(t)} : t \in KeyTypes}

Init == c \in Cases
Next == UNCHANGED c
Spec == Init /\ [][Next]_vars

Verdict == CASE Mode = "json" -> DecFix(c.t, c.in) [] Mode = "tv" -> DecTV(c.t, c.in) [] Mode = "tvtol" -> DecTVTol(c.t, c.in) [] OTHER -> <<"key">>

\* the canonical encoding of every value denotes that value
CanonicalRoundTrip ==
  /\ Mode = "json" => \A v \in Vals(c.t) : DecFix(c.t, Enc(c.t, v)) = Denotes(v) /\ Enc(c.t, v) \in JInputs
  /\ Mode = "tv"   => \A v \in Vals(c.t) : DecTV(c.t, EncTV(c.t, v)) = Denotes(v) /\ EncTV(c.t, v) \in TVInputs

\* a verdict is one of the three kinds; a denoted value lies in the type's value space (or is
\* a string outside the named classes)
VerdictOK ==
  Mode \in {"json", "tv", "tvtol"} =>
    /\ Verdict[1] \in {"denotes", "reject", "unspec"}
    /\ (Verdict[1] = "denotes" => Verdict[2] \in Vals(c.t) \cup {"OTHER"})

Emit ==
  IF Mode = "key"
  THEN PrintT("KEY " \o ToJson([t |-> c.t, v |-> c.v, cls |-> KeyStrClass(c.t, c.v)]))
  ELSE PrintT("DEC " \o ToJson([mode |-> Mode, t |-> c.t, k |-> c.in.k, x |-> c.in.x, verdict |-> Verdict[1],
                                 v |-> IF Verdict[1] = "denotes" THEN Verdict[2] ELSE "-",
                                 canon |-> (\E v \in Vals(c.t) : (IF Mode = "json" THEN Enc(c.t, v) ELSE EncTV(c.t, v)) = c.in)]))

=============================================================================
