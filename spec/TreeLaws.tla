------------------------------- MODULE TreeLaws -------------------------------
(***************************************************************************)
(* Whole-tree operations of ygot as functions on the abstract tree, with    *)
(* the laws the listed properties state about them.  Every well-formed tree *)
(* of the slice is an initial state (there are no transitions); TLC checks  *)
(* the laws on each tree, and the Go harness replays each tree on the real  *)
(* code.                                                                    *)
(*                                                                         *)
(*   Enc7951 / Dec7951   RFC 7951 rendering and unmarshalling       (C01)   *)
(*   Notifs / ApplyNotifs gNMI notifications and their application  (C02)   *)
(*   Prune / BuildEmpty  PruneEmptyBranches / BuildEmptyTree        (C14)   *)
(*   PruneCF             PruneConfigFalse                           (C32)   *)
(*   Match               GetNode with wildcard / partial keys (an extension *)
(*                       beyond the listed properties: the query semantics  *)
(*                       of a path whose keys may be "*")                   *)
(***************************************************************************)
EXTENDS DataTree, Json

VARIABLE tree
vars == <<tree>>

NoDupSeqs(S, n) == {s \in UNION {[1..k -> S] : k \in 0..n} : Cardinality(Range(s)) = Len(s)}
LLVals == NoDupSeqs(Vals, 2)

KeyLeafValue(x) ==
  LET e == Front(x)
      lsp == SchemaOf(Front(e))
      kn == KeyLeafNames[lsp]
  IN KeyPart(lsp, Last(e), CHOOSE i \in 1..Len(kn) : kn[i] = Last(x))

LeafVal(x) == IF IsKeyLeaf(x) THEN {KeyLeafValue(x)} ELSE Vals

\* all partial functions from leaves D to their legal values / from leaf-lists to lists
RECURSIVE LeafPFuns(_)
LeafPFuns(D) ==
  IF D = {} THEN {<< >>}
  ELSE LET x == CHOOSE x \in D : TRUE
           rest == LeafPFuns(D \ {x})
       IN rest \cup {(x :> v) @@ f : v \in LeafVal(x), f \in rest}

RECURSIVE LLPFuns(_)
LLPFuns(D) ==
  IF D = {} THEN {<< >>}
  ELSE LET x == CHOOSE x \in D : TRUE
           rest == LLPFuns(D \ {x})
       IN rest \cup {(x :> v) @@ f : v \in LLVals, f \in rest}

OrdersOf(S) == {s \in NoDupSeqs(S, Cardinality(S)) : Range(s) = S}

\* every tree a GoStruct of the slice can hold in which list entries carry their key leaves
AllTrees ==
  {t \in [lv : LeafPFuns(LeafDP), ll : LLPFuns(LeafListDP),
          en : [UListDP -> SUBSET KeySteps], oe : [OListDP -> UNION {OrdersOf(S) : S \in SUBSET KeyAtoms}],
          ct : SUBSET ContDP] :
     /\ \A l \in UListDP : t.en[l] \subseteq KeysOf(SchemaOf(l))
     /\ WellFormed(t)
     /\ \A l \in ListDP : \A k \in Entries(t, l) :
          \A i \in 1..Len(KeyLeafNames[SchemaOf(l)]) :
             (l \o <<k, KeyLeafNames[SchemaOf(l)][i]>>) \in DOMAIN t.lv}

Init == tree \in AllTrees
Next == UNCHANGED tree
Spec == Init /\ [][Next]_vars

----------------------------------------------------------------------------
(* What the properties observe of a tree *)

PresenceConts(t) == {c \in t.ct : SK[SchemaOf(c)] = "pcont"}

\* leaves, non-empty leaf-lists, entries (order for ordered lists), presence containers
Observable(t) ==
  [ lv |-> t.lv,
    ll |-> Restrict(t.ll, {x \in DOMAIN t.ll : t.ll[x] # << >>}),
    en |-> t.en, oe |-> t.oe,
    pc |-> PresenceConts(t) ]

----------------------------------------------------------------------------
(* C01: RFC 7951 JSON.  A document is a function from member names to       *)
(* tagged values: <<"leaf", v>>, <<"ll", seq>>, <<"obj", doc>>,             *)
(* <<"set", set of entry docs>> (unordered list: array in key order) and    *)
(* <<"seq", sequence of entry docs>> (ordered-by-user list).                *)

ChildNames(sp) == {Last(n) : n \in {m \in Nodes : Len(m) = Len(sp) + 1 /\ SubSeq(m, 1, Len(sp)) = sp}}

RECURSIVE Enc(_, _)
EncPresent(t, c) ==
  LET k == SK[SchemaOf(c)] IN
  CASE k = "leaf"     -> c \in DOMAIN t.lv
    [] k = "leaflist" -> c \in DOMAIN t.ll /\ t.ll[c] # << >>
    [] k = "cont"     -> c \in t.ct /\ DOMAIN Enc(t, c) # {}      \* empty containers are not rendered
    [] k = "pcont"    -> c \in t.ct                               \* presence containers are, as {}
    [] k = "list"     -> t.en[c] # {}
    [] k = "olist"    -> t.oe[c] # << >>

Enc(t, dp) ==
  [n \in {n \in ChildNames(SchemaOf(dp)) : EncPresent(t, dp \o <<n>>)} |->
     LET c == dp \o <<n>>
         k == SK[SchemaOf(c)]
     IN CASE k = "leaf"     -> <<"leaf", t.lv[c]>>
          [] k = "leaflist" -> <<"ll", t.ll[c]>>
          [] IsContKind(k)  -> <<"obj", Enc(t, c)>>
          [] k = "list"     -> <<"set", {Enc(t, c \o <<e>>) : e \in t.en[c]}>>
          [] k = "olist"    -> <<"seq", [i \in 1..Len(t.oe[c]) |-> Enc(t, c \o <<t.oe[c][i]>>)]>>]

\* the key atom of an entry document of list lsp, read from its key leaves
EntryKey(doc, lsp) ==
  CHOOSE a \in KeysOf(lsp) :
    \A i \in 1..Len(KeyLeafNames[lsp]) : doc[KeyLeafNames[lsp][i]][2] = KeyPart(lsp, a, i)

UnionTrees(S) ==
  [ lv |-> MergeFns({x.lv : x \in S}),
    ll |-> MergeFns({x.ll : x \in S}),
    en |-> [l \in UListDP |-> UNION {x.en[l] : x \in S}],
    oe |-> [l \in OListDP |-> IF \E x \in S : x.oe[l] # << >>
                              THEN (CHOOSE x \in S : x.oe[l] # << >>).oe[l] ELSE << >>],
    ct |-> UNION {x.ct : x \in S} ]

RECURSIVE Dec(_, _)
DecMember(m, c) ==
  CASE m[1] = "leaf" -> [EmptyTree EXCEPT !.lv = (c :> m[2])]
    [] m[1] = "ll"   -> [EmptyTree EXCEPT !.ll = (c :> m[2])]
    [] m[1] = "obj"  -> LET d == Dec(m[2], c) IN [d EXCEPT !.ct = d.ct \cup {c}]
    [] m[1] = "set"  ->
         LET parts == {Dec(e, c \o <<EntryKey(e, SchemaOf(c))>>) : e \in m[2]}
             u == UnionTrees(parts \cup {EmptyTree})
         IN [u EXCEPT !.en = [l \in UListDP |-> IF l = c THEN {EntryKey(e, SchemaOf(c)) : e \in m[2]} ELSE u.en[l]]]
    [] m[1] = "seq"  ->
         LET parts == {Dec(m[2][i], c \o <<EntryKey(m[2][i], SchemaOf(c))>>) : i \in 1..Len(m[2])}
             u == UnionTrees(parts \cup {EmptyTree})
         IN [u EXCEPT !.oe = [l \in OListDP |-> IF l = c THEN [i \in 1..Len(m[2]) |-> EntryKey(m[2][i], SchemaOf(c))] ELSE u.oe[l]]]

Dec(doc, dp) == UnionTrees({DecMember(doc[n], dp \o <<n>>) : n \in DOMAIN doc} \cup {EmptyTree})

\* lossless round trip on what C01 observes, and a fixpoint after one round
RoundTrip7951 ==
  LET u == Dec(Enc(tree, << >>), << >>) IN
  /\ Observable(u) = Observable(tree)
  /\ Enc(u, << >>) = Enc(tree, << >>)

----------------------------------------------------------------------------
(* C02: notifications.  One non-atomic notification holding an update per   *)
(* leaf / leaf-list outside ordered lists, and one atomic notification per  *)
(* ordered list (prefix = the list's parent path) holding its leaves in     *)
(* entry order.  Applying them: a non-atomic update writes the leaf; an     *)
(* atomic notification first deletes everything below its prefix ... which  *)
(* here is the ordered list itself, since the prefix elements carry on to   *)
(* the list name in the update paths.                                       *)

InOrdered(x) == \E l \in OListDP : Below(l, x)

Updates(t) == {<<x, t.lv[x]>> : x \in {y \in DOMAIN t.lv : ~InOrdered(y)}}
              \cup {<<x, t.ll[x]>> : x \in {y \in DOMAIN t.ll : ~InOrdered(y)}}

\* sequence of <<path, value>> of ordered list l in entry order (leaves of one entry in any order)
RECURSIVE SeqOfSet(_)
SeqOfSet(S) == IF S = {} THEN << >> ELSE LET x == CHOOSE x \in S : TRUE IN <<x>> \o SeqOfSet(S \ {x})

AtomicUpdates(t, l) ==
  LET perEntry(k) == SeqOfSet({<<x, t.lv[x]>> : x \in {y \in DOMAIN t.lv : Below(l \o <<k>>, y)}})
      RECURSIVE Cat(_)
      Cat(i) == IF i > Len(t.oe[l]) THEN << >> ELSE perEntry(t.oe[l][i]) \o Cat(i + 1)
  IN Cat(1)

RECURSIVE ApplySeq(_, _)
ApplySeq(t, ups) ==
  IF ups = << >> THEN t
  ELSE LET u == Head(ups)
       IN ApplySeq(IF u[1] \in LeafListDP THEN SetLeafList(t, u[1], u[2]) ELSE SetLeaf(t, u[1], u[2]), Tail(ups))

ApplyNotifs(t) ==
  LET plain == ApplySeq(EmptyTree, SeqOfSet(Updates(t)))
      RECURSIVE Atom(_, _)
      Atom(u, ls) == IF ls = {} THEN u
                     ELSE LET l == CHOOSE l \in ls : TRUE
                          IN Atom(ApplySeq(DeleteAt(u, l), AtomicUpdates(t, l)), ls \ {l})
  IN Atom(plain, {l \in OListDP : t.oe[l] # << >>})

RoundTripNotifs ==
  LET u == ApplyNotifs(tree) IN
  /\ u.lv = tree.lv
  /\ Restrict(u.ll, {x \in DOMAIN u.ll : u.ll[x] # << >>}) = Restrict(tree.ll, {x \in DOMAIN tree.ll : tree.ll[x] # << >>})
  /\ u.oe = tree.oe /\ u.en = tree.en

----------------------------------------------------------------------------
(* C14: PruneEmptyBranches walks the tree bottom-up and removes every       *)
(* container (presence containers included) without set descendants; list   *)
(* entries are never removed.  BuildEmptyTree creates every container       *)
(* below existing containers / entries.                                     *)

\* operational: repeatedly remove a container that has no content, deepest first
RECURSIVE PruneFrom(_, _)
PruneFrom(t, cs) ==
  IF cs = {} THEN t
  ELSE LET c == CHOOSE c \in cs : \A d \in cs : Len(d) <= Len(c)
       IN PruneFrom(IF c \in t.ct /\ ~HasContent(t, c) THEN [t EXCEPT !.ct = t.ct \ {c}] ELSE t, cs \ {c})

Prune(t) == PruneFrom(t, t.ct)

\* containers that exist or could be created directly below an existing parent, closed downwards
RECURSIVE BuildFrom(_, _)
BuildFrom(t, n) ==
  IF n = 0 THEN t
  ELSE BuildFrom([t EXCEPT !.ct = t.ct \cup {c \in ContDP : Exists(t, NodeParent(c))}], n - 1)

BuildEmpty(t) == BuildFrom(t, 3)

PruneLaws ==
  LET u == Prune(tree) IN
  /\ u.lv = tree.lv /\ u.ll = tree.ll /\ u.en = tree.en /\ u.oe = tree.oe     \* nothing set is lost
  /\ \A c \in u.ct : HasContent(u, c)                                        \* no empty container left
  /\ \A c \in tree.ct : HasContent(tree, c) /\ (\E x \in (DOMAIN tree.lv) \cup (DOMAIN tree.ll) : Below(c, x))
                        => c \in u.ct
  /\ Prune(u) = u                                                            \* idempotent
  /\ LET b == Prune(BuildEmpty(tree)) IN b.lv = tree.lv /\ b.ll = tree.ll /\ b.en = tree.en /\ b.oe = tree.oe
  /\ WellFormed(u)

----------------------------------------------------------------------------
(* C32: PruneConfigFalse visits every field and clears those whose schema    *)
(* node is config false -- except, in compressed code, the state leaves that *)
(* stand for a configuration leaf (in this corpus every state leaf other     *)
(* than the DerivedState ones mirrors a configuration leaf).                 *)

IsDerived(x) == \E d \in DerivedState : IsPrefix(d, SchemaOf(x))

\* operational: clear each derived node (with everything below it); nothing is pruned upwards
PruneCF(t) ==
  [ lv |-> Restrict(t.lv, {x \in DOMAIN t.lv : ~IsDerived(x)}),
    ll |-> Restrict(t.ll, {x \in DOMAIN t.ll : ~IsDerived(x)}),
    en |-> t.en, oe |-> t.oe,
    ct |-> {x \in t.ct : ~IsDerived(x)} ]

ConfigFalseLaws ==
  LET u == PruneCF(tree) IN
  /\ \A x \in (DOMAIN u.lv) \cup (DOMAIN u.ll) : ~IsDerived(x)                        \* no derived state remains
  /\ \A x \in DOMAIN tree.lv : ~IsDerived(x) => (x \in DOMAIN u.lv /\ u.lv[x] = tree.lv[x])  \* config values unchanged
  /\ \A x \in DOMAIN tree.ll : ~IsDerived(x) => (x \in DOMAIN u.ll /\ u.ll[x] = tree.ll[x])
  /\ u.en = tree.en /\ u.oe = tree.oe
  /\ PruneCF(u) = u

----------------------------------------------------------------------------
(* Queries: a path whose key steps may be wildcards.  For a single-key list  *)
(* the wildcard step is "*"; for the two-key list each part may be "*"       *)
(* ("K1.*", "*.K2", "*.*").  Match(t, q) is the set of data paths of t that  *)
(* q selects: the query semantics of GetNode with GetHandleWildcards (and,  *)
(* with the "*" parts left out of the path, GetPartialKeyMatch).            *)

WildAtoms == {"*"}
MWildAtoms == {"K1.*", "K2.*", "*.K1", "*.K2", "*.*"}
WildSteps == WildAtoms \cup MWildAtoms

\* does the concrete key step k match the (possibly wild) step w of list lsp
StepMatches(lsp, w, k) ==
  IF lsp = <<"m">>
  THEN LET wp == IF w \in MKeyAtoms THEN MKeyParts[w]
                 ELSE CASE w = "K1.*" -> <<"K1", "*">> [] w = "K2.*" -> <<"K2", "*">>
                        [] w = "*.K1" -> <<"*", "K1">> [] w = "*.K2" -> <<"*", "K2">> [] OTHER -> <<"*", "*">>
       IN \A i \in 1..2 : wp[i] = "*" \/ wp[i] = MKeyParts[k][i]
  ELSE w = "*" \/ w = k

\* the nodes of a tree (what GetNode can return): leaves, leaf-lists, containers, entries
NodesOf(t) == (DOMAIN t.lv) \cup (DOMAIN t.ll) \cup t.ct \cup {e \in EntryDP : HasEntry(t, e)}

\* queries: every node path of the slice with at least one key step made wild
WildOf(lsp) == IF lsp = <<"m">> THEN MWildAtoms ELSE WildAtoms
RECURSIVE Wilden(_, _)
Wilden(p, i) ==      \* all ways of replacing key steps of p from position i on
  IF i > Len(p) THEN {p}
  ELSE IF p[i] \in KeySteps
       THEN LET lsp == SchemaOf(SubSeq(p, 1, i - 1)) IN
            UNION {Wilden([p EXCEPT ![i] = w], i + 1) : w \in {p[i]} \cup WildOf(lsp)}
       ELSE Wilden(p, i + 1)
AllNodeDP == LeafDP \cup LeafListDP \cup ContDP \cup EntryDP
Queries == UNION {Wilden(p, 1) : p \in AllNodeDP} \ AllNodeDP

QMatches(q, p) ==
  /\ Len(q) = Len(p)
  /\ \A i \in 1..Len(q) :
        IF p[i] \in KeySteps THEN StepMatches(SchemaOf(SubSeq(p, 1, i - 1)), q[i], p[i]) ELSE q[i] = p[i]

Match(t, q) == {p \in NodesOf(t) : QMatches(q, p)}

\* laws of the query semantics itself
QueryLaws ==
  /\ \A q \in Queries : Match(tree, q) \subseteq NodesOf(tree)
  \* a wildcard selects exactly what the concrete queries select together
  /\ \A q \in Queries : Match(tree, q) = UNION {IF p \in NodesOf(tree) THEN {p} ELSE {} : p \in {x \in AllNodeDP : QMatches(q, x)}}
  \* widening a query never loses a match
  /\ \A q1, q2 \in Queries : (\A p \in AllNodeDP : QMatches(q1, p) => QMatches(q2, p)) => Match(tree, q1) \subseteq Match(tree, q2)

QueryJson == SetToSeq({[q |-> q, m |-> SetToSeq(Match(tree, q))] : q \in Queries})

EmitTree == PrintT("TREE " \o ToJson([t |-> TreeJson(tree), pruned |-> TreeJson(Prune(tree)),
                                      built |-> TreeJson(BuildEmpty(tree)), pcf |-> TreeJson(PruneCF(tree))]))

\* emission with the queries (used by the GetNode-query extension only: it is large)
EmitTreeQ == PrintT("TREE " \o ToJson([t |-> TreeJson(tree), q |-> QueryJson]))

=============================================================================
