------------------------------ MODULE MC_TreeLaws ------------------------------
EXTENDS TreeLaws
EnabledA == { <<"c">>, <<"c","a">>, <<"l">>, <<"l","k">>, <<"l","v">>, <<"l","sub">>, <<"l","sub","w">> }
EnabledB == { <<"c">>, <<"c","a">>, <<"c","ll">>, <<"c","p">>, <<"c","p","x">>, <<"ol">>, <<"ol","k">>, <<"ol","v">> }
\* slice O: the ordered list with a nested container in its entries
EnabledO == { <<"ol">>, <<"ol","k">>, <<"ol","sub">>, <<"ol","sub","w">> }
EnabledM == { <<"c">>, <<"c","a">>, <<"m">>, <<"m","k1">>, <<"m","k2">>, <<"m","v">> }
\* slices with derived state: plain shape (config false container st) and OpenConfig shape (state-only leaf c/s)
EnabledST == { <<"c">>, <<"c","a">>, <<"c","ll">>, <<"l">>, <<"l","k">>, <<"l","v">>, <<"st">>, <<"st","s">> }
EnabledSOC == { <<"c">>, <<"c","a">>, <<"c","s">>, <<"c","ll">>, <<"l">>, <<"l","k">>, <<"l","v">>, <<"l","sub">>, <<"l","sub","w">> }
\* small slices for pair models
EnabledP == { <<"c">>, <<"c","a">>, <<"l">>, <<"l","k">>, <<"l","v">> }
EnabledQ == { <<"c">>, <<"c","ll">>, <<"ol">>, <<"ol","k">>, <<"ol","v">> }
=============================================================================
