------------------------------ MODULE SchemaGen ------------------------------
(***************************************************************************)
(* The code generators (C25 - C29): an abstract YANG schema, the           *)
(* compression behaviours of ygen, and the structure the generated Go      *)
(* structs, embedded schema, path structs and protobuf messages must have. *)
(*                                                                         *)
(* A schema is a set of DATA NODES                                         *)
(*   [p    : the data-tree path from the module root (sequence of names),  *)
(*    k    : "container" | "list" | "leaf" | "leaf-list",                  *)
(*    cfg  : the effective config flag,                                    *)
(*    t    : the type of a leaf / leaf-list ("-" otherwise),               *)
(*    keys : the key leaf names of a list (<< >>: unkeyed),                *)
(*    ob   : "user" | "system",  pres : presence container,                *)
(*    via  : how the node is declared -- "plain", "grouping", "augment"    *)
(*           (from the second module) or "choice:<choice>/<case>"; choice  *)
(*           and case nodes are not data nodes and do not appear in p]     *)
(* built from feature toggles (Schema(tog)): plain or OpenConfig-style     *)
(* (config / state containers, surrounding containers of lists, leafref    *)
(* list keys), the key types of a single-key and a two-key list, ordered-by *)
(* user, the leaf-list type, and a set of extras (sibling names that        *)
(* collide after name mangling, choice / case, grouping, augment, presence, *)
(* config false subtree with an unkeyed list, identityref, leafref).        *)
(*                                                                         *)
(* Map(S, e, beh) is ygen's view of the children of directory e under the   *)
(* compression behaviour beh (genutil.FindAllChildren): the fields of the   *)
(* struct generated for e, each with the relative schema paths it stands    *)
(* for and its shadow paths.  TLC checks on every schema and behaviour:     *)
(*   ExactlyOnce    every data node reachable under the behaviour is a      *)
(*                  field of exactly one struct, or is elided by one of the *)
(*                  documented rules (config / state container, surrounding *)
(*                  container of a list, leafref copy of a list key, the    *)
(*                  de-prioritised twin of a leaf = shadow path);           *)
(*   PathsDistinct  no two fields of a struct share a schema path;          *)
(*   StateExcluded  with exclude_state no config false node is mapped.      *)
(* The emitted expectation (structs, fields, kinds, key types, data paths)  *)
(* is compared with the generated code, the schema it embeds, the path      *)
(* structs' resolved paths and the protobuf messages.                       *)
(***************************************************************************)
EXTENDS Naturals, Sequences, FiniteSets, TLC, Json, SequencesExt

CONSTANTS Quick,    \* TRUE: the every-change subset of the toggle space
          AdvNames  \* adversarial leaf names (C28): names whose schema path hashes to field number 0, into
                    \* the reserved ranges, or to the number of a sibling; added as string leaves next to top/a

Behaviours == {"Uncompressed", "UncompressedExcludeDerivedState", "PreferIntendedConfig", "PreferOperationalState", "ExcludeDerivedState"}
Compressing(b) == b \in {"PreferIntendedConfig", "PreferOperationalState", "ExcludeDerivedState"}
ExcludesState(b) == b \in {"UncompressedExcludeDerivedState", "ExcludeDerivedState"}

KeyTypes  == {"string", "uint32", "int64", "enum-typedef", "enum-inline", "union-su", "union-eu", "identityref", "boolean", "decimal64", "binary"}
KeyTypes2 == {"uint32", "enum-typedef", "string"}
LLTypes   == {"string", "union-su", "enum-inline"}

\* a binary list key is refused by the Go generator ("has a binary key -- this is unsupported"): such a
\* schema is outside the supported subset; it stays in the model so that the refusal itself is exercised
Supported(tog) == tog.kt # "binary"

Toggles == [oc : BOOLEAN, kt : KeyTypes, kt2 : KeyTypes2, ord : BOOLEAN, llt : LLTypes, extras : BOOLEAN]

N(p, k, cfg, t, keys, ob, pres, via) == [p |-> p, k |-> k, cfg |-> cfg, t |-> t, keys |-> keys, ob |-> ob, pres |-> pres, via |-> via]
Cont(p, cfg, via) == N(p, "container", cfg, "-", << >>, "system", FALSE, via)
Pres(p)           == N(p, "container", TRUE, "-", << >>, "system", TRUE, "plain")
Leaf(p, cfg, t, via) == N(p, "leaf", cfg, t, << >>, "system", FALSE, via)
LeafList(p, cfg, t)  == N(p, "leaf-list", cfg, t, << >>, "system", FALSE, "plain")
List(p, cfg, keys, ob) == N(p, "list", cfg, "-", keys, ob, FALSE, "plain")

OB(tog) == IF tog.ord THEN "user" ELSE "system"

\* --- the plain shape ------------------------------------------------------
PlainCore(tog) ==
  { Cont(<<"top">>, TRUE, "plain"),
    Leaf(<<"top", "a">>, TRUE, "string", "plain"), Leaf(<<"top", "e">>, TRUE, "enum-typedef", "plain"),
    LeafList(<<"top", "ll">>, TRUE, tog.llt),
    List(<<"top", "l">>, TRUE, <<"k">>, OB(tog)),
    Leaf(<<"top", "l", "k">>, TRUE, tog.kt, "plain"), Leaf(<<"top", "l", "v">>, TRUE, "string", "plain"),
    Cont(<<"top", "l", "sub">>, TRUE, "plain"), Leaf(<<"top", "l", "sub", "w">>, TRUE, "uint32", "plain"),
    List(<<"top", "ml">>, TRUE, <<"k1", "k2">>, OB(tog)),
    Leaf(<<"top", "ml", "k1">>, TRUE, "string", "plain"), Leaf(<<"top", "ml", "k2">>, TRUE, tog.kt2, "plain"),
    Leaf(<<"top", "ml", "v">>, TRUE, "enum-inline", "plain") }

PlainExtras ==
  { Cont(<<"top", "c-x">>, TRUE, "plain"), Leaf(<<"top", "c-x", "v">>, TRUE, "string", "plain"),
    Cont(<<"top", "c_x">>, TRUE, "plain"), Leaf(<<"top", "c_x", "v">>, TRUE, "uint32", "plain"),
    Leaf(<<"top", "ca">>, TRUE, "string", "choice:ch/a"),
    Cont(<<"top", "cb">>, TRUE, "choice:ch/b"), Leaf(<<"top", "cb", "x">>, TRUE, "int64", "plain"),
    Leaf(<<"top", "g">>, TRUE, "string", "grouping"),
    Leaf(<<"top", "aug">>, TRUE, "string", "augment"),
    Pres(<<"top", "p">>), Leaf(<<"top", "p", "x">>, TRUE, "empty", "plain"),
    Cont(<<"top", "st">>, FALSE, "plain"), List(<<"top", "st", "ul">>, FALSE, << >>, "system"),
    Leaf(<<"top", "st", "ul", "u">>, FALSE, "string", "plain"), Leaf(<<"top", "st", "cnt">>, FALSE, "uint64", "plain"),
    Leaf(<<"top", "idr">>, TRUE, "identityref", "plain"),
    Leaf(<<"top", "ref">>, TRUE, "leafref:../a", "plain"),
    LeafList(<<"top", "refs">>, TRUE, "leafref:../a"),
    \* a list whose key leaf has the list's own name, a name that needs sanitising in generated identifiers
    List(<<"top", "n-h">>, TRUE, <<"n-h">>, "system"),
    Leaf(<<"top", "n-h", "n-h">>, TRUE, "string", "plain"), Leaf(<<"top", "n-h", "d">>, TRUE, "string", "plain") }

\* --- the OpenConfig shape -------------------------------------------------
\* a config / state pair below p: the leaves ls (name, type, via) in both, the leaves so only in state
CS(p, ls, so) ==
  { Cont(p \o <<"config">>, TRUE, "plain"), Cont(p \o <<"state">>, FALSE, "plain") }
  \cup { Leaf(p \o <<"config", x[1]>>, TRUE, x[2], x[3]) : x \in ls }
  \cup { Leaf(p \o <<"state", x[1]>>, FALSE, x[2], x[3]) : x \in ls \cup so }

OCCore(tog) ==
  { Cont(<<"top">>, TRUE, "plain") }
  \cup CS(<<"top">>, {<<"a", "string", "plain">>, <<"e", "enum-typedef", "plain">>}, {<<"cnt", "uint64", "plain">>})
  \cup { LeafList(<<"top", "config", "ll">>, TRUE, tog.llt), LeafList(<<"top", "state", "ll">>, FALSE, tog.llt) }
  \cup { Cont(<<"top", "ls">>, TRUE, "plain"), List(<<"top", "ls", "l">>, TRUE, <<"k">>, OB(tog)),
         Leaf(<<"top", "ls", "l", "k">>, TRUE, "leafref:../config/k", "plain") }
  \cup CS(<<"top", "ls", "l">>, {<<"k", tog.kt, "plain">>, <<"v", "string", "plain">>}, {<<"sv", "uint32", "plain">>})
  \cup { Cont(<<"top", "ls", "l", "sub">>, TRUE, "plain") }
  \cup CS(<<"top", "ls", "l", "sub">>, {<<"w", "uint32", "plain">>}, {})
  \cup { Cont(<<"top", "mls">>, TRUE, "plain"), List(<<"top", "mls", "ml">>, TRUE, <<"k1", "k2">>, OB(tog)),
         Leaf(<<"top", "mls", "ml", "k1">>, TRUE, "leafref:../config/k1", "plain"),
         Leaf(<<"top", "mls", "ml", "k2">>, TRUE, "leafref:../config/k2", "plain") }
  \cup CS(<<"top", "mls", "ml">>, {<<"k1", "string", "plain">>, <<"k2", tog.kt2, "plain">>, <<"v", "enum-inline", "plain">>}, {})

OCExtras ==
  { Cont(<<"top", "c-x">>, TRUE, "plain"), Cont(<<"top", "c_x">>, TRUE, "plain") }
  \cup CS(<<"top", "c-x">>, {<<"v", "string", "plain">>}, {})
  \cup CS(<<"top", "c_x">>, {<<"v", "uint32", "plain">>}, {})
  \cup { Cont(<<"top", "cb">>, TRUE, "choice:ch/b") }
  \cup CS(<<"top", "cb">>, {<<"x", "int64", "plain">>}, {})
  \* leaves of the top config / state pair declared through a choice, a grouping and an augment
  \cup { Leaf(<<"top", "config", "ca">>, TRUE, "string", "choice:ch/a"), Leaf(<<"top", "state", "ca">>, FALSE, "string", "choice:ch/a"),
         Leaf(<<"top", "config", "g">>, TRUE, "string", "grouping"), Leaf(<<"top", "state", "g">>, FALSE, "string", "grouping"),
         Leaf(<<"top", "config", "aug">>, TRUE, "string", "augment"), Leaf(<<"top", "state", "aug">>, FALSE, "string", "augment"),
         Leaf(<<"top", "config", "idr">>, TRUE, "identityref", "plain"), Leaf(<<"top", "state", "idr">>, FALSE, "identityref", "plain"),
         Leaf(<<"top", "config", "ref">>, TRUE, "leafref:../a", "plain"), Leaf(<<"top", "state", "ref">>, FALSE, "leafref:../a", "plain"),
         \* a leaf-list of leafrefs whose path goes through a config container (rewritten to state with prefer_operational_state)
         LeafList(<<"top", "config", "refs">>, TRUE, "leafref:../../config/a"), LeafList(<<"top", "state", "refs">>, FALSE, "leafref:../../config/a") }
  \* a list whose key leaf has the list's own name, a name that needs sanitising in generated identifiers
  \cup { Cont(<<"top", "n-hs">>, TRUE, "plain"), List(<<"top", "n-hs", "n-h">>, TRUE, <<"n-h">>, "system"),
         Leaf(<<"top", "n-hs", "n-h", "n-h">>, TRUE, "leafref:../config/n-h", "plain") }
  \cup CS(<<"top", "n-hs", "n-h">>, {<<"n-h", "string", "plain">>, <<"d", "string", "plain">>}, {})
  \cup { Pres(<<"top", "p">>) } \cup CS(<<"top", "p">>, {<<"x", "empty", "plain">>}, {})
  \* a container below state (becomes a child of top), and a keyed state list with its surrounding container
  \cup { Cont(<<"top", "state", "counters">>, FALSE, "plain"), Leaf(<<"top", "state", "counters", "in">>, FALSE, "uint64", "plain"),
         Cont(<<"top", "sls">>, FALSE, "plain"), List(<<"top", "sls", "sl">>, FALSE, <<"id">>, "system"),
         Leaf(<<"top", "sls", "sl", "id">>, FALSE, "leafref:../state/id", "plain"),
         Cont(<<"top", "sls", "sl", "state">>, FALSE, "plain"),
         Leaf(<<"top", "sls", "sl", "state", "id">>, FALSE, "uint32", "plain"), Leaf(<<"top", "sls", "sl", "state", "val">>, FALSE, "string", "plain") }

AdvPlain == {Leaf(<<"top", x>>, TRUE, "string", "plain") : x \in AdvNames}
AdvOC == {Leaf(<<"top", "config", x>>, TRUE, "string", "plain") : x \in AdvNames} \cup {Leaf(<<"top", "state", x>>, FALSE, "string", "plain") : x \in AdvNames}

Schema(tog) ==
  IF tog.oc THEN OCCore(tog) \cup (IF tog.extras THEN OCExtras ELSE {}) \cup AdvOC
  ELSE PlainCore(tog) \cup (IF tog.extras THEN PlainExtras ELSE {}) \cup AdvPlain

----------------------------------------------------------------------------
(* Navigation *)
Root == [p |-> << >>, k |-> "container", cfg |-> TRUE, t |-> "-", keys |-> << >>, ob |-> "system", pres |-> FALSE, via |-> "plain"]
IsDir(n) == n.k \in {"container", "list"}
Kids(S, e) == {n \in S : Len(n.p) = Len(e.p) + 1 /\ SubSeq(n.p, 1, Len(e.p)) = e.p}
Name(n) == n.p[Len(n.p)]
IsCS(n) == n.k = "container" /\ Name(n) \in {"config", "state"}
IsLeafref(n) == n.k = "leaf" /\ Len(n.t) > 8 /\ SubSeq(n.t, 1, 8) = "leafref:"

(* FindAllChildren: the set of fields of the struct for directory e.  A field is *)
(* [n : the node, paths : relative schema paths, shadow : relative shadow paths]  *)
Rel(e, n) == SubSeq(n.p, Len(e.p) + 1, Len(n.p))

MapUncompressed(S, e, b) ==
  {[n |-> n, paths |-> {Rel(e, n)}, shadow |-> {}] : n \in {x \in Kids(S, e) : ~(ExcludesState(b) /\ ~x.cfg)}}

Prio(b)   == IF b = "PreferOperationalState" THEN "state" ELSE "config"
Deprio(b) == IF b = "PreferOperationalState" THEN "config" ELSE "state"

MapCompressed(S, e, b) ==
  LET kids  == {x \in Kids(S, e) : ~(ExcludesState(b) /\ ~x.cfg)}
      prioC == {x \in kids : IsCS(x) /\ Name(x) = Prio(b)}
      depC  == {x \in kids : IsCS(x) /\ Name(x) = Deprio(b)}
      prioKids == UNION {Kids(S, x) : x \in prioC}
      depKids  == UNION {Kids(S, x) : x \in depC}
      prioNames == {Name(x) : x \in prioKids}
      \* keys of a list: the leafref copy k stands for the same field as config/k
      keyCopies == IF e.k = "list" THEN {x \in kids : IsLeafref(x)} ELSE {}
      hoisted(x) ==       \* a leaf / directory hoisted out of config or state
        LET twin == {y \in depKids : Name(y) = Name(x)}
            copy == {y \in keyCopies : Name(y) = Name(x)}
        IN [n |-> x, paths |-> {Rel(e, x)} \cup {Rel(e, y) : y \in copy},
            shadow |-> {Rel(e, y) : y \in twin} \cup (IF twin = {} THEN {} ELSE {Rel(e, y) : y \in copy})]
      fromPrio == {hoisted(x) : x \in prioKids}
      fromDep  == {[n |-> x, paths |-> {Rel(e, x)} \cup {Rel(e, y) : y \in {z \in keyCopies : Name(z) = Name(x)}}, shadow |-> {}]
                     : x \in {y \in depKids : Name(y) \notin prioNames}}
      dirs == {x \in kids : IsDir(x) /\ ~IsCS(x)}
      \* a directory whose only child is a list is skipped: the list becomes the field
      surround(x) == x.k = "container" /\ Cardinality(Kids(S, x)) = 1 /\ \A y \in Kids(S, x) : y.k = "list"
      fromDirs == UNION {IF surround(x)
                         THEN {[n |-> y, paths |-> {Rel(e, y)}, shadow |-> {}] : y \in {z \in Kids(S, x) : ~(ExcludesState(b) /\ ~z.cfg)}}
                         ELSE {[n |-> x, paths |-> {Rel(e, x)}, shadow |-> {}]} : x \in dirs}
      leaves == {[n |-> x, paths |-> {Rel(e, x)}, shadow |-> {}] : x \in {y \in kids : ~IsDir(y) /\ y \notin keyCopies}}
  IN fromPrio \cup fromDep \cup fromDirs \cup leaves

Map(S, e, b) == IF Compressing(b) THEN MapCompressed(S, e, b) ELSE MapUncompressed(S, e, b)

\* the directories for which a struct is generated: reachable from the root through Map
RECURSIVE StructsFrom(_, _, _, _)
StructsFrom(S, b, frontier, acc) ==
  IF frontier = {} THEN acc
  ELSE LET nxt == UNION {{f.n : f \in {g \in Map(S, e, b) : IsDir(g.n)}} : e \in frontier}
       IN StructsFrom(S, b, nxt \ acc, acc \cup nxt)
Structs(S, b) == StructsFrom(S, b, {Root}, {Root})

Fields(S, b) == UNION {{[s |-> e.p, f |-> f] : f \in Map(S, e, b)} : e \in Structs(S, b)}

\* every schema path a field stands for, absolute
AbsPaths(x) == {x.s \o r : r \in x.f.paths \cup x.f.shadow}

----------------------------------------------------------------------------
VARIABLES tog, beh, chosen
vars == <<tog, beh, chosen>>

QuickTogs ==
  { t \in Toggles : /\ t.extras
                    /\ t.kt2 = (IF t.kt \in {"string", "union-su"} THEN "uint32" ELSE IF t.kt = "uint32" THEN "enum-typedef" ELSE "string")
                    /\ t.llt = (IF t.kt \in {"string", "uint32", "int64", "boolean"} THEN "union-su" ELSE IF t.kt \in {"enum-typedef", "union-eu"} THEN "enum-inline" ELSE "string")
                    /\ t.ord = (t.kt \in {"string", "enum-typedef", "union-su", "decimal64", "identityref"})
                    /\ t.kt \in {"string", "uint32", "enum-typedef", "union-su", "union-eu", "identityref"} }

Togs == IF Quick THEN QuickTogs ELSE Toggles

\* behaviours that make sense for the shape: compression is for the OpenConfig shape
BehsFor(t) == IF t.oc THEN Behaviours ELSE {"Uncompressed", "UncompressedExcludeDerivedState"}

Init == tog \in Togs /\ beh = "-" /\ chosen = FALSE
Next == ~chosen /\ chosen' = TRUE /\ beh' \in BehsFor(tog) /\ UNCHANGED tog
Spec == Init /\ [][Next]_vars

S == Schema(tog)
FS == Fields(S, beh)

\* nodes the documented compression rules remove from the data model of the generated code
Elided(n, b) ==
  \/ (ExcludesState(b) /\ ~n.cfg)
  \/ (Compressing(b) /\ IsCS(n))
  \/ (Compressing(b) /\ n.k = "container" /\ Cardinality(Kids(S, n)) = 1 /\ \A y \in Kids(S, n) : y.k = "list")

\* a node is below an elided state subtree
UnderExcluded(n, b) == ExcludesState(b) /\ \E m \in S : ~m.cfg /\ Len(m.p) <= Len(n.p) /\ SubSeq(n.p, 1, Len(m.p)) = m.p

ExactlyOnce ==
  chosen =>
    \A n \in S :
      LET holders == {x \in FS : n.p \in AbsPaths(x)} IN
      IF Elided(n, beh) \/ UnderExcluded(n, beh) THEN holders = {}
      ELSE Cardinality(holders) = 1

PathsDistinct ==
  chosen => \A x, y \in FS : (x # y /\ x.s = y.s) => (x.f.paths \cup x.f.shadow) \cap (y.f.paths \cup y.f.shadow) = {}

StateExcluded ==
  (chosen /\ ExcludesState(beh)) => \A x \in FS : x.f.n.cfg

\* the type of a leafref is its target's (one hop in this schema family)
RECURSIVE Resolve(_, _)
Resolve(p, rel) ==      \* p: path of the directory holding the leaf; rel: "../a" or "../config/k"
  IF Len(rel) >= 3 /\ SubSeq(rel, 1, 3) = "../" THEN Resolve(SubSeq(p, 1, Len(p) - 1), SubSeq(rel, 4, Len(rel))) ELSE <<p, rel>>

----------------------------------------------------------------------------
(* Emission *)
PathStr(p) == IF p = << >> THEN "/" ELSE FoldLeft(LAMBDA acc, x : acc \o "/" \o x, "", p)
SetSeq(X) == SetToSeq(X)

NodeJson(n) == [p |-> PathStr(n.p), k |-> n.k, cfg |-> n.cfg, t |-> n.t, keys |-> n.keys, ob |-> n.ob, pres |-> n.pres, via |-> n.via]

FieldJson(x) == [struct |-> PathStr(x.s), node |-> PathStr(x.f.n.p), k |-> x.f.n.k, t |-> x.f.n.t, keys |-> x.f.n.keys, ob |-> x.f.n.ob,
                 paths |-> SetSeq({PathStr(r) : r \in x.f.paths}), shadow |-> SetSeq({PathStr(r) : r \in x.f.shadow})]

Emit ==
  chosen =>
    PrintT("GEN " \o ToJson([tog |-> tog, beh |-> beh, supported |-> Supported(tog),
                              nodes |-> SetSeq({NodeJson(n) : n \in S}),
                              structs |-> SetSeq({PathStr(e.p) : e \in Structs(S, beh)}),
                              fields |-> SetSeq({FieldJson(x) : x \in FS})]))

=============================================================================
