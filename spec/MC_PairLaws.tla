------------------------------ MODULE MC_PairLaws ------------------------------
EXTENDS PairLaws
\* small slices: the number of pairs is the square of the number of trees
EnabledP == { <<"c">>, <<"c","a">>, <<"l">>, <<"l","k">>, <<"l","v">> }
EnabledQ == { <<"c">>, <<"c","ll">>, <<"ol">>, <<"ol","k">>, <<"ol","v">> }
EnabledR == { <<"c">>, <<"c","a">>, <<"c","p">>, <<"c","p","x">>, <<"m">>, <<"m","k1">>, <<"m","k2">>, <<"m","v">> }
=============================================================================
