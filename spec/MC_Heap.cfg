INIT Init2
NEXT NextFaithful
CONSTANTS
  NodeSeq <- AllNodes
  Vals = {0, 1}
INVARIANT Disjoint
PROPERTY Independent
