------------------------------ MODULE OrderedMap ------------------------------
(***************************************************************************)
(* The ordered map ygot generates for an ordered-by-user list               *)
(* (gogen/ordered_list.go) and the helper methods it generates on the       *)
(* parent struct, as a state machine shaped like the code:                  *)
(*                                                                         *)
(*   alloc   the parent's field points to an ordered-map struct (the parent *)
(*           helpers AppendNew<L>/Append<L> allocate it on first use)       *)
(*   keys    the struct's `keys` slice (insertion order)                    *)
(*   vmap    the struct's `valueMap`: key -> entry                          *)
(*                                                                         *)
(* An entry is [kl |-> the key its key leaves hold, v |-> a payload         *)
(* distinguishing entries].  `ref` is the reference object the property     *)
(* speaks of: an insertion-ordered association list with unique keys.       *)
(* Every call is one action; `act` records the call and its return value    *)
(* (a label variable, excluded from the VIEW).                              *)
(***************************************************************************)
EXTENDS Naturals, Sequences, FiniteSets, TLC, SequencesExt, Json

CONSTANTS Keys,    \* abstract key tuples, e.g. {"K1","K2","K3"} or {"K1.K1","K1.K2","K2.K1"}
          Pays     \* payloads of appended entries, e.g. {"v1","v2"}

VARIABLES alloc, keys, vmap, ref, act
vars == <<alloc, keys, vmap, ref, act>>
state == <<alloc, keys, vmap>>

NilKey == "nil"         \* an entry whose key leaves are unset
NoPay  == "none"        \* the value leaf of an entry made by AppendNew is unset
Vias   == {"map", "parent"}   \* method on the ordered map / helper on the parent struct

Entry(k, v) == [kl |-> k, v |-> v]

Init ==
  /\ alloc = FALSE /\ keys = << >> /\ vmap = << >> /\ ref = << >>
  /\ act = [op |-> "init"]

Has(k) == k \in DOMAIN vmap

\* the parent helpers allocate the struct before delegating; the methods of a nil
\* ordered map fail (Append/AppendNew) or report absence (Delete/Get/Len/Keys/Values)
Alloc(via) == alloc \/ via = "parent"

Fail(via, a) ==
  /\ alloc' = Alloc(via) /\ UNCHANGED <<keys, vmap, ref>>
  /\ act' = a @@ [ret |-> "err"]

\* Append(v) with v's key leaves holding k (or unset), payload v
DoAppend(via, k, v) ==
  LET a == [op |-> "Append", via |-> via, k |-> k, v |-> v] IN
  IF (via = "map" /\ ~alloc) \/ k = NilKey \/ Has(k)
  THEN Fail(via, a)
  ELSE /\ alloc' = TRUE
       /\ keys' = Append(keys, k)
       /\ vmap' = (k :> Entry(k, v)) @@ vmap
       /\ ref' = Append(ref, <<k, v>>)
       /\ act' = a @@ [ret |-> "ok"]

\* Append(nil)
DoAppendNilEntry(via) ==
  Fail(via, [op |-> "AppendNilEntry", via |-> via])

DoAppendNew(via, k) ==
  LET a == [op |-> "AppendNew", via |-> via, k |-> k] IN
  IF (via = "map" /\ ~alloc) \/ Has(k)
  THEN Fail(via, a)
  ELSE /\ alloc' = TRUE
       /\ keys' = Append(keys, k)
       /\ vmap' = (k :> Entry(k, NoPay)) @@ vmap
       /\ ref' = Append(ref, <<k, NoPay>>)
       /\ act' = a @@ [ret |-> "ok"]

DoDelete(via, k) ==
  LET a == [op |-> "Delete", via |-> via, k |-> k] IN
  IF Has(k)
  THEN /\ keys' = SelectSeq(keys, LAMBDA x : x # k)
       /\ vmap' = [x \in (DOMAIN vmap) \ {k} |-> vmap[x]]
       /\ ref' = SelectSeq(ref, LAMBDA p : p[1] # k)
       /\ UNCHANGED alloc
       /\ act' = a @@ [ret |-> "true"]
  ELSE /\ UNCHANGED <<alloc, keys, vmap, ref>>
       /\ act' = a @@ [ret |-> "false"]

\* read-only calls; the harness also scribbles over the returned slices
DoGet(via, k) ==
  /\ UNCHANGED <<alloc, keys, vmap, ref>>
  /\ act' = [op |-> "Get", via |-> via, k |-> k, ret |-> IF Has(k) THEN vmap[k].v ELSE "nil"]

DoKeys ==
  /\ UNCHANGED <<alloc, keys, vmap, ref>>
  /\ act' = [op |-> "Keys", ret |-> keys]

DoValues ==
  /\ UNCHANGED <<alloc, keys, vmap, ref>>
  /\ act' = [op |-> "Values", ret |-> [i \in 1..Len(keys) |-> vmap[keys[i]].v]]

DoLen ==
  /\ UNCHANGED <<alloc, keys, vmap, ref>>
  /\ act' = [op |-> "Len", ret |-> Len(keys)]

Next ==
  \/ \E via \in Vias, k \in Keys \cup {NilKey}, v \in Pays : DoAppend(via, k, v)
  \/ \E via \in Vias : DoAppendNilEntry(via)
  \/ \E via \in Vias, k \in Keys : DoAppendNew(via, k)
  \/ \E via \in Vias, k \in Keys : DoDelete(via, k)
  \/ \E via \in Vias, k \in Keys : DoGet(via, k)
  \/ DoKeys \/ DoValues \/ DoLen

Spec == Init /\ [][Next]_vars

View == <<alloc, keys, vmap>>

----------------------------------------------------------------------------
(* The property (C15) *)

NoDup(s) == Cardinality(Range(s)) = Len(s)

TypeOK ==
  /\ alloc \in BOOLEAN
  /\ keys \in Seq(Keys)
  /\ DOMAIN vmap \subseteq Keys

\* structural invariants of the implementation state
Consistent ==
  /\ NoDup(keys)
  /\ DOMAIN vmap = Range(keys)
  /\ \A k \in DOMAIN vmap : vmap[k].kl = k        \* key leaves = map key
  /\ (~alloc => keys = << >>)

\* the implementation state is the reference insertion-ordered map
Refines == ref = [i \in 1..Len(keys) |-> <<keys[i], vmap[keys[i]].v>>]

RefUnique == NoDup([i \in 1..Len(ref) |-> ref[i][1]])

\* a rejected call changes nothing (apart from the allocation of the empty struct by the
\* parent helpers); read-only calls change nothing; returned values are the reference's
CallLaws ==
  [][ /\ (act'.op \in {"Append", "AppendNilEntry", "AppendNew"} /\ act'.ret = "err")
           => (keys' = keys /\ vmap' = vmap)
      /\ (act'.op \in {"Get", "Keys", "Values", "Len"}) => (keys' = keys /\ vmap' = vmap /\ alloc' = alloc)
      /\ (act'.op = "Append" /\ act'.ret = "ok") =>
            (ref' = Append(ref, <<act'.k, act'.v>>) /\ ~\E i \in 1..Len(ref) : ref[i][1] = act'.k)
      /\ (act'.op = "Append" /\ act'.ret = "err") =>
            (act'.k = NilKey \/ (\E i \in 1..Len(ref) : ref[i][1] = act'.k) \/ (act'.via = "map" /\ ~alloc))
      /\ (act'.op = "Delete") =>
            /\ act'.ret = (IF \E i \in 1..Len(ref) : ref[i][1] = act'.k THEN "true" ELSE "false")
            /\ ref' = SelectSeq(ref, LAMBDA p : p[1] # act'.k)
      /\ (act'.op = "Get") =>
            act'.ret = (IF \E i \in 1..Len(ref) : ref[i][1] = act'.k
                        THEN ref[CHOOSE i \in 1..Len(ref) : ref[i][1] = act'.k][2] ELSE "nil")
      /\ (act'.op = "Keys") => act'.ret = [i \in 1..Len(ref) |-> ref[i][1]]
      /\ (act'.op = "Values") => act'.ret = [i \in 1..Len(ref) |-> ref[i][2]]
      /\ (act'.op = "Len") => act'.ret = Len(ref) ]_vars

----------------------------------------------------------------------------
(* Emission of every transition for the Go replay. *)

StateJson(a, ks, vm) ==
  [alloc |-> a, keys |-> ks, ents |-> [i \in 1..Len(ks) |-> [k |-> ks[i], kl |-> vm[ks[i]].kl, v |-> vm[ks[i]].v]]]

Emit ==
  PrintT("EDGE " \o ToJson([pre |-> StateJson(alloc, keys, vmap), act |-> act',
                            post |-> StateJson(alloc', keys', vmap')]))

=============================================================================
