-------------------------------- MODULE Conc --------------------------------
(***************************************************************************)
(* Footprints of the public operations and their concurrent use (C11, C21). *)
(*                                                                         *)
(* Every operation has a declared write set over the kinds of object it is  *)
(* given: the tree ("tree" / the destination "dest"), the schema, option    *)
(* structs ("opts"), payload messages and decoded JSON ("payload"), and the *)
(* process-wide regular-expression cache ("recache", guarded by a           *)
(* read-write mutex).  C11 is the statement that the write sets are what    *)
(* the table says; the harness observes the real write sets with snapshots  *)
(* around every call (OPTABLE lines are the oracle).                        *)
(*                                                                         *)
(* Given the write sets, goroutines executing operations are modelled as    *)
(* sequences of accesses; an access is in flight between its begin and end  *)
(* step, so two accesses can overlap.  TLC explores every interleaving of   *)
(*   "readers"  read-only operations on one shared tree / schema / options, *)
(*   "writers"  Unmarshal / SetNode / UnmarshalSetRequest into distinct     *)
(*              trees sharing the schema and the input messages,            *)
(*   "cache"    compilePattern: RLock, look up, RUnlock; on a miss compile, *)
(*              Lock, store, Unlock -- for each of the two pattern flavours *)
(*              (RE2 and POSIX), which have a cache and a mutex each        *)
(* and checks NoRace (no two overlapping accesses to one location, one of   *)
(* them a write, unless both hold the mutex appropriately) and, for the     *)
(* cache, that every call returns the compiled pattern whatever the         *)
(* schedule.  The cache schedules are emitted for gated replay.             *)
(***************************************************************************)
EXTENDS Naturals, Sequences, FiniteSets, TLC, Json

CONSTANTS Procs, Scenario

ReadOnlyOps == {"GetNode", "Validate", "EmitJSON", "ConstructIETFJSON", "Marshal7951", "TogNMINotifications",
                "EncodeTypedValue", "Diff", "DiffWithAtomic", "DeepCopy", "MergeStructs",
                "DiffSetRequest", "DiffSetRequestToNotifications", "ComparePaths", "PathToString"}
TreeWriters == {"SetNode", "DeleteNode", "UnmarshalSetRequest", "UnmarshalNotifications"}
AllOps == ReadOnlyOps \cup TreeWriters \cup {"Unmarshal"}

WriteSet(op) ==
  CASE op \in ReadOnlyOps -> {}
    [] op \in TreeWriters -> {"tree"}
    [] op = "Unmarshal"   -> {"dest"}

ReadSet(op) ==
  CASE op \in ReadOnlyOps -> {"tree", "schema", "opts", "payload"}
    [] op \in TreeWriters -> {"tree", "schema", "opts", "payload"}
    [] op = "Unmarshal"   -> {"dest", "schema", "opts", "payload"}

\* the location an operation of process p touches for an abstract object: trees written to are
\* per process in the "writers" scenario, everything else is shared
Loc(p, obj) == IF Scenario = "writers" /\ obj \in {"tree", "dest"} THEN <<obj, p>> ELSE <<obj, "shared">>

OpsOf(p) == IF Scenario = "readers" THEN {"GetNode", "Validate", "Marshal7951", "Diff"}
            ELSE IF Scenario = "writers" THEN {"Unmarshal", "SetNode", "UnmarshalSetRequest"}
            ELSE {"compilePattern:re2", "compilePattern:posix"}

Flavours == {"re2", "posix"}
IsCP(o) == o \in {"compilePattern:re2", "compilePattern:posix"}
FlavourOf(o) == IF o = "compilePattern:posix" THEN "posix" ELSE "re2"
CacheObj(f) == "recache:" \o f
IsCacheObj(x) == x \in {CacheObj(f) : f \in Flavours}
FlavourOfObj(x) == IF x = CacheObj("posix") THEN "posix" ELSE "re2"

\* the accesses of one operation, in program order: <<kind, object>>
Accesses(op) ==
  IF IsCP(op)
  THEN LET c == CacheObj(FlavourOf(op)) IN
       <<<<"rlock", c>>, <<"r", c>>, <<"runlock", c>>,          \* look up under the flavour's read lock
         <<"compile", "local">>,                                 \* on a miss: compile, no lock held
         <<"lock", c>>, <<"w", c>>, <<"unlock", c>>>>            \* store under the flavour's write lock
  ELSE LET rs == ReadSet(op) \ WriteSet(op)
           R == CHOOSE s \in [1..Cardinality(rs) -> rs] : \A i, j \in 1..Cardinality(rs) : i # j => s[i] # s[j]
           ws == WriteSet(op)
           W == IF ws = {} THEN << >> ELSE <<CHOOSE x \in ws : TRUE>>
       IN [i \in 1..Len(R) |-> <<"r", R[i]>>] \o [i \in 1..Len(W) |-> <<"w", W[i]>>]

VARIABLES op,       \* op[p]: the operation process p runs ("-" before it chose)
          pc,       \* pc[p]: index of the next access
          inflight, \* set of <<p, kind, loc>>: accesses that have begun and not ended
          rwlock,   \* per flavour: [readers : SUBSET Procs, writer : Procs \cup {"none"}]
          cache,    \* per flavour, the regexp cache: "empty" or "compiled"
          hit,      \* hit[p]: whether p's lookup found the pattern
          result,   \* result[p]: what compilePattern returned
          sched     \* history of cache steps, for emission (not in the VIEW)
vars == <<op, pc, inflight, rwlock, cache, hit, result, sched>>

Init ==
  /\ op = [p \in Procs |-> "-"] /\ pc = [p \in Procs |-> 1]
  /\ inflight = {} /\ rwlock = [f \in Flavours |-> [readers |-> {}, writer |-> "none"]]
  /\ cache = [f \in Flavours |-> "empty"] /\ hit = [p \in Procs |-> FALSE] /\ result = [p \in Procs |-> "-"]
  /\ sched = << >>

Choose(p) ==
  /\ op[p] = "-"
  /\ \E o \in OpsOf(p) : op' = [op EXCEPT ![p] = o]
  /\ UNCHANGED <<pc, inflight, rwlock, cache, hit, result, sched>>

Cur(p) == Accesses(op[p])[pc[p]]
Done(p) == op[p] # "-" /\ pc[p] > Len(Accesses(op[p]))

\* a plain read / write: begin (enter the in-flight set), then end
Begin(p) ==
  /\ op[p] # "-" /\ ~Done(p) /\ Cur(p)[1] \in {"r", "w"}
  /\ ~\E a \in inflight : a[1] = p
  /\ (IsCacheObj(Cur(p)[2]) /\ Cur(p)[1] = "w" => rwlock[FlavourOfObj(Cur(p)[2])].writer = p)   \* the store holds the write lock of ITS cache
  /\ (IsCacheObj(Cur(p)[2]) /\ Cur(p)[1] = "r" => p \in rwlock[FlavourOfObj(Cur(p)[2])].readers)  \* the lookup holds the read lock of ITS cache
  /\ inflight' = inflight \cup {<<p, Cur(p)[1], Loc(p, Cur(p)[2])>>}
  /\ UNCHANGED <<op, pc, rwlock, cache, hit, result, sched>>

End(p) ==
  /\ \E a \in inflight : a[1] = p
  /\ inflight' = {a \in inflight : a[1] # p}
  /\ pc' = [pc EXCEPT ![p] = @ + 1]
  /\ IF IsCacheObj(Cur(p)[2]) /\ Cur(p)[1] = "r"
     THEN hit' = [hit EXCEPT ![p] = (cache[FlavourOfObj(Cur(p)[2])] = "compiled")] /\ UNCHANGED cache
     ELSE IF IsCacheObj(Cur(p)[2]) /\ Cur(p)[1] = "w"
          THEN cache' = [cache EXCEPT ![FlavourOfObj(Cur(p)[2])] = "compiled"] /\ UNCHANGED hit
          ELSE UNCHANGED <<cache, hit>>
  /\ sched' = IF IsCacheObj(Cur(p)[2]) THEN Append(sched, <<p, Cur(p)[1], FlavourOf(op[p])>>) ELSE sched
  /\ UNCHANGED <<op, rwlock, result>>

\* lock steps and the compile step are atomic
LockStep(p) ==
  /\ op[p] # "-" /\ ~Done(p) /\ ~\E a \in inflight : a[1] = p
  /\ LET k == Cur(p)[1]
         f == FlavourOf(op[p]) IN
     /\ k \in {"rlock", "runlock", "lock", "unlock", "compile"}
     /\ CASE k = "rlock"   -> rwlock[f].writer = "none" /\ rwlock' = [rwlock EXCEPT ![f].readers = @ \cup {p}]
          [] k = "runlock" -> rwlock' = [rwlock EXCEPT ![f].readers = @ \ {p}]
          [] k = "lock"    -> rwlock[f].writer = "none" /\ rwlock[f].readers = {} /\ rwlock' = [rwlock EXCEPT ![f].writer = p]
          [] k = "unlock"  -> rwlock' = [rwlock EXCEPT ![f].writer = "none"]
          [] k = "compile" -> UNCHANGED rwlock
     \* a hit returns right after the lookup: skip compile and store
     /\ pc' = [pc EXCEPT ![p] = IF k = "runlock" /\ hit[p] THEN Len(Accesses(op[p])) + 1 ELSE @ + 1]
     /\ result' = [result EXCEPT ![p] = IF (k = "runlock" /\ hit[p]) \/ k = "unlock" THEN "compiled" ELSE @]
     /\ sched' = IF k = "compile" THEN sched ELSE Append(sched, <<p, k, f>>)
  /\ UNCHANGED <<op, inflight, cache, hit>>

Next == \E p \in Procs : Choose(p) \/ Begin(p) \/ End(p) \/ LockStep(p)

Spec == Init /\ [][Next]_vars

View == <<op, pc, inflight, rwlock, cache, hit, result>>

----------------------------------------------------------------------------
\* two overlapping accesses to one location, at least one of them a write
Race == \E a, b \in inflight : a[1] # b[1] /\ a[3] = b[3] /\ "w" \in {a[2], b[2]}

NoRace == ~Race

\* the mutex discipline: a writer excludes everyone
LockOK == \A f \in Flavours : rwlock[f].writer # "none" => rwlock[f].readers = {}

\* schedule independence of the cache: whoever finishes got the compiled pattern
CacheResults == \A p \in Procs : Done(p) /\ IsCP(op[p]) => result[p] = "compiled"

\* the two flavours never share a map: a pattern compiled for one flavour is not served to the other
CachesSeparate == \A p \in Procs : (IsCP(op[p]) /\ hit[p]) => cache[FlavourOf(op[p])] = "compiled"

AllDone == \A p \in Procs : Done(p)

\* emission: the footprint table once, and every complete cache schedule
EmitTable ==
  (op = [p \in Procs |-> "-"]) =>
     PrintT("OPTABLE " \o ToJson([o \in AllOps |-> [w |-> WriteSet(o)]]))

EmitSched == (Scenario = "cache" /\ AllDone) => PrintT("SCHED " \o ToJson(sched))

Emit == EmitTable /\ EmitSched

=============================================================================
