INIT Init2
NEXT NextDeviant
CONSTANTS
  NodeSeq <- FewNodes
  Vals = {0, 1}
INVARIANT SharingIsVisible
