------------------------------ MODULE HeapModel ------------------------------
(***************************************************************************)
(* C04: why disjoint mutable cells are the right thing to check.            *)
(*                                                                         *)
(* A GoStruct tree is a set of mutable cells (struct values behind          *)
(* pointers, map headers, slice backing arrays, pointer leaves, union       *)
(* wrappers, ordered-map keys/valueMap).  The model keeps a heap            *)
(* cell -> content and two trees, each a function node -> cell.             *)
(* DeepCopy allocates a fresh cell for every node; the deviation            *)
(* ShareAt(n) (what a shallow copy of node n would do, e.g. appending the   *)
(* source pointer of an unkeyed list element) reuses the source cell.       *)
(* TLC shows: mutation of one tree is invisible in the other exactly when   *)
(* the cell sets are disjoint -- so the harness checks disjointness of the  *)
(* reachable mutable addresses (abs.SharedCells) and, independently,        *)
(* performs every mutation (abs.Scramble) and re-projects the other tree.   *)
(***************************************************************************)
EXTENDS Naturals, FiniteSets, Sequences, TLC

CONSTANTS NodeSeq, \* the mutable nodes of the tree shape, as a sequence (fixes their numbering)
          Vals     \* cell contents

Nodes == {NodeSeq[i] : i \in DOMAIN NodeSeq}

VARIABLES heap,    \* cell id -> content
          orig,    \* node -> cell id
          copy,    \* node -> cell id, or the empty function before the copy is made
          shared   \* history: the nodes copied shallowly (for the deviation)
vars == <<heap, orig, copy, shared>>

Cells(t) == {t[n] : n \in DOMAIN t}
View(t)  == [n \in DOMAIN t |-> heap[t[n]]]

\* the position of a node in NodeSeq is the cell of the original
NodeNo == [n \in Nodes |-> CHOOSE i \in DOMAIN NodeSeq : NodeSeq[i] = n]

Init2 == /\ orig = NodeNo
         /\ heap \in {h \in [1..(2 * Cardinality(Nodes)) -> Vals] : \A i \in DOMAIN h : i > Cardinality(Nodes) => h[i] = CHOOSE v \in Vals : TRUE}
         /\ copy = << >> /\ shared = {}

\* DeepCopy / MergeStructs: a fresh cell for every node, same content
DeepCopy(S) ==
  /\ copy = << >>
  /\ copy' = [n \in Nodes |-> IF n \in S THEN orig[n] ELSE NodeNo[n] + Cardinality(Nodes)]
  /\ heap' = [i \in DOMAIN heap |-> IF i > Cardinality(Nodes) THEN heap[i - Cardinality(Nodes)] ELSE heap[i]]
  /\ shared' = S
  /\ UNCHANGED orig

Mutate(t, n, v) ==
  /\ copy # << >>
  /\ heap' = [heap EXCEPT ![t[n]] = v]
  /\ UNCHANGED <<orig, copy, shared>>

NextFaithful == DeepCopy({}) \/ \E n \in Nodes, v \in Vals : Mutate(copy, n, v) \/ Mutate(orig, n, v)
NextDeviant  == (\E S \in SUBSET Nodes : DeepCopy(S)) \/ \E n \in Nodes, v \in Vals : Mutate(copy, n, v) \/ Mutate(orig, n, v)

Spec        == Init2 /\ [][NextFaithful]_vars
SpecDeviant == Init2 /\ [][NextDeviant]_vars

Disjoint == copy # << >> => Cells(orig) \cap Cells(copy) = {}

\* a mutation through one tree never changes the other tree's view
Independent ==
  [][ \A n \in Nodes, v \in Vals :
        /\ (Mutate(copy, n, v) => View(orig)' = View(orig))
        /\ (Mutate(orig, n, v) => View(copy)' = View(copy)) ]_vars

\* the equivalence that justifies the address walk: with sharing, some mutation is visible
SharingIsVisible ==
  (copy # << >> /\ shared # {}) =>
     \E n \in shared, v \in Vals : heap[orig[n]] # v /\ [heap EXCEPT ![copy[n]] = v][orig[n]] # heap[orig[n]]

=============================================================================
