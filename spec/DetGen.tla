------------------------------- MODULE DetGen -------------------------------
(***************************************************************************)
(* Determinism of the generators (C25).  A generator run is a function of   *)
(* its configuration (schema files, include paths, flags, which artefact):  *)
(* the first run of a configuration fixes its output, every later run --    *)
(* in another process, with another GOMAXPROCS, with Go's randomised map    *)
(* iteration -- must reproduce it byte for byte.                            *)
(*                                                                         *)
(*   out[c]   the output (a digest of all files written) recorded for       *)
(*            configuration c, "none" before its first run                  *)
(*   Run(c, h) a run of configuration c that wrote h: enabled only if c     *)
(*            has not run yet or wrote h before (write-once register)       *)
(*                                                                         *)
(* The abstract specification (Spec) is checked by TLC for WriteOnce over a *)
(* small universe; the trace specification replays the recorded runs of the *)
(* real generators (trace.ndjson: {cfg, run, gomaxprocs, h}) and accepts    *)
(* the trace iff every line is a Run step.                                  *)
(***************************************************************************)
EXTENDS Naturals, Sequences, TLC, Json, FiniteSets

CONSTANTS Cfgs, Digests      \* the universe of the abstract model

VARIABLES out, l
vars == <<out, l>>

None == "none"

Run(c, h) == /\ out[c] \in {None, h}
             /\ out' = [out EXCEPT ![c] = h]

Init == out = [c \in Cfgs |-> None] /\ l = 1
Next == \E c \in Cfgs, h \in Digests : Run(c, h) /\ UNCHANGED l
Spec == Init /\ [][Next]_vars

\* what determinism means: an output, once observed, never changes
WriteOnce == [][\A c \in Cfgs : out[c] # None => out'[c] = out[c]]_vars

----------------------------------------------------------------------------
(* Trace validation *)
Recs == ndJsonDeserialize("trace.ndjson")
TCfgs == {Recs[i].cfg : i \in 1..Len(Recs)}

TraceInit == out = [c \in TCfgs |-> None] /\ l = 1
TraceNext == /\ l <= Len(Recs)
             /\ Run(Recs[l].cfg, Recs[l].h)
             /\ l' = l + 1
TraceSpec == TraceInit /\ [][TraceNext]_vars
TraceWriteOnce == [][\A c \in TCfgs : out[c] # None => out'[c] = out[c]]_vars
TraceAccepted == TLCGet("stats").diameter - 1 = Len(Recs)

=============================================================================
