------------------------------ MODULE TreeMachine ------------------------------
(***************************************************************************)
(* The path-addressed editing API of ytypes as a state machine over the     *)
(* abstract tree: one action per public call.                               *)
(*   SetNode(schema, root, p, v, InitMissingElements)  -> DoSet / DoSetLL   *)
(*   DeleteNode(schema, root, p)                       -> DoDelete          *)
(*   GetNode(schema, root, p)                          -> read-only; the    *)
(*       harness calls it after every step (it must stutter)                *)
(*   GetOrCreateNode(schema, root, p)                  -> DoGOC (extension  *)
(*       beyond the listed properties; enabled with WithGOC)                *)
(* `act` is a label variable (excluded from the VIEW): the call just made.  *)
(***************************************************************************)
EXTENDS DataTree, Json

VARIABLES tree, act
vars == <<tree, act>>

NoDupSeqs(S, n) == {s \in UNION {[1..k -> S] : k \in 0..n} : Cardinality(Range(s)) = Len(s)}

LLVals == NoDupSeqs(Vals, 2) \ {<< >>}

\* values SetNode may write to leaf p: a key leaf can only be given the key its entry
\* is addressed by (writing another value is outside the property: unspecified)
SetVals(p) ==
  IF IsKeyLeaf(p)
  THEN LET e == Front(p)
           lsp == SchemaOf(Front(e))
           kn == KeyLeafNames[lsp]
       IN {KeyPart(lsp, Last(e), CHOOSE i \in 1..Len(kn) : kn[i] = Last(p))}
  ELSE Vals

Init == tree = EmptyTree /\ act = [op |-> "init"]

DoSet(p, v) ==
  /\ tree' = SetLeaf(tree, p, v)
  /\ act' = [op |-> "set", p |-> p, v |-> v]

DoSetLL(p, vs) ==
  /\ tree' = SetLeafList(tree, p, vs)
  /\ act' = [op |-> "setll", p |-> p, v |-> vs]

\* DeleteNode(p) for every kind of path, present or absent.  A key-less list path addresses
\* all entries of the list (gNMI: the whole list).
DoDelete(p) ==
  /\ tree' = DeleteAt(tree, p)
  /\ act' = [op |-> "delete", p |-> p,
             kind |-> IF p \in ListDP THEN "list"
                      ELSE IF p \in EntryDP THEN "entry"
                      ELSE SK[SchemaOf(p)]]

DelTargets == LeafDP \cup LeafListDP \cup ContDP \cup EntryDP \cup ListDP

\* GetOrCreateNode(p): everything on the way to p exists afterwards (containers allocated, list
\* entries created with their key leaves); a container or entry p itself exists; a leaf or
\* leaf-list p is not given a value by the model (the implementation allocates a pointer-typed
\* leaf with its Go zero value, which the replay tolerates for the target leaf only).  Nothing
\* else changes.
WithGOC == FALSE         \* overridden by the configuration of the extension run
GOC(t, p) == IF p \in LeafDP \cup LeafListDP THEN CreateAlong(t, p) ELSE CreateAlong(t, Append(p, "#"))
GOCTargets == ContDP \cup EntryDP \cup LeafDP \cup LeafListDP
DoGOC(p) ==
  /\ WithGOC
  /\ tree' = GOC(tree, p)
  /\ act' = [op |-> "goc", p |-> p,
             kind |-> IF p \in EntryDP THEN "entry" ELSE SK[SchemaOf(p)]]

\* Entries lacking a key leaf (reachable by deleting a key leaf).  The implementation finds such
\* an entry by its map key (retrieveNodeList falls back to the key of the Go map when the key
\* leaf is unpopulated), so DeleteNode is specified there: a sequence "delete the key leaf, then
\* delete the entry / another leaf of it" is a sequence of deletions as the property quantifies.
\* What SetNode / GetOrCreateNode do with such an entry is unspecified (schema-invalid tree).
UnsetEntries ==
  {lk \in UNION {{<<l, k>> : k \in Entries(tree, l)} : l \in ListDP} :
     \E i \in 1..Len(KeyLeafNames[SchemaOf(lk[1])]) :
        (lk[1] \o <<lk[2], KeyLeafNames[SchemaOf(lk[1])][i]>>) \notin DOMAIN tree.lv}
AllKeyLeavesSet == UnsetEntries = {}

Next ==
  \/ AllKeyLeavesSet /\ \E p \in LeafDP : \E v \in SetVals(p) : DoSet(p, v)
  \/ AllKeyLeavesSet /\ \E p \in LeafListDP : \E vs \in LLVals : DoSetLL(p, vs)
  \/ \E p \in DelTargets : DoDelete(p)
  \/ AllKeyLeavesSet /\ \E p \in GOCTargets : DoGOC(p)

Spec == Init /\ [][Next]_vars

View == tree

\* State constraint: trees in which some list entry lacks a key leaf (reachable by deleting
\* a key leaf) are schema-invalid transitory states; transitions into them are explored and
\* checked, transitions out of them are not (what the API does there is unspecified).
\* Expand: the exhaustive runs go on from trees with at most one such entry (by deletions only).
Expand == Cardinality(UnsetEntries) <= 1

KeyLeavesSet ==
  \A l \in ListDP : \A k \in Entries(tree, l) :
     \A i \in 1..Len(KeyLeafNames[SchemaOf(l)]) :
        (l \o <<k, KeyLeafNames[SchemaOf(l)][i]>>) \in DOMAIN tree.lv

----------------------------------------------------------------------------
TypeOK == WellFormed(tree)

\* C10
SetGetFrame ==
  [][ /\ (act'.op = "set" =>
            /\ GetLeaf(tree', act'.p) = {act'.v}
            /\ FrameSet(tree, tree', act'.p))
      /\ (act'.op = "setll" =>
            /\ GetLeaf(tree', act'.p) = {act'.v}
            /\ FrameSet(tree, tree', act'.p)) ]_vars

\* C12
DeleteExact ==
  [][ (act'.op = "delete") =>
        /\ RemovedExactly(tree, tree', act'.p)
        /\ DeleteAt(tree', act'.p) = tree'                       \* deleting twice = once
        /\ (~DataAtOrBelow(tree, act'.p) =>
              LeafSet(tree') = LeafSet(tree)) ]_vars             \* absent data: only pruning

\* extension: GetOrCreateNode creates only what lies on the way, keeps every value, is idempotent
GOCLaws ==
  [][ (act'.op = "goc") =>
        /\ LeafSet(tree) \subseteq LeafSet(tree')
        /\ \A x \in LeafSet(tree') \ LeafSet(tree) : IsKeyLeaf(x[1])
        /\ GOC(tree', act'.p) = tree'
        /\ (act'.p \in ContDP \cup EntryDP => Exists(tree', act'.p))
        /\ WellFormed(tree') ]_vars

\* emission of every transition for the Go replay
Emit ==
  PrintT("EDGE " \o ToJson([pre |-> TreeJson(tree), act |-> act', post |-> TreeJson(tree')]))

=============================================================================
