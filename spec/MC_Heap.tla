------------------------------- MODULE MC_Heap -------------------------------
EXTENDS HeapModel
AllNodes == <<"cont", "entry", "map", "leafptr", "leaflist", "binary", "union", "omkeys">>
FewNodes == <<"cont", "entry", "leaflist", "omkeys">>
=============================================================================
