------------------------------- MODULE PathStr -------------------------------
(***************************************************************************)
(* gNMI path strings (ygot/pathstrings.go, util/path.go).                   *)
(*                                                                         *)
(* A path is a sequence of elements [n |-> name, ks |-> <<key names>>,      *)
(* vs |-> <<key values>>]; a key value is a non-empty sequence of           *)
(* characters of Sigma, which contains every character with a role in the   *)
(* string form ("/", "[", "]", "=", "\"), a space, a dot (for ".." and      *)
(* "."), plain letters and "U", which stands for a non-ASCII letter (the    *)
(* harness substitutes a multi-byte rune; TLC's output is ASCII).           *)
(*                                                                         *)
(* RefEnc / RefDec are the reference encoder and decoder of the documented  *)
(* grammar (gnmi-path-strings: elements separated by "/", keys as           *)
(* [name=value] in key-name order, "]" and "\" escaped by "\" inside        *)
(* values).  Every path of the bounded universe is an initial state; TLC    *)
(* checks that the grammar itself round-trips (so the law the property      *)
(* states is satisfiable and the oracle is not over-strict) and is          *)
(* injective on each case pair sharing a string; the Go harness runs the    *)
(* real PathToString / StringToStructuredPath / legacy functions on every   *)
(* case.                                                                    *)
(***************************************************************************)
EXTENDS Naturals, Sequences, FiniteSets, TLC, SequencesExt, Json

CONSTANTS Sigma,      \* alphabet of key values (one-character strings)
          Names,      \* element names
          KeyNames,   \* key names, e.g. <<"k", "k2">> (a sequence: sorted order)
          MaxLen1,    \* maximal value length in single-key single-element paths
          MaxLen2     \* maximal value length in the combination cases

VARIABLE path
vars == <<path>>

SeqsUpTo(S, n) == UNION {[1..k -> S] : k \in 1..n}

\* an element with the first j key names and values vs
Elem(n, vs) == [n |-> n, ks |-> SubSeq(KeyNames, 1, Len(vs)), vs |-> vs]

ElemsWith(V, maxKeys) ==
  {Elem(n, << >>) : n \in Names} \cup
  UNION {{Elem(n, vs) : n \in Names, vs \in [1..j -> V]} : j \in 1..maxKeys}

\* family 1: one element, one key, every value up to MaxLen1
\* family 2: two elements, up to two keys each, values up to MaxLen2
\* family 3: a keyed element with every value up to MaxLen1 followed by a key-less element
Cases ==
  {<<e>> : e \in ElemsWith(SeqsUpTo(Sigma, MaxLen1), 1)} \cup
  {<<e, Elem(n, << >>)>> : e \in ElemsWith(SeqsUpTo(Sigma, MaxLen1), 1), n \in Names} \cup
  {<<e1, e2>> : e1 \in ElemsWith(SeqsUpTo(Sigma, MaxLen2), Len(KeyNames)),
                e2 \in ElemsWith(SeqsUpTo(Sigma, MaxLen2), 1)}

Init == path \in Cases
Next == UNCHANGED path
Spec == Init /\ [][Next]_vars

----------------------------------------------------------------------------
(* Reference encoder: a sequence of characters *)

Esc(v) == FlattenSeq([i \in 1..Len(v) |-> IF v[i] \in {"]", "\\"} THEN <<"\\", v[i]>> ELSE <<v[i]>>])

Chars(s) == [i \in 1..Len(s) |-> SubSeq(s, i, i)]   \* a TLA+ string as a sequence of characters

EncKey(k, v) == <<"[">> \o Chars(k) \o <<"=">> \o Esc(v) \o <<"]">>

EncElem(e) == Chars(e.n) \o FlattenSeq([i \in 1..Len(e.ks) |-> EncKey(e.ks[i], e.vs[i])])

RefEnc(p) == FlattenSeq([i \in 1..Len(p) |-> <<"/">> \o EncElem(p[i])])

----------------------------------------------------------------------------
(* Reference decoder: a left fold over the characters with an explicit      *)
(* parser state (mode, escape flag, current name / key / value, result).    *)

DInit == [mode |-> "start", esc |-> FALSE, n |-> << >>, k |-> << >>, v |-> << >>,
          ks |-> << >>, vs |-> << >>, out |-> << >>, bad |-> FALSE]

Flush(st) == [st EXCEPT !.out = Append(st.out, [n |-> st.n, ks |-> st.ks, vs |-> st.vs]),
                        !.n = << >>, !.ks = << >>, !.vs = << >>, !.mode = "name"]

DStep(st, c) ==
  IF st.bad THEN st
  ELSE CASE st.mode = "start" ->
              IF c = "/" THEN [st EXCEPT !.mode = "name"] ELSE [st EXCEPT !.bad = TRUE]
         [] st.mode = "name" ->
              IF c = "/" THEN (IF st.n = << >> THEN [st EXCEPT !.bad = TRUE] ELSE Flush(st))
              ELSE IF c = "[" THEN (IF st.n = << >> THEN [st EXCEPT !.bad = TRUE] ELSE [st EXCEPT !.mode = "key", !.k = << >>])
              ELSE IF c \in {"]", "=", "\\"} THEN [st EXCEPT !.bad = TRUE]
              ELSE [st EXCEPT !.n = Append(st.n, c)]
         [] st.mode = "key" ->
              IF c = "=" THEN (IF st.k = << >> THEN [st EXCEPT !.bad = TRUE] ELSE [st EXCEPT !.mode = "val", !.v = << >>])
              ELSE IF c \in {"[", "]", "/", "\\"} THEN [st EXCEPT !.bad = TRUE]
              ELSE [st EXCEPT !.k = Append(st.k, c)]
         [] st.mode = "val" ->
              IF st.esc THEN [st EXCEPT !.v = Append(st.v, c), !.esc = FALSE]
              ELSE IF c = "\\" THEN [st EXCEPT !.esc = TRUE]
              ELSE IF c = "]" THEN (IF st.v = << >> THEN [st EXCEPT !.bad = TRUE]
                                    ELSE [st EXCEPT !.mode = "after", !.ks = Append(st.ks, st.k), !.vs = Append(st.vs, st.v)])
              ELSE [st EXCEPT !.v = Append(st.v, c)]
         [] st.mode = "after" ->
              IF c = "[" THEN [st EXCEPT !.mode = "key", !.k = << >>]
              ELSE IF c = "/" THEN Flush(st)
              ELSE [st EXCEPT !.bad = TRUE]

RECURSIVE DFold(_, _, _)
DFold(st, s, i) == IF i > Len(s) THEN st ELSE DFold(DStep(st, s[i]), s, i + 1)

Str(cs) == IF cs = << >> THEN "" ELSE FoldLeft(LAMBDA a, b : a \o b, "", cs)

\* the decoded path, or "bad"
RefDec(s) ==
  LET st == DFold(DInit, s, 1) IN
  IF st.bad \/ st.mode \notin {"name", "after"} \/ st.n = << >> THEN "bad"
  ELSE LET f == Flush(st) IN
       [i \in 1..Len(f.out) |-> [n |-> Str(f.out[i].n), ks |-> [j \in 1..Len(f.out[i].ks) |-> Str(f.out[i].ks[j])], vs |-> f.out[i].vs]]

\* C08 at the level of the grammar: the documented encoding round-trips
RefRoundTrip == RefDec(RefEnc(path)) = path

\* ... and never produces an empty or "bad" string
RefWellFormed == RefEnc(path) # << >> /\ RefEnc(path)[1] = "/"

Emit == PrintT("CASE " \o ToJson([p |-> [i \in 1..Len(path) |-> [n |-> path[i].n, ks |-> path[i].ks,
                                             vs |-> [j \in 1..Len(path[i].vs) |-> Str(path[i].vs[j])]]],
                                  ref |-> Str(RefEnc(path))]))

=============================================================================
