SPECIFICATION Spec
CONSTANTS
  Vals = {"v1", "v2"}
  KeyAtoms = {"K1", "K2"}
  MKeyAtoms = {}
  Enabled <- EnabledA
VIEW View
CONSTRAINT Expand
INVARIANT TypeOK
PROPERTY SetGetFrame
PROPERTY DeleteExact
