--------------------------- MODULE TraceKeyedList ---------------------------
(***************************************************************************)
(* Trace validation (code -> spec) for the generated keyed-list helpers;    *)
(* see TraceOrderedMap.                                                     *)
(***************************************************************************)
EXTENDS KeyedList, Sequences

Tr == ndJsonDeserialize("trace.ndjson")

VARIABLE l
tvars == <<vars, l>>

LoggedMap(ev) ==
  [k \in {ev.ents[i].k : i \in 1..Len(ev.ents)} |->
     LET e == ev.ents[CHOOSE i \in 1..Len(ev.ents) : ev.ents[i].k = k] IN [kl |-> e.kl, v |-> e.v]]

\* two logged entries with one key (a duplicate) cannot be a map: reject
Logged(ev) ==
  /\ Cardinality({ev.ents[i].k : i \in 1..Len(ev.ents)}) = Len(ev.ents)
  /\ alloc' = ev.alloc /\ m' = LoggedMap(ev)

Reset == alloc' = FALSE /\ m' = << >> /\ ref' = << >> /\ act' = [op |-> "init"]

Step(ev) ==
  CASE ev.op = "reset"          -> Reset
    [] ev.op = "New"            -> DoNew(ev.k) /\ act'.ret = ev.ret
    [] ev.op = "GetOrCreate"    -> DoGetOrCreate(ev.k) /\ act'.ret = ev.ret
    [] ev.op = "GetOrCreateMap" -> DoGetOrCreateMap /\ act'.ret = ev.ret
    [] ev.op = "Get"            -> DoGet(ev.k) /\ act'.ret = ev.ret
    [] ev.op = "Delete"         -> DoDelete(ev.k)
    [] ev.op = "Append"         -> DoAppend(ev.k, ev.v) /\ act'.ret = ev.ret
    [] ev.op = "Rename"         -> DoRename(ev.k, ev.n) /\ act'.ret = ev.ret
    [] OTHER                    -> FALSE

TraceInit == Init /\ l = 1

TraceNext ==
  /\ l <= Len(Tr)
  /\ l' = l + 1
  /\ Step(Tr[l])
  /\ Logged(Tr[l])
  /\ Consistent' /\ Refines'

TraceSpec == TraceInit /\ [][TraceNext]_tvars

TraceAccepted == TLCGet("stats").diameter - 1 = Len(Tr)

=============================================================================
