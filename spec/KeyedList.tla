------------------------------ MODULE KeyedList ------------------------------
(***************************************************************************)
(* The helper methods ygot generates on a parent struct for a keyed         *)
(* (unordered) list field (gogen/unordered_list.go): New<L>, GetOrCreate<L>,*)
(* GetOrCreate<L>Map, Get<L>, Append<L>, Delete<L>, Rename<L>.              *)
(*                                                                         *)
(*   alloc   the Go map field is non-nil                                    *)
(*   m       key -> entry, entry = [kl |-> key held by the entry's key      *)
(*           leaves, v |-> payload distinguishing entries]                  *)
(*   ref     the reference object of the property: a map from key tuples to *)
(*           payloads                                                       *)
(* One action per call; `act` is the label (call, arguments, return value). *)
(***************************************************************************)
EXTENDS Naturals, Sequences, FiniteSets, TLC, Json

CONSTANTS Keys, Pays

VARIABLES alloc, m, ref, act
vars == <<alloc, m, ref, act>>

NilKey == "nil"
NoPay  == "none"
Entry(k, v) == [kl |-> k, v |-> v]
Has(k) == k \in DOMAIN m
Without(f, k) == [x \in (DOMAIN f) \ {k} |-> f[x]]

Init == alloc = FALSE /\ m = << >> /\ ref = << >> /\ act = [op |-> "init"]

\* New allocates the map before looking for a duplicate
DoNew(k) ==
  LET a == [op |-> "New", k |-> k] IN
  /\ alloc' = TRUE
  /\ IF Has(k)
     THEN UNCHANGED <<m, ref>> /\ act' = a @@ [ret |-> "err"]
     ELSE /\ m' = (k :> Entry(k, NoPay)) @@ m
          /\ ref' = (k :> NoPay) @@ ref
          /\ act' = a @@ [ret |-> "ok"]

\* GetOrCreate returns the existing entry, or calls New
DoGetOrCreate(k) ==
  LET a == [op |-> "GetOrCreate", k |-> k] IN
  IF Has(k)
  THEN UNCHANGED <<alloc, m, ref>> /\ act' = a @@ [ret |-> m[k].v]
  ELSE /\ alloc' = TRUE
       /\ m' = (k :> Entry(k, NoPay)) @@ m
       /\ ref' = (k :> NoPay) @@ ref
       /\ act' = a @@ [ret |-> NoPay]

DoGetOrCreateMap ==
  /\ alloc' = TRUE /\ UNCHANGED <<m, ref>>
  /\ act' = [op |-> "GetOrCreateMap", ret |-> "ok"]

DoGet(k) ==
  /\ UNCHANGED <<alloc, m, ref>>
  /\ act' = [op |-> "Get", k |-> k, ret |-> IF Has(k) THEN m[k].v ELSE "nil"]

DoDelete(k) ==
  /\ UNCHANGED alloc
  /\ m' = Without(m, k) /\ ref' = Without(ref, k)
  /\ act' = [op |-> "Delete", k |-> k, ret |-> "ok"]

\* Append(v): the key is read from v's key leaves; a nil key leaf is rejected before the
\* map is allocated, a duplicate after
DoAppend(k, v) ==
  LET a == [op |-> "Append", k |-> k, v |-> v] IN
  IF k = NilKey
  THEN UNCHANGED <<alloc, m, ref>> /\ act' = a @@ [ret |-> "err"]
  ELSE /\ alloc' = TRUE
       /\ IF Has(k)
          THEN UNCHANGED <<m, ref>> /\ act' = a @@ [ret |-> "err"]
          ELSE /\ m' = (k :> Entry(k, v)) @@ m
               /\ ref' = (k :> v) @@ ref
               /\ act' = a @@ [ret |-> "ok"]

\* Rename(old, new): fails when new exists (also when old = new) or old is missing;
\* otherwise the entry moves and its key leaves are rewritten
DoRename(o, n) ==
  LET a == [op |-> "Rename", k |-> o, n |-> n] IN
  IF Has(n) \/ ~Has(o)
  THEN UNCHANGED <<alloc, m, ref>> /\ act' = a @@ [ret |-> "err"]
  ELSE /\ UNCHANGED alloc
       /\ m' = (n :> Entry(n, m[o].v)) @@ Without(m, o)
       /\ ref' = (n :> ref[o]) @@ Without(ref, o)
       /\ act' = a @@ [ret |-> "ok"]

Next ==
  \/ \E k \in Keys : DoNew(k) \/ DoGetOrCreate(k) \/ DoGet(k) \/ DoDelete(k)
  \/ DoGetOrCreateMap
  \/ \E k \in Keys \cup {NilKey}, v \in Pays : DoAppend(k, v)
  \/ \E o \in Keys, n \in Keys : DoRename(o, n)

Spec == Init /\ [][Next]_vars
View == <<alloc, m>>

----------------------------------------------------------------------------
(* The property (C34) *)

TypeOK == alloc \in BOOLEAN /\ DOMAIN m \subseteq Keys

Consistent ==
  /\ \A k \in DOMAIN m : m[k].kl = k                 \* key leaves equal the map key
  /\ (~alloc => m = << >>)

Refines == ref = [k \in DOMAIN m |-> m[k].v]

CallLaws ==
  [][ /\ (act'.op \in {"New", "Append"}) =>
            /\ (act'.ret = "err") <=> (act'.k = NilKey \/ act'.k \in DOMAIN ref)   \* duplicates (and nil keys) rejected
            /\ (act'.ret = "err") => (m' = m)                                      \* ... without changing the map
            /\ (act'.ret = "ok") => ref' = (act'.k :> (IF act'.op = "New" THEN NoPay ELSE act'.v)) @@ ref
      /\ (act'.op = "GetOrCreate") =>
            /\ (act'.k \in DOMAIN ref) => (m' = m /\ act'.ret = ref[act'.k])        \* idempotent
            /\ act'.k \in DOMAIN ref' /\ \A x \in DOMAIN ref : x \in DOMAIN ref' /\ ref'[x] = ref[x]
      /\ (act'.op = "Get") =>
            /\ m' = m /\ alloc' = alloc                                            \* Get never creates
            /\ act'.ret = (IF act'.k \in DOMAIN ref THEN ref[act'.k] ELSE "nil")
      /\ (act'.op = "Delete") => ref' = Without(ref, act'.k)
      /\ (act'.op = "Rename") =>
            /\ (act'.ret = "ok") <=> (act'.k \in DOMAIN ref /\ act'.n \notin DOMAIN ref)
            /\ (act'.ret = "ok") => (ref' = (act'.n :> ref[act'.k]) @@ Without(ref, act'.k) /\ m'[act'.n].kl = act'.n)
            /\ (act'.ret = "err") => m' = m ]_vars

StateJson(a, mm) ==
  [alloc |-> a, ents |-> [k \in DOMAIN mm |-> mm[k]]]

EntSeq(mm) ==
  LET RECURSIVE S(_)
      S(D) == IF D = {} THEN << >> ELSE LET k == CHOOSE k \in D : TRUE IN <<[k |-> k, kl |-> mm[k].kl, v |-> mm[k].v]>> \o S(D \ {k})
  IN S(DOMAIN mm)

Emit ==
  PrintT("EDGE " \o ToJson([pre |-> [alloc |-> alloc, ents |-> EntSeq(m)], act |-> act',
                            post |-> [alloc |-> alloc', ents |-> EntSeq(m')]]))

=============================================================================
