------------------------------- MODULE DataTree -------------------------------
(***************************************************************************)
(* The abstract state ygot manipulates: a schema-shaped data tree as finite *)
(* maps from data paths to values, with explicit list entries (a GoStruct   *)
(* can hold an entry whose key leaves are unset), explicit entry order for  *)
(* ordered-by-user lists and explicit container presence.                   *)
(*                                                                         *)
(* The schema is "shape T" of the verification corpus (schemas/vf-tree.yang,*)
(* and, compressed, schemas/vf-oc.yang): every corpus variant tN/oN has the *)
(* same node names and kinds and differs only in the YANG types, so one     *)
(* abstract tree stands for one concrete tree per variant.  Enabled selects *)
(* the slice of the shape a model instance explores.                        *)
(*                                                                         *)
(* A data path is a sequence of strings: node names, and after a list name  *)
(* a key atom ("k1", "k2", ...; "K1.K2" for the two-key list m).            *)
(***************************************************************************)
EXTENDS Naturals, Sequences, FiniteSets, TLC, SequencesExt, FiniteSetsExt, Functions

CONSTANTS Vals,       \* abstract leaf values, e.g. {"v1", "v2"}
          KeyAtoms,   \* abstract single keys, e.g. {"k1", "k2"}
          MKeyAtoms,  \* abstract two-part keys of list m, subset of DOMAIN MKeyParts
          Enabled     \* set of schema paths (sequences of names) in the slice

----------------------------------------------------------------------------
(* Schema: shape T *)

SK == ( <<"c">>            :> "cont"
     @@ <<"c","a">>        :> "leaf"
     @@ <<"c","b">>        :> "leaf"
     @@ <<"c","ll">>       :> "leaflist"
     @@ <<"c","p">>        :> "pcont"
     @@ <<"c","p","x">>    :> "leaf"
     @@ <<"l">>            :> "list"
     @@ <<"l","k">>        :> "leaf"
     @@ <<"l","v">>        :> "leaf"
     @@ <<"l","sub">>      :> "cont"
     @@ <<"l","sub","w">>  :> "leaf"
     @@ <<"ol">>           :> "olist"
     @@ <<"ol","k">>       :> "leaf"
     @@ <<"ol","v">>       :> "leaf"
     @@ <<"ol","sub">>     :> "cont"
     @@ <<"ol","sub","w">> :> "leaf"
     @@ <<"m">>            :> "list"
     @@ <<"m","k1">>       :> "leaf"
     @@ <<"m","k2">>       :> "leaf"
     @@ <<"m","v">>        :> "leaf"
     @@ <<"c","s">>        :> "leaf"      \* derived state (config false, no config counterpart; OC shape only)
     @@ <<"st">>           :> "cont"      \* config false container (plain shape only)
     @@ <<"st","s">>       :> "leaf" )

\* nodes that are config false without being the mirror of a configuration leaf
DerivedState == {<<"c","s">>, <<"st">>, <<"st","s">>}

KeyLeafNames == ( <<"l">> :> <<"k">> @@ <<"ol">> :> <<"k">> @@ <<"m">> :> <<"k1","k2">> )

MKeyParts == ( "K1.K1" :> <<"K1","K1">> @@ "K1.K2" :> <<"K1","K2">>
            @@ "K2.K1" :> <<"K2","K1">> @@ "K2.K2" :> <<"K2","K2">> )

KeySteps == KeyAtoms \cup MKeyAtoms

IsListKind(k) == k \in {"list", "olist"}
IsContKind(k) == k \in {"cont", "pcont"}

KeysOf(lsp) == IF lsp = <<"m">> THEN MKeyAtoms ELSE KeyAtoms

\* the i-th key leaf value of key atom a of list lsp
KeyPart(lsp, a, i) == IF lsp = <<"m">> THEN MKeyParts[a][i] ELSE a

Nodes == Enabled \cap DOMAIN SK

\* data paths of the node with schema path sp (for a list: the list itself, no key)
RECURSIVE Inst(_)
Inst(sp) ==
  IF Len(sp) = 1 THEN {sp}
  ELSE LET par == Front(sp)
           pp  == IF IsListKind(SK[par])
                  THEN {q \o <<k>> : q \in Inst(par), k \in KeysOf(par)}
                  ELSE Inst(par)
       IN {q \o <<Last(sp)>> : q \in pp}

LeafDP     == UNION {Inst(sp) : sp \in {n \in Nodes : SK[n] = "leaf"}}
LeafListDP == UNION {Inst(sp) : sp \in {n \in Nodes : SK[n] = "leaflist"}}
ContDP     == UNION {Inst(sp) : sp \in {n \in Nodes : IsContKind(SK[n])}}
UListDP    == UNION {Inst(sp) : sp \in {n \in Nodes : SK[n] = "list"}}
OListDP    == UNION {Inst(sp) : sp \in {n \in Nodes : SK[n] = "olist"}}
ListDP     == UListDP \cup OListDP

SchemaOf(dp) == SelectSeq(dp, LAMBDA s : s \notin KeySteps)

EntryDP == {l \o <<k>> : l \in ListDP, k \in KeySteps} \cap
           UNION {{l \o <<k>> : k \in KeysOf(SchemaOf(l))} : l \in ListDP}

IsKeyLeaf(dp) ==
  /\ Len(dp) >= 3
  /\ dp[Len(dp) - 1] \in KeySteps
  /\ \E i \in 1..Len(KeyLeafNames[SchemaOf(Front(Front(dp)))]) :
        KeyLeafNames[SchemaOf(Front(Front(dp)))][i] = Last(dp)

----------------------------------------------------------------------------
(* Trees *)

EmptyTree == [ lv |-> << >>,                       \* LeafDP     -|-> value
               ll |-> << >>,                       \* LeafListDP -|-> Seq(Vals)
               en |-> [l \in UListDP |-> {}],      \* entries of unordered lists
               oe |-> [l \in OListDP |-> << >>],   \* entries of ordered lists, in order
               ct |-> {} ]                         \* non-nil containers

Entries(t, l) == IF l \in OListDP THEN Range(t.oe[l]) ELSE t.en[l]

HasEntry(t, e) == Last(e) \in Entries(t, Front(e))

\* the node parent of a data path (the entry for things inside a list entry, the
\* container holding the list for an entry)
NodeParent(q) ==
  LET f == Front(q) IN
    IF Last(q) \in KeySteps THEN Front(f) ELSE f

Exists(t, q) ==
  \/ q = << >>
  \/ q \in t.ct
  \/ q \in DOMAIN t.lv
  \/ q \in DOMAIN t.ll
  \/ (q \in EntryDP /\ HasEntry(t, q))

\* a tree a GoStruct can hold: everything hangs off an existing parent
WellFormed(t) ==
  /\ \A q \in (DOMAIN t.lv) \cup (DOMAIN t.ll) \cup t.ct : Exists(t, NodeParent(q))
  /\ \A l \in ListDP : \A k \in Entries(t, l) : Exists(t, Front(l))
  /\ \A l \in OListDP : Len(t.oe[l]) = Cardinality(Range(t.oe[l]))

Below(p, q)         == IsPrefix(p, q)
StrictlyBelow(p, q) == IsPrefix(p, q) /\ p # q

\* all data items (leaves, leaf-lists, containers, entries) strictly below q
HasContent(t, q) ==
  \/ \E x \in DOMAIN t.lv : StrictlyBelow(q, x)
  \/ \E x \in DOMAIN t.ll : StrictlyBelow(q, x)
  \/ \E x \in t.ct : StrictlyBelow(q, x)
  \/ \E l \in ListDP : Below(q, l) /\ Entries(t, l) # {}

\* the property-level view of a tree: its leaves, leaf-lists and list entries
LeafSet(t) == {<<p, t.lv[p]>> : p \in DOMAIN t.lv} \cup {<<p, t.ll[p]>> : p \in DOMAIN t.ll}

----------------------------------------------------------------------------
(* Operational SetNode on a leaf / leaf-list path with InitMissingElements: *)
(* descend, creating containers and list entries (with the key leaves taken *)
(* from the path) on the way, then store the value.                         *)

Anc(p) == {SubSeq(p, 1, i) : i \in 1..(Len(p) - 1)}
EntryAnc(p) == {q \in Anc(p) : Last(q) \in KeySteps}
ContAnc(p)  == {q \in Anc(p) : Last(q) \notin KeySteps /\ IsContKind(SK[SchemaOf(q)])}

NewEntries(t, p) == {q \in EntryAnc(p) : ~HasEntry(t, q)}

KeyLeafWrites(q) ==
  LET lsp == SchemaOf(Front(q))
      kn  == KeyLeafNames[lsp]
  IN [x \in {q \o <<kn[i]>> : i \in 1..Len(kn)} |->
        KeyPart(lsp, Last(q), CHOOSE i \in 1..Len(kn) : x = q \o <<kn[i]>>)]

RECURSIVE MergeFns(_)
MergeFns(S) == IF S = {} THEN << >>
               ELSE LET f == CHOOSE f \in S : TRUE IN f @@ MergeFns(S \ {f})

CreateAlong(t, p) ==
  LET new == NewEntries(t, p) IN
  [ lv |-> MergeFns({KeyLeafWrites(q) : q \in new}) @@ t.lv,
    ll |-> t.ll,
    en |-> [l \in DOMAIN t.en |-> t.en[l] \cup {Last(q) : q \in {e \in new : Front(e) = l}}],
    oe |-> [l \in DOMAIN t.oe |->
              IF \E e \in new : Front(e) = l
              THEN Append(t.oe[l], Last(CHOOSE e \in new : Front(e) = l))
              ELSE t.oe[l]],
    ct |-> t.ct \cup ContAnc(p) ]

SetLeaf(t, p, v) ==
  LET u == CreateAlong(t, p) IN [u EXCEPT !.lv = (p :> v) @@ u.lv]

SetLeafList(t, p, vs) ==
  LET u == CreateAlong(t, p) IN [u EXCEPT !.ll = (p :> vs) @@ u.ll]

----------------------------------------------------------------------------
(* Operational DeleteNode: remove the addressed node with everything below  *)
(* it, then, walking back up, remove every container / list entry on the    *)
(* way that exists and has become (or already was) empty.                   *)

RemoveSubtree(t, p) ==
  [ lv |-> Restrict(t.lv, {x \in DOMAIN t.lv : ~Below(p, x)}),
    ll |-> Restrict(t.ll, {x \in DOMAIN t.ll : ~Below(p, x)}),
    en |-> [l \in DOMAIN t.en |->
              IF Below(p, l) THEN {}
              ELSE IF p \in EntryDP /\ Front(p) = l THEN t.en[l] \ {Last(p)}
              ELSE t.en[l]],
    oe |-> [l \in DOMAIN t.oe |->
              IF Below(p, l) THEN << >>
              ELSE IF p \in EntryDP /\ Front(p) = l
                   THEN SelectSeq(t.oe[l], LAMBDA k : k # Last(p))
              ELSE t.oe[l]],
    ct |-> {x \in t.ct : ~Below(p, x)} ]

\* only containers and entries are subject to pruning
Prunable(q) == q \in ContDP \/ q \in EntryDP

RECURSIVE PruneUp(_, _)
PruneUp(t, q) ==
  IF q = << >> THEN t
  ELSE IF Prunable(q) /\ Exists(t, q) /\ ~HasContent(t, q)
       THEN PruneUp(RemoveSubtree(t, q), NodeParent(q))
       ELSE PruneUp(t, NodeParent(q))

DeleteAt(t, p) == IF p = << >> THEN RemoveSubtree(t, p)
                  ELSE PruneUp(RemoveSubtree(t, p), NodeParent(p))

----------------------------------------------------------------------------
(* GetNode on a fully keyed path: the set of values found (0 or 1).         *)

GetLeaf(t, p) == IF p \in DOMAIN t.lv THEN {t.lv[p]}
                 ELSE IF p \in DOMAIN t.ll THEN {t.ll[p]} ELSE {}

\* is there any data at or below p
DataAtOrBelow(t, p) ==
  \/ \E x \in DOMAIN t.lv : Below(p, x)
  \/ \E x \in DOMAIN t.ll : Below(p, x)
  \/ \E x \in t.ct : Below(p, x)
  \/ \E l \in ListDP : Entries(t, l) # {} /\ (Below(p, l) \/ (\E k \in Entries(t, l) : Below(p, l \o <<k>>)))

----------------------------------------------------------------------------
(* Declarative frame conditions (properties C10 and C12).                   *)

\* C10: after a successful SetNode on p, every other leaf keeps its value, apart from
\* the key leaves of list entries created along p, which take the keys named in p.
FrameSet(t, u, p) ==
  LET created == UNION {DOMAIN KeyLeafWrites(q) : q \in NewEntries(t, p)} IN
  /\ \A x \in (DOMAIN t.lv) \ {p} : x \in DOMAIN u.lv /\ u.lv[x] = t.lv[x]
  /\ \A x \in (DOMAIN u.lv) \ ((DOMAIN t.lv) \cup {p}) :
        /\ x \in created
        /\ u.lv[x] = KeyLeafWrites(CHOOSE q \in NewEntries(t, p) : x \in DOMAIN KeyLeafWrites(q))[x]
  /\ \A x \in (DOMAIN t.ll) \ {p} : x \in DOMAIN u.ll /\ u.ll[x] = t.ll[x]
  /\ \A x \in (DOMAIN u.ll) \ {p} : x \in DOMAIN t.ll

\* C12: nothing at or below p remains, every leaf outside p keeps its value, and
\* containers and entries on the way to p that became empty are gone.
RemovedExactly(t, u, p) ==
  /\ ~DataAtOrBelow(u, p)
  /\ \A x \in DOMAIN t.lv : ~Below(p, x) => (x \in DOMAIN u.lv /\ u.lv[x] = t.lv[x])
  /\ \A x \in DOMAIN t.ll : ~Below(p, x) => (x \in DOMAIN u.ll /\ u.ll[x] = t.ll[x])
  /\ DOMAIN u.lv \subseteq DOMAIN t.lv
  /\ DOMAIN u.ll \subseteq DOMAIN t.ll
  /\ \A q \in Anc(p) : (Prunable(q) /\ Exists(u, q)) => HasContent(u, q)

----------------------------------------------------------------------------
(* JSON rendering of a tree for emission to the Go harness.                 *)

TreeJson(t) ==
  [ lv |-> SetToSeq({<<p, t.lv[p]>> : p \in DOMAIN t.lv}),
    ll |-> SetToSeq({<<p, t.ll[p]>> : p \in DOMAIN t.ll}),
    en |-> SetToSeq({<<l, SetToSeq(t.en[l])>> : l \in {x \in DOMAIN t.en : t.en[x] # {}}}),
    oe |-> SetToSeq({<<l, t.oe[l]>> : l \in {x \in DOMAIN t.oe : t.oe[x] # << >>}}),
    ct |-> SetToSeq(t.ct) ]

=============================================================================
