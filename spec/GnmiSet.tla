-------------------------------- MODULE GnmiSet --------------------------------
(***************************************************************************)
(* gNMI Set semantics over the abstract tree (ytypes.UnmarshalSetRequest,   *)
(* ytypes.UnmarshalNotifications) and JSON merge (Unmarshal into a          *)
(* populated tree).                                                         *)
(*                                                                         *)
(* Operational: the request is executed the way the code does it -- join    *)
(* the prefix, then every delete (DeleteNode), every replace (DeleteNode    *)
(* then SetNode) and every update (SetNode), in message order -- one        *)
(* sub-step per operation, driven by a program counter.                     *)
(* Declarative: RefApply on the path->value map of the tree (the gNMI       *)
(* specification's reading).  The invariant AtDone states that the two      *)
(* agree whenever a request has been executed completely.                   *)
(*                                                                         *)
(* A JSON payload is an abstract document: a partial assignment of the      *)
(* leaves / leaf-lists below the target; DocTree makes it a tree (list      *)
(* entries named in it carry their key leaves, as RFC 7951 requires).       *)
(***************************************************************************)
EXTENDS DataTree, Json

CONSTANTS MaxOps,      \* maximal number of operations in one request
          MaxDocLeaves \* maximal number of leaves assigned by one JSON document

VARIABLES tree,   \* the data tree (schema.Root)
          req,    \* the request being executed: [del, rep, upd] sequences of operations
          pc,     \* <<phase, index>> of the next sub-step, or "idle"
          tree0,  \* the tree when the request started (history, for the invariant)
          act     \* label of the last completed request (not in the VIEW)
vars == <<tree, req, pc, tree0, act>>

NoDupSeqs(S, n) == {s \in UNION {[1..k -> S] : k \in 0..n} : Cardinality(Range(s)) = Len(s)}
LLVals == NoDupSeqs(Vals, 2) \ {<< >>}

----------------------------------------------------------------------------
(* Documents *)

LeavesBelow(p)     == {x \in LeafDP : StrictlyBelow(p, x) /\ ~IsKeyLeaf(x)}
KeyLeavesBelow(p)  == {x \in LeafDP : StrictlyBelow(p, x) /\ IsKeyLeaf(x)}
LeafListsBelow(p)  == {x \in LeafListDP : StrictlyBelow(p, x)}

\* a document below target p: a function from at most MaxDocLeaves leaves / leaf-lists /
\* key leaves (a key leaf alone = an entry with nothing but its keys) to values
DocDomains(p) == {D \in SUBSET (LeavesBelow(p) \cup LeafListsBelow(p) \cup KeyLeavesBelow(p)) :
                      Cardinality(D) <= MaxDocLeaves}

KeyLeafValue(x) ==
  LET e == Front(x)
      lsp == SchemaOf(Front(e))
      kn == KeyLeafNames[lsp]
  IN KeyPart(lsp, Last(e), CHOOSE i \in 1..Len(kn) : kn[i] = Last(x))

\* document values are sequences (TLC cannot compare strings with sequences inside one
\* function set): a leaf value v is <<v>>, a leaf-list value is the list itself
\* (a JSON document may also carry the empty array for a leaf-list: it replaces the leaf-list
\* by nothing; a gNMI leaflist_val must not be empty, so direct leaf-list payloads stay non-empty)
DocValues(x) == IF x \in LeafListDP THEN LLVals \cup {<< >>}
                ELSE IF IsKeyLeaf(x) THEN {<<KeyLeafValue(x)>>} ELSE {<<v>> : v \in Vals}

Docs(p) == UNION {[D -> UNION {DocValues(x) : x \in D}] : D \in DocDomains(p)} 

GoodDoc(d) == \A x \in DOMAIN d : d[x] \in DocValues(x)

\* the tree a document denotes: assign each leaf on the empty tree (creating ancestors,
\* entries and their key leaves)
RECURSIVE DocTreeFrom(_, _, _)
DocTreeFrom(t, d, S) ==
  IF S = {} THEN t
  ELSE LET x == CHOOSE x \in S : TRUE
           u == IF x \in LeafListDP THEN SetLeafList(t, x, d[x]) ELSE SetLeaf(t, x, d[x][1])
       IN DocTreeFrom(u, d, S \ {x})

DocTree(d) == DocTreeFrom(EmptyTree, d, DOMAIN d)

\* Unmarshal of document tree dt into t: mentioned leaves overwritten, mentioned leaf-lists
\* replaced, list entries merged by key (new entries of ordered lists appended in document
\* order), containers created
MergeDoc(t, dt) ==
  [ lv |-> dt.lv @@ t.lv,
    ll |-> dt.ll @@ t.ll,
    en |-> [l \in DOMAIN t.en |-> t.en[l] \cup dt.en[l]],
    oe |-> [l \in DOMAIN t.oe |-> t.oe[l] \o SelectSeq(dt.oe[l], LAMBDA k : k \notin Range(t.oe[l]))],
    ct |-> t.ct \cup dt.ct ]

\* the target of a JSON payload exists afterwards, even for the empty document
CreateTarget(t, p) ==
  IF p = << >> THEN t
  ELSE LET u == CreateAlong(t, p \o <<"*">>) IN
       IF p \in ContDP THEN [u EXCEPT !.ct = u.ct \cup {p}] ELSE u

\* ordered lists are always unmarshalled as a whole: merging a document that names an
\* existing entry of an ordered list is rejected (documented limitation) -> unspecified
\* (only lists below the target are unmarshalled; the target entry itself is reached by path)
OrderedOverlap(t, dt, p) ==
  \E l \in DOMAIN t.oe : Below(p, l) /\ Range(t.oe[l]) \cap Range(dt.oe[l]) # {}

----------------------------------------------------------------------------
(* Operations and requests *)

\* whether a leaf-list update may carry the empty value: not for the Set semantics (what an empty
\* leaflist_val does to the tree is unspecified), yes for the intent comparison of gnmidiff
\* (overridden by MC_GnmiDiff)
EmptyLLPayload == FALSE

JsonTargets == ContDP \cup EntryDP \cup {<< >>}

Payloads(p) ==
  IF p \in LeafDP THEN {[t |-> "leaf", v |-> v[1]] : v \in DocValues(p)}
  ELSE IF p \in LeafListDP THEN {[t |-> "ll", v |-> v] : v \in LLVals \cup (IF EmptyLLPayload THEN {<< >>} ELSE {})}
  ELSE {[t |-> "json", d |-> d] : d \in {d \in Docs(p) : GoodDoc(d)}}

WriteTargets == LeafDP \cup LeafListDP \cup JsonTargets
DelTargets   == LeafDP \cup LeafListDP \cup ContDP \cup EntryDP \cup ListDP

\* "adel" is the implicit delete of an atomic Notification: UnmarshalNotifications applies
\* Notification{atomic, prefix p, updates} as SetRequest{prefix p, delete [<empty path>],
\* update updates}, i.e. everything at the prefix is replaced by the updates.
AtomicPrefixes == ContDP \cup EntryDP \cup ListDP \cup {<< >>}

Ops == UNION {{[k |-> k, p |-> p, pay |-> pay] : k \in {"rep", "upd"}, pay \in Payloads(p)} : p \in WriteTargets}
       \cup {[k |-> "del", p |-> p, pay |-> [t |-> "none"]] : p \in DelTargets}
       \cup {[k |-> "adel", p |-> p, pay |-> [t |-> "none"]] : p \in AtomicPrefixes}

Rank(k) == CASE k = "adel" -> 0 [] k = "del" -> 1 [] k = "rep" -> 2 [] k = "upd" -> 3

\* a request: deletes, then replaces, then updates, each in message order; or an atomic
\* notification: its implicit delete followed by leaf / leaf-list updates below the prefix
WellShaped(r) ==
  /\ \A i \in 1..(Len(r) - 1) : Rank(r[i].k) <= Rank(r[i + 1].k)
  /\ \A i \in 2..Len(r) : r[i].k # "adel"
  /\ (Len(r) > 0 /\ r[1].k = "adel") =>
        /\ \A i \in 2..Len(r) : r[i].k = "upd" /\ r[i].pay.t \in {"leaf", "ll"} /\ Below(r[1].p, r[i].p)
        /\ (r[1].p \in ListDP => Len(r) = 1)     \* no path is relative to a key-less list element

Requests == {r \in UNION {[1..n -> Ops] : n \in 1..MaxOps} : WellShaped(r)}

ApplyDel(t, p) == DeleteAt(t, p)

ApplyUpd(t, p, pay) ==
  CASE pay.t = "leaf" -> SetLeaf(t, p, pay.v)
    [] pay.t = "ll"   -> SetLeafList(t, p, pay.v)
    [] pay.t = "json" -> MergeDoc(CreateTarget(t, p), DocTree(pay.d))

ApplyRep(t, p, pay) == ApplyUpd(ApplyDel(t, p), p, pay)

ApplyOp(t, o) == CASE o.k \in {"del", "adel"} -> ApplyDel(t, o.p)
                   [] o.k = "rep" -> ApplyRep(t, o.p, o.pay)
                   [] o.k = "upd" -> ApplyUpd(t, o.p, o.pay)

\* a sub-step outside the decisive set: merging into an ordered list an entry it already has
UnspecOp(t, o) ==
  /\ o.k \in {"rep", "upd"} /\ o.pay.t = "json"
  /\ OrderedOverlap(IF o.k = "rep" THEN ApplyDel(t, o.p) ELSE t, DocTree(o.pay.d), o.p)

----------------------------------------------------------------------------
(* Reference semantics on the path -> value map (gNMI specification 3.4):   *)
(* a tree is the set of its (leaf path, value) pairs; a path through a list *)
(* entry implies the entry's key leaves.                                    *)

Flat(t) == t.lv @@ t.ll

KeyLeavesFor(p) ==
  MergeFns({KeyLeafWrites(q) : q \in EntryAnc(p) \cup (IF p \in EntryDP THEN {p} ELSE {})})

FlatDoc(pay, p) ==
  CASE pay.t = "leaf" -> (p :> pay.v)
    [] pay.t = "ll"   -> (p :> pay.v)
    [] pay.t = "json" -> Flat(DocTree(pay.d))

RefDel(f, p)      == Restrict(f, {x \in DOMAIN f : ~Below(p, x)})
RefUpd(f, p, pay) == FlatDoc(pay, p) @@ KeyLeavesFor(p) @@ f
RefRep(f, p, pay) == RefUpd(RefDel(f, p), p, pay)

RECURSIVE RefApply(_, _)
RefApply(f, r) ==
  IF r = << >> THEN f
  ELSE LET o == Head(r)
           g == CASE o.k \in {"del", "adel"} -> RefDel(f, o.p)
                  [] o.k = "rep" -> RefRep(f, o.p, o.pay)
                  [] o.k = "upd" -> RefUpd(f, o.p, o.pay)
       IN RefApply(g, Tail(r))

----------------------------------------------------------------------------
(* The machine: Begin picks a request; Step executes one operation; the     *)
(* step that executes the last operation completes the request.             *)

NoReq == << >>

\* JSON-friendly form of a request for emission: documents as trees
ReqJson(r) == [i \in 1..Len(r) |->
   [k |-> r[i].k, p |-> r[i].p, t |-> r[i].pay.t,
    v |-> IF r[i].pay.t \in {"leaf", "ll"} THEN r[i].pay.v ELSE "",
    doc |-> TreeJson(IF r[i].pay.t = "json" THEN DocTree(r[i].pay.d) ELSE EmptyTree)]]

Init == /\ tree = EmptyTree /\ tree0 = EmptyTree
        /\ req = NoReq /\ pc = 0 /\ act = [op |-> "init"]

Begin(r) ==
  /\ pc = 0
  /\ req' = r /\ tree0' = tree /\ pc' = 1
  /\ UNCHANGED <<tree, act>>

Step ==
  /\ pc \in 1..Len(req)
  /\ ~UnspecOp(tree, req[pc])
  /\ tree' = ApplyOp(tree, req[pc])
  /\ IF pc = Len(req)
     THEN /\ pc' = 0 /\ req' = NoReq /\ tree0' = EmptyTree
          /\ act' = [op |-> "setreq", req |-> ReqJson(req), pre |-> TreeJson(tree0), post |-> TreeJson(tree')]
     ELSE /\ pc' = pc + 1 /\ UNCHANGED <<req, tree0, act>>

Next == (\E r \in Requests : Begin(r)) \/ Step

Spec == Init /\ [][Next]_vars

\* The same machine with the request assembled operation by operation: used with
\* `tlc -simulate` to draw long multi-operation requests and histories of requests (the set
\* Requests is too large to enumerate once MaxOps > 1).
\* (deleting a key leaf leaves a schema-invalid entry behind; what later operations of the same
\* request do with it is unspecified, as under CONSTRAINT KeyLeavesSet in the exhaustive runs)
AddOp(o) ==
  /\ pc = 0 /\ Len(req) < MaxOps
  /\ ~(o.k = "del" /\ o.p \in LeafDP /\ IsKeyLeaf(o.p))
  /\ WellShaped(Append(req, o))
  /\ req' = Append(req, o)
  /\ UNCHANGED <<tree, pc, tree0, act>>

Start ==
  /\ pc = 0 /\ req # NoReq
  /\ pc' = 1 /\ tree0' = tree
  /\ UNCHANGED <<tree, req, act>>

NextB == (\E o \in Ops : AddOp(o)) \/ Start \/ Step

SpecB == Init /\ [][NextB]_vars

View == <<tree, req, pc, tree0>>

\* as in TreeMachine: trees with an entry lacking a key leaf are not expanded
KeyLeavesSet ==
  \A l \in ListDP : \A k \in Entries(tree, l) :
     \A i \in 1..Len(KeyLeafNames[SchemaOf(l)]) :
        (l \o <<k, KeyLeafNames[SchemaOf(l)][i]>>) \in DOMAIN tree.lv

----------------------------------------------------------------------------
TypeOK == WellFormed(tree)

\* C13: when the last operation of a request has been executed, the leaves of the tree are
\* those of the reference semantics applied to the leaves of the tree the request started on
SetSemantics ==
  [][ (pc \in 1..Len(req) /\ pc = Len(req) /\ pc' = 0) =>
         Flat(tree') = RefApply(Flat(tree0), req) ]_vars

\* C31 (Unmarshal merges): a single JSON update leaves every value not mentioned unchanged
MergeFrame ==
  [][ (pc \in 1..Len(req) /\ req[pc].k = "upd" /\ req[pc].pay.t = "json") =>
         LET dt == DocTree(req[pc].pay.d) IN
         /\ \A x \in DOMAIN Flat(tree) : x \notin DOMAIN Flat(dt) =>
                (x \in DOMAIN Flat(tree') /\ Flat(tree')[x] = Flat(tree)[x])
         /\ \A x \in DOMAIN Flat(dt) : Flat(tree')[x] = Flat(dt)[x]
         /\ \A l \in ListDP : Entries(tree, l) \subseteq Entries(tree', l) ]_vars

Emit == (act' # act) => PrintT("REQ " \o ToJson(act'))

=============================================================================
