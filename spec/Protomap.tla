------------------------------- MODULE Protomap -------------------------------
(***************************************************************************)
(* protomap (C24): a ygen-generated protobuf message is, for the kinds      *)
(* protomap supports, a set of (data-tree path, value) pairs.  The model is *)
(* over the repository's annotated test protos                              *)
(* (protomap/testdata/exschemapath):                                        *)
(*   Root             system/hostname (string wrapper); list interface      *)
(*                    keyed by a string, with description and the nested    *)
(*                    list subinterface keyed by a uint64                   *)
(*   ExampleMessage   string / uint / bytes wrappers, an enum, leaf-lists   *)
(*                    of strings and uints, a leaf-list of a union (string, *)
(*                    uint64, enum), the list em keyed by a string with a   *)
(*                    nested list, and a compressed state leaf              *)
(* Flatten is PathsFromProto, Unflatten is ProtoFromPaths into a new        *)
(* message; the law is Unflatten(Flatten(m)) = m, and every flattened path, *)
(* stripped of its keys, is one of the field's annotated schema paths.      *)
(***************************************************************************)
EXTENDS Naturals, Sequences, FiniteSets, TLC, Json

CONSTANTS Family,    \* "root" | "example"
          Small      \* TRUE: one value per scalar field (the every-change tier)

Opt(S) == S \cup {"-"}          \* "-": the field is not populated

\* A flattened entry: the data path p, the field tag f, the list keys k on the way, the value v.
E(p, f, k, v) == [p |-> p, f |-> f, k |-> k, v |-> v]

\* --- Root ---------------------------------------------------------------
IfNames == {"eth0", "eth1"}
SubIdx  == {"0", "18446744073709551615"}

RootMsgs ==
  [ hostname : Opt({"host"}),
    ifs : SUBSET IfNames,
    ifdesc : [IfNames -> Opt({"uplink"})],
    subs : [IfNames -> SUBSET SubIdx],
    subdesc : Opt({"sub"}) ]       \* one description value shared by all subinterfaces present

NormRoot(x) ==                     \* fields of absent entries do not exist
  LET subs == [i \in IfNames |-> IF i \in x.ifs THEN x.subs[i] ELSE {}] IN
  [x EXCEPT !.ifdesc = [i \in IfNames |-> IF i \in x.ifs THEN x.ifdesc[i] ELSE "-"],
            !.subs = subs,
            !.subdesc = IF \A i \in IfNames : subs[i] = {} THEN "-" ELSE x.subdesc]

IfP(i) == "/interfaces/interface[name=" \o i \o "]"
SubP(i, s) == IfP(i) \o "/subinterfaces/subinterface[index=" \o s \o "]"

FlattenRoot(x) ==
  (IF x.hostname = "-" THEN {} ELSE {E("/system/config/hostname", "hostname", << >>, x.hostname)})
  \cup UNION {{E(IfP(i) \o "/config/name", "ifname", <<i>>, i), E(IfP(i) \o "/name", "ifname", <<i>>, i)} : i \in x.ifs}
  \cup {E(IfP(i) \o "/config/description", "ifdesc", <<i>>, x.ifdesc[i]) : i \in {j \in x.ifs : x.ifdesc[j] # "-"}}
  \cup UNION {UNION {{E(SubP(i, s) \o "/config/index", "subidx", <<i, s>>, s), E(SubP(i, s) \o "/index", "subidx", <<i, s>>, s)}
                     \cup (IF x.subdesc = "-" THEN {} ELSE {E(SubP(i, s) \o "/config/description", "subdesc", <<i, s>>, x.subdesc)})
                     : s \in x.subs[i]} : i \in x.ifs}

One(S, f, dflt) == IF \E e \in S : e.f = f THEN (CHOOSE e \in S : e.f = f).v ELSE dflt

UnflattenRoot(S) ==
  [ hostname |-> One(S, "hostname", "-"),
    ifs |-> {e.k[1] : e \in {e \in S : e.f = "ifname"}},
    ifdesc |-> [i \in IfNames |-> One({e \in S : e.k # << >> /\ e.k[1] = i}, "ifdesc", "-")],
    subs |-> [i \in IfNames |-> {e.k[2] : e \in {e \in S : e.f = "subidx" /\ e.k[1] = i}}],
    subdesc |-> One(S, "subdesc", "-") ]

\* --- ExampleMessage -----------------------------------------------------
\* Union values are tagged with the member that holds them: "s:" string, "u:" uint64, "e:" enum.
\* A flattened value is a YANG value and carries no member tag: an enum is its YANG name (a
\* string), so in the union ExampleUnion (string, uint64, enum) the messages {enum: VAL_TWO} and
\* {str: "VAL_TWO"} flatten alike.  No implementation can rebuild both; Unflatten takes the
\* first member that accepts the value, as YANG does.  A message is CANONICAL when its union
\* elements are what Unflatten would choose; the law is stated for canonical messages and TLC
\* checks that every other message collides with a canonical one (NonCanonicalCollides).
\* ExampleUnionUnambiguous (uint64, enum) has no such collision.
TagOf(x) == SubSeq(x, 1, 2)
Untag(x) == SubSeq(x, 3, Len(x))
\* the YANG value of a tagged union value: a pair <<base type, text>>
YVal(x) == <<IF TagOf(x) = "u:" THEN "uint" ELSE "string", Untag(x)>>
EnumNames == {"VAL_ONE", "VAL_TWO", "VAL_FORTYTWO"}
\* the member that receives a YANG value: Members is the sequence of member tags in field order
Receive(Members, yv) ==
  LET ok(t) == (t = "s:" /\ yv[1] = "string") \/ (t = "u:" /\ yv[1] = "uint") \/ (t = "e:" /\ yv[1] = "string" /\ yv[2] \in EnumNames)
      i == CHOOSE i \in 1..Len(Members) : ok(Members[i]) /\ \A j \in 1..(i - 1) : ~ok(Members[j])
  IN Members[i] \o yv[2]
MembersA == <<"s:", "u:", "e:">>     \* ExampleUnion
MembersB == <<"u:", "e:">>           \* ExampleUnionUnambiguous
CanonSeq(Members, q) == \A i \in 1..Len(q) : Receive(Members, YVal(q[i])) = q[i]

UnionValsA == {"s:a", "s:VAL_TWO", "u:7", "e:VAL_TWO"}
UnionValsB == {"u:7", "e:VAL_TWO"}
SeqsUpTo2(S) == {<< >>} \cup {<<x>> : x \in S} \cup {<<x, y>> : x \in S, y \in S}
EmKeys == {"k1", "k2"}

ExMsgs ==
  [ str : Opt({"hello"}), ui : Opt(IF Small THEN {"18446744073709551615"} ELSE {"42", "18446744073709551615"}), by : Opt({"00ff"}),
    en : Opt(IF Small THEN {"VAL_FORTYTWO"} ELSE {"VAL_ONE", "VAL_FORTYTWO"}),
    compress : Opt({"c"}),
    lls : IF Small THEN {<< >>, <<"x", "y">>} ELSE {<< >>, <<"x">>, <<"x", "y">>},
    llu : IF Small THEN {<< >>, <<"1", "18446744073709551615">>} ELSE {<< >>, <<"1">>, <<"1", "18446744073709551615">>},
    llb : {<< >>, <<"00ff", "">>},
    llun : {<< >>},          \* the two union leaf-lists are chosen by the step (LlunVals, LlunbVals)
    llunb : {<< >>},
    em : SUBSET EmKeys, emstr : Opt({"another"}), child : {{}, {"n1"}} ]
LlunVals == SeqsUpTo2(UnionValsA)
LlunbVals == IF Small THEN {<< >>, <<"e:VAL_TWO", "u:7">>} ELSE SeqsUpTo2(UnionValsB)

NormEx(x) == IF x.em = {} THEN [x EXCEPT !.emstr = "-", !.child = {}] ELSE x

Canonical(x) == Family = "root" \/ (CanonSeq(MembersA, x.llun) /\ CanonSeq(MembersB, x.llunb))

Scalars == {<<"str", "/string">>, <<"ui", "/uint">>, <<"by", "/bytes">>, <<"en", "/enum">>, <<"compress", "/state/compress">>}
Lists   == {<<"lls", "/leaflist-string">>, <<"llu", "/leaflist-uint">>, <<"llb", "/leaflist-bytes">>}
Unions  == {<<"llun", "/leaflist-union">>, <<"llunb", "/leaflist-union-b">>}
EmP(k) == "/list-name[single-key=" \o k \o "]"

FlattenEx(x) ==
  {E(fp[2], fp[1], << >>, x[fp[1]]) : fp \in {y \in Scalars : x[y[1]] # "-"}}
  \cup {E(fp[2], fp[1], << >>, x[fp[1]]) : fp \in {y \in Lists : x[y[1]] # << >>}}
  \cup {E(fp[2], fp[1], << >>, [i \in 1..Len(x[fp[1]]) |-> YVal(x[fp[1]][i])]) : fp \in {y \in Unions : x[y[1]] # << >>}}
  \cup UNION {{E(EmP(k) \o "/single-key", "emkey", <<k>>, k), E(EmP(k) \o "/config/single-key", "emkey", <<k>>, k)}
              \cup (IF x.emstr = "-" THEN {} ELSE {E(EmP(k) \o "/another-field", "emstr", <<k>>, x.emstr)})
              \cup {E(EmP(k) \o "/child-list[key-one=" \o n \o "]/key-one", "child", <<k, n>>, n) : n \in x.child}
              : k \in x.em}

UnflattenEx(S) ==
  [ str |-> One(S, "str", "-"), ui |-> One(S, "ui", "-"), by |-> One(S, "by", "-"), en |-> One(S, "en", "-"),
    compress |-> One(S, "compress", "-"),
    lls |-> One(S, "lls", << >>), llu |-> One(S, "llu", << >>), llb |-> One(S, "llb", << >>),
    llun |-> LET q == One(S, "llun", << >>) IN [i \in 1..Len(q) |-> Receive(MembersA, q[i])],
    llunb |-> LET q == One(S, "llunb", << >>) IN [i \in 1..Len(q) |-> Receive(MembersB, q[i])],
    em |-> {e.k[1] : e \in {e \in S : e.f = "emkey"}},
    emstr |-> One(S, "emstr", "-"),
    child |-> {e.k[2] : e \in {e \in S : e.f = "child"}} ]

\* the schema path of a data path: the keys removed
RECURSIVE StripKeys(_)
StripKeys(s) ==
  IF s = "" THEN ""
  ELSE LET i == CHOOSE i \in 1..(Len(s) + 1) : (i = Len(s) + 1 \/ SubSeq(s, i, i) = "[") /\ \A j \in 1..(i - 1) : SubSeq(s, j, j) # "["
       IN IF i = Len(s) + 1 THEN s
          ELSE LET c == CHOOSE c \in i..Len(s) : SubSeq(s, c, c) = "]" /\ \A j \in i..(c - 1) : SubSeq(s, j, j) # "]"
               IN SubSeq(s, 1, i - 1) \o StripKeys(SubSeq(s, c + 1, Len(s)))

Annotated ==
  {"/system/config/hostname", "/interfaces/interface/config/name", "/interfaces/interface/name", "/interfaces/interface/config/description",
   "/interfaces/interface/subinterfaces/subinterface/config/index", "/interfaces/interface/subinterfaces/subinterface/index",
   "/interfaces/interface/subinterfaces/subinterface/config/description",
   "/string", "/uint", "/bytes", "/enum", "/state/compress", "/leaflist-string", "/leaflist-uint", "/leaflist-bytes", "/leaflist-union", "/leaflist-union-b",
   "/list-name/single-key", "/list-name/config/single-key", "/list-name/another-field", "/list-name/child-list/key-one"}

\* One state per message.  For ExampleMessage the initial state fixes everything but the two
\* union leaf-lists and the single step chooses them (so that TLC's workers share the messages
\* and no set of millions of records is built); `chosen` marks a complete message.
VARIABLES m, chosen
vars == <<m, chosen>>
Init ==
  IF Family = "root"
  THEN m \in {NormRoot(x) : x \in RootMsgs} /\ chosen = TRUE
  ELSE /\ m \in ExMsgs
       /\ (m.em = {} => (m.emstr = "-" /\ m.child = {}))
       /\ chosen = FALSE
Next ==
  /\ ~chosen /\ chosen' = TRUE
  /\ \E a \in LlunVals, b \in LlunbVals :
        m' = [m EXCEPT !.llun = a, !.llunb = b]
Spec == Init /\ [][Next]_vars

Flat == IF Family = "root" THEN FlattenRoot(m) ELSE FlattenEx(m)

\* the flattening determines the message (what ProtoFromPaths rebuilds from PathsFromProto's
\* output is the message itself), and every path is annotated
RoundTrip == (chosen /\ Canonical(m)) => (IF Family = "root" THEN UnflattenRoot(Flat) = m ELSE UnflattenEx(Flat) = m)
\* a message that is not canonical flattens exactly like the canonical message Unflatten returns
NonCanonicalCollides ==
  (chosen /\ Family = "example" /\ ~Canonical(m)) => LET t == UnflattenEx(Flat) IN t # m /\ Canonical(t) /\ FlattenEx(t) = Flat
AnnotatedPaths == chosen => \A e \in Flat : StripKeys(e.p) \in Annotated

SeqOfSet(S) == LET RECURSIVE F(_)
                   F(T) == IF T = {} THEN << >> ELSE LET x == CHOOSE x \in T : TRUE IN <<x>> \o F(T \ {x})
               IN F(S)

Emit ==
  chosen =>
  IF Family = "root"
  THEN PrintT("PMROOT " \o ToJson([hostname |-> m.hostname, ifs |-> SeqOfSet(m.ifs), ifdesc |-> [i \in IfNames |-> m.ifdesc[i]],
                                    subs |-> [i \in IfNames |-> SeqOfSet(m.subs[i])], subdesc |-> m.subdesc,
                                    paths |-> SeqOfSet({e.p : e \in Flat})]))
  ELSE PrintT("PMEX " \o ToJson([str |-> m.str, ui |-> m.ui, by |-> m.by, en |-> m.en, compress |-> m.compress, lls |-> m.lls, llu |-> m.llu, llb |-> m.llb,
                                  llun |-> m.llun, llunb |-> m.llunb, canonical |-> Canonical(m), em |-> SeqOfSet(m.em), emstr |-> m.emstr, child |-> SeqOfSet(m.child),
                                  paths |-> SeqOfSet({e.p : e \in Flat})]))

=============================================================================
