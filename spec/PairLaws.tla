------------------------------- MODULE PairLaws -------------------------------
(***************************************************************************)
(* Binary operations on trees: ygot.Diff / DiffWithAtomic (C03) and         *)
(* ygot.MergeStructs (C05).  Every ordered pair <<a, b>> of well-formed     *)
(* trees of a small slice is an initial state; TLC checks the laws on the   *)
(* operational models and the Go harness replays each pair on the real code.*)
(***************************************************************************)
EXTENDS TreeLaws

VARIABLE other
pvars == <<tree, other>>

PInit == tree \in AllTrees /\ other \in AllTrees
PNext == UNCHANGED pvars
PSpec == PInit /\ [][PNext]_pvars

Flat(t) == t.lv @@ t.ll
\* empty leaf-lists hold no data
Data(t) == t.lv @@ Restrict(t.ll, {x \in DOMAIN t.ll : t.ll[x] # << >>})

----------------------------------------------------------------------------
(* C03: Diff.  Operational: compare the two leaf maps path by path.         *)

DiffDeletes(a, b) == (DOMAIN Data(a)) \ (DOMAIN Data(b))
DiffUpdates(a, b) == {x \in DOMAIN Data(b) : x \notin DOMAIN Data(a) \/ Data(a)[x] # Data(b)[x]}

\* apply as UnmarshalNotifications does: every delete, then every update
RECURSIVE DelAll(_, _)
DelAll(t, S) == IF S = {} THEN t ELSE LET x == CHOOSE x \in S : TRUE IN DelAll(DeleteAt(t, x), S \ {x})

RECURSIVE SetAll(_, _, _)
SetAll(t, b, S) ==
  IF S = {} THEN t
  ELSE LET x == CHOOSE x \in S : TRUE
           u == IF x \in LeafListDP THEN SetLeafList(t, x, b.ll[x]) ELSE SetLeaf(t, x, b.lv[x])
       IN SetAll(u, b, S \ {x})

ApplyDiff(a, b) == SetAll(DelAll(a, DiffDeletes(a, b)), b, DiffUpdates(a, b))

\* DiffWithAtomic: ordered lists are compared as a whole; a list that differs is sent as
\* one atomic notification holding all of b's leaves of that list, in entry order
OrdLeaves(t, l) == {x \in DOMAIN t.lv : Below(l, x)}
OutsideOrdered(S) == {x \in S : ~InOrdered(x)}
ListDiffers(a, b, l) == a.oe[l] # b.oe[l] \/ Restrict(a.lv, OrdLeaves(a, l)) # Restrict(b.lv, OrdLeaves(b, l))

ApplyAtomicDiff(a, b) ==
  LET plain == SetAll(DelAll(a, OutsideOrdered(DiffDeletes(a, b))), b, OutsideOrdered(DiffUpdates(a, b)))
      RECURSIVE Atom(_, _)
      Atom(u, ls) == IF ls = {} THEN u
                     ELSE LET l == CHOOSE l \in ls : TRUE
                          IN Atom(ApplySeq(DeleteAt(u, l), AtomicUpdates(b, l)), ls \ {l})
  IN Atom(plain, {l \in OListDP : ListDiffers(a, b, l)})

DiffLaws ==
  LET a == tree
      b == other
  IN /\ Data(ApplyDiff(a, b)) = Data(b)                                   \* sound and complete
     /\ \A x \in DiffUpdates(a, b) : x \notin DOMAIN Data(a) \/ Data(a)[x] # Data(b)[x]    \* minimal
     /\ \A x \in DiffDeletes(a, b) : x \in DOMAIN Data(a) /\ x \notin DOMAIN Data(b)
     /\ (a = b => DiffDeletes(a, b) = {} /\ DiffUpdates(a, b) = {})
     /\ LET u == ApplyAtomicDiff(a, b) IN Data(u) = Data(b) /\ u.oe = b.oe
     \* IgnoreAdditions omits exactly the leaves new in b
     /\ {x \in DiffUpdates(a, b) : x \in DOMAIN Data(a)} = DiffUpdates(a, b) \ ((DOMAIN Data(b)) \ (DOMAIN Data(a)))

----------------------------------------------------------------------------
(* C05: MergeStructs.  Operational, field kind by field kind.               *)

LeafConflict(a, b)  == \E x \in (DOMAIN a.lv) \cap (DOMAIN b.lv) : a.lv[x] # b.lv[x]

\* leaf-lists set in both must be equal or disjoint
LLCompatible(a, b)  == \A x \in (DOMAIN a.ll) \cap (DOMAIN b.ll) :
                          a.ll[x] = b.ll[x] \/ Range(a.ll[x]) \cap Range(b.ll[x]) = {}

IsSubSeq(s, t) ==   \* s is a subsequence of t (same order)
  LET RECURSIVE Go(_, _)
      Go(i, j) == IF i > Len(s) THEN TRUE
                  ELSE IF j > Len(t) THEN FALSE
                  ELSE IF s[i] = t[j] THEN Go(i + 1, j + 1) ELSE Go(i, j + 1)
  IN Go(1, 1)

\* ordered lists: disjoint, or b's keys are a same-order subset of a's
OLCompatible(a, b)  == \A l \in OListDP :
                          Range(a.oe[l]) \cap Range(b.oe[l]) = {} \/ IsSubSeq(b.oe[l], a.oe[l])

Compatible(a, b) == ~LeafConflict(a, b) /\ LLCompatible(a, b) /\ OLCompatible(a, b)
CompatibleOverwrite(a, b) == LLCompatible(a, b) /\ OLCompatible(a, b)

MergeLL(a, b) ==
  [x \in (DOMAIN a.ll) \cup (DOMAIN b.ll) |->
     IF x \notin DOMAIN b.ll THEN a.ll[x]
     ELSE IF x \notin DOMAIN a.ll THEN b.ll[x]
     ELSE IF a.ll[x] = b.ll[x] THEN a.ll[x] ELSE a.ll[x] \o b.ll[x]]

Merge(a, b) ==
  [ lv |-> b.lv @@ a.lv,          \* b wins where both are set (equal unless overwriting)
    ll |-> MergeLL(a, b),
    en |-> [l \in UListDP |-> a.en[l] \cup b.en[l]],
    oe |-> [l \in OListDP |-> a.oe[l] \o SelectSeq(b.oe[l], LAMBDA k : k \notin Range(a.oe[l]))],
    ct |-> a.ct \cup b.ct ]

SetOf(f) == [x \in DOMAIN f |-> Range(f[x])]

MergeLaws ==
  LET a == tree
      b == other
      m == Merge(a, b)
  IN /\ (Compatible(a, b) =>
           /\ m.lv = a.lv @@ b.lv /\ DOMAIN m.lv = (DOMAIN a.lv) \cup (DOMAIN b.lv)      \* union of the leaves
           /\ \A x \in DOMAIN m.ll : Range(m.ll[x]) =
                 (IF x \in DOMAIN a.ll THEN Range(a.ll[x]) ELSE {}) \cup (IF x \in DOMAIN b.ll THEN Range(b.ll[x]) ELSE {})
           /\ \A l \in ListDP : Entries(m, l) = Entries(a, l) \cup Entries(b, l)
           /\ WellFormed(m)
           /\ (Compatible(b, a) =>                                                      \* commutative
                 LET n == Merge(b, a) IN n.lv = m.lv /\ SetOf(n.ll) = SetOf(m.ll) /\ n.en = m.en
                                         /\ \A l \in OListDP : Range(n.oe[l]) = Range(m.oe[l])))
     /\ (CompatibleOverwrite(a, b) => \A x \in DOMAIN b.lv : m.lv[x] = b.lv[x])            \* b's values win

EmitPair == PrintT("PAIR " \o ToJson([a |-> TreeJson(tree), b |-> TreeJson(other),
                                      compat |-> Compatible(tree, other), compatow |-> CompatibleOverwrite(tree, other),
                                      merged |-> TreeJson(Merge(tree, other)),
                                      applied |-> TreeJson(ApplyAtomicDiff(tree, other))]))

=============================================================================
