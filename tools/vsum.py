#!/usr/bin/env python3
"""Summarises replay files of a property by signature class."""
import json,glob,collections,sys
prop=sys.argv[1]
keys=sys.argv[2].split(',') if len(sys.argv)>2 else ['conjunct','kind','keytype','node']
c=collections.Counter(); ex={}
for f in glob.glob('/verif/evidence/replay/%s-*.json'%prop):
    v=json.load(open(f)); s=v['sig']
    k=tuple(s.get(x) for x in keys)
    c[k]+=1; ex.setdefault(k,v['detail'][:260])
for k,n in sorted(c.items(),key=str):
    print(n,k); print('     ',ex[k])
