"""Renders the abstract schemas emitted by SchemaGen.tla (GEN lines: node sets with the way each
node is declared) as YANG modules: vg.yang (the data model), vga.yang (the augmented nodes)
and vgi.yang (identities)."""
import json, os

TYPEDEFS = """  typedef etd { type enumeration { enum ONE; enum TWO { value 5; } enum "THREE-X" { value 9; } } }
"""

def ytype(t):
    if t in ("string", "uint32", "int64", "uint64", "boolean", "binary", "empty"):
        return "type %s;" % t
    if t == "decimal64":
        return "type decimal64 { fraction-digits 2; }"
    if t == "enum-typedef":
        return "type etd;"
    if t == "enum-inline":
        return "type enumeration { enum X; enum Y { value 4; } }"
    if t == "union-su":
        return "type union { type uint32; type string { pattern '[a-z]+'; } }"
    if t == "union-eu":
        return "type union { type etd; type uint32; }"
    if t == "identityref":
        return "type identityref { base vgi:BASE; }"
    if t.startswith("leafref:"):
        return 'type leafref { path "%s"; }' % t[len("leafref:"):]
    raise ValueError("type %r" % t)


class Renderer:
    def __init__(self, nodes, extra_leaf=None, adv_identities=False):
        self.adv_identities = adv_identities
        self.nodes = {n["p"]: n for n in nodes}
        self.kids = {}
        for n in nodes:
            parent = n["p"].rsplit("/", 1)[0]
            self.kids.setdefault(parent, []).append(n)
        self.groupings = {}
        self.augments = []   # (target path with prefixes, text)
        self.extra_leaf = extra_leaf

    def name(self, n):
        return n["p"].rsplit("/", 1)[1]

    def keynames(self, n):
        """the key names of the list the leaf belongs to (directly or through config / state)"""
        p = n["p"].rsplit("/", 1)[0]
        for _ in range(2):
            m = self.nodes.get(p)
            if m and m["k"] == "list":
                return set(m["keys"])
            p = p.rsplit("/", 1)[0]
        return set()

    def vgpath(self, p):
        return "".join("/vg:" + x for x in p.strip("/").split("/"))

    # restrictions, defaults, units and cardinalities by leaf name and type: what the embedded
    # schema has to carry over (C27); they do not change the structure the model describes
    DECOR = {("w", "uint32"): ('type uint32 { range "1..100 | 200..300"; }', 'default "5";'),
             ("v", "string"): ('type string { length "1..20"; pattern "[a-z0-9/]*"; }', ""),
             ("a", "string"): ('type string;', 'default "dflt";'),
             ("e", "enum-typedef"): ('type etd;', 'default "TWO";'),
             ("cnt", "uint64"): ('type uint64;', 'units "packets";'),
             ("x", "int64"): ('type int64 { range "-9223372036854775808..-1 | 10..max"; }', ""),
             ("ca", "string"): ('type string { length "3"; }', "")}

    def stmt(self, n, ind, parent_cfg):
        nm = self.name(n)
        cfg = "" if n["cfg"] == parent_cfg else ind + "  config %s;\n" % ("true" if n["cfg"] else "false")
        if n["k"] == "leaf":
            typ, extra = self.DECOR.get((nm, n["t"]), (ytype(n["t"]), ""))
            if nm in self.keynames(n):
                typ, extra = ytype(n["t"]), ""
            return "%sleaf %s {\n%s%s  %s\n%s%s}\n" % (ind, nm, cfg, ind, typ, (ind + "  " + extra + "\n") if extra else "", ind)
        if n["k"] == "leaf-list":
            return "%sleaf-list %s {\n%s%s  %s\n%s  max-elements 5;\n%s}\n" % (ind, nm, cfg, ind, ytype(n["t"]), ind, ind)
        body = cfg
        if n["k"] == "list":
            if n["keys"]:
                body += ind + '  key "%s";\n' % " ".join(n["keys"])
                if nm == "ml":
                    body += ind + "  min-elements 0;\n" + ind + "  max-elements 7;\n"
            if n["ob"] == "user":
                body += ind + "  ordered-by user;\n"
        elif n["pres"]:
            body += ind + '  presence "p";\n'
        parent = n["p"].rsplit("/", 1)[0]
        twin = {"config": parent + "/state", "state": parent + "/config"}.get(nm)
        if n["k"] == "container" and twin in self.nodes:
            # OpenConfig style: the leaves of a config container come from a grouping that the
            # state container uses too (so that an enumeration defined there is ONE definition)
            cfgp = parent + "/config"
            g = "cfg" + cfgp.rsplit("/", 1)[0].replace("/", "-")
            if g not in self.groupings:
                self.groupings[g] = None     # reserve (nested groupings are added while rendering)
                self.groupings[g] = self.children(cfgp, "    ", True, no_augment=(nm == "state"))
            body += "%s  uses %s;\n" % (ind, g)
            if nm == "state":
                cfgnames = {self.name(x) for x in self.kids.get(cfgp, [])}
                only = [x for x in self.kids.get(n["p"], []) if self.name(x) not in cfgnames or x["via"] == "augment"]
                body += self.children(n["p"], ind + "  ", n["cfg"], only=only)
            return "%s%s %s {\n%s%s}\n" % (ind, n["k"], nm, body, ind)
        body += self.children(n["p"], ind + "  ", n["cfg"])
        return "%s%s %s {\n%s%s}\n" % (ind, n["k"], nm, body, ind)

    def children(self, p, ind, cfg, only=None, no_augment=False):
        out = ""
        choices = {}
        for n in sorted(self.kids.get(p, []) if only is None else only, key=lambda n: n["p"]):
            via = n["via"]
            if via == "augment" and no_augment:
                continue
            if via == "plain":
                out += self.stmt(n, ind, cfg)
            elif via == "grouping":
                g = "grp-" + self.name(n)
                # the grouping is rendered with the config flag of its first use; a state use inherits config false
                self.groupings.setdefault(g, self.stmt(dict(n, cfg=True), "    ", True))
                out += "%suses %s;\n" % (ind, g)
            elif via == "augment":
                self.augments.append((self.vgpath(p), self.stmt(n, "    ", cfg)))
            elif via.startswith("choice:"):
                ch, case = via[len("choice:"):].split("/")
                choices.setdefault(ch, {}).setdefault(case, []).append(n)
        for ch in sorted(choices):
            out += "%schoice %s {\n" % (ind, ch)
            for case in sorted(choices[ch]):
                out += "%s  case %s {\n" % (ind, case)
                for n in choices[ch][case]:
                    out += self.stmt(n, ind + "    ", cfg)
                out += "%s  }\n" % ind
            out += "%s}\n" % ind
        if self.extra_leaf and self.extra_leaf[0] == p:
            out += "%sleaf %s { type string; }\n" % (ind, self.extra_leaf[1])
        return out

    def render(self):
        body = self.children("", "  ", True)
        vg = ("module vg {\n  yang-version 1.1;\n  namespace \"urn:vg\";\n  prefix vg;\n  import vgi { prefix vgi; }\n\n" + TYPEDEFS)
        for g in sorted(self.groupings):
            vg += "  grouping %s {\n%s  }\n" % (g, self.groupings[g] or "")
        vg += body + "}\n"
        vga = ("module vga {\n  yang-version 1.1;\n  namespace \"urn:vga\";\n  prefix vga;\n  import vg { prefix vg; }\n\n")
        for target, text in self.augments:
            vga += "  augment \"%s\" {\n%s  }\n" % (target, text)
        vga += "}\n"
        vgi = ("module vgi {\n  yang-version 1.1;\n  namespace \"urn:vgi\";\n  prefix vgi;\n\n"
               "  identity BASE;\n  identity I-ONE { base BASE; }\n  identity I_TWO { base BASE; }\n" +
               # two identities whose protobuf value numbers (hash of base name + identity name) coincide
               ("  identity I1vr4b8 { base BASE; }\n  identity Ibu4tnd { base BASE; }\n" if self.adv_identities else "") + "}\n")
        return vg, vga, vgi


def write_case(case, outdir, extra_leaf=None, adv_identities=False):
    """Writes vg.yang / vga.yang for one GEN case; extra_leaf=(parent path, name) adds an unrelated
    leaf (used by the tag-stability check of C28)."""
    os.makedirs(outdir, exist_ok=True)
    vg, vga, vgi = Renderer(case["nodes"], extra_leaf, adv_identities).render()
    open(os.path.join(outdir, "vg.yang"), "w").write(vg)
    open(os.path.join(outdir, "vga.yang"), "w").write(vga)
    open(os.path.join(outdir, "vgi.yang"), "w").write(vgi)


if __name__ == "__main__":
    import sys
    for l in open(sys.argv[1]):
        if l.startswith('"GEN '):
            c = json.loads(json.loads(l)[4:])
            if len(sys.argv) > 2 and (str(c["tog"]["oc"]).lower() != sys.argv[2]):
                continue
            write_case(c, sys.argv[3] if len(sys.argv) > 3 else "/tmp/ygcase")
            print(json.dumps(c["tog"]), c["beh"])
            break
