"""The generator family (C25 - C29): SchemaGen.tla enumerates abstract schemas x compression
behaviours with the structure the generated artefacts must have; every case is rendered as YANG
(yanggen.py), run through the generator / proto_generator built from the working tree, and the
artefacts are compared with the model, with goyang and with each other."""
import json, os, re, subprocess, hashlib, shutil
from concurrent.futures import ThreadPoolExecutor

import vf, yanggen
from vf import Infra, log

# leaf names whose schema path (/vg/top/<n>, /vg/top/config/<n>, /vg/top/state/<n>) hashes, with the
# FNV-1 based numbering of protogen, to field number 0, into 19000-19999, into 1-1000, or to the number
# of a sibling; found by exhaustive search over the documented hash (see DESIGN.md, C28)
ADV_NAMES = ["z3ae7j0", "z1xmw0", "z1ya20", "q8oo7bx4", "qevyl7r6",
             "zf44rl5", "z2emm0", "z90c40", "qeqw1u94", "q4bax692",
             "zj52nwv", "z8b7b0", "ze8t60", "q4p4itx3", "q9uylrx1"]

SG_CFG = """SPECIFICATION Spec
CONSTANTS
  Quick = %s
  AdvNames = {%s}
INVARIANT ExactlyOnce
INVARIANT PathsDistinct
INVARIANT StateExcluded
CONSTRAINT Emit
CHECK_DEADLOCK FALSE
"""

MODS = ["vg.yang", "vga.yang", "vgi.yang"]
BASE = ["-generate_fakeroot", "-fakeroot_name=device"]
BEH_FLAGS = {
    "Uncompressed": [],
    "UncompressedExcludeDerivedState": ["-exclude_state"],
    "PreferIntendedConfig": ["-compress_paths"],
    "PreferOperationalState": ["-compress_paths", "-prefer_operational_state"],
    "ExcludeDerivedState": ["-compress_paths", "-exclude_state"],
}
COMPRESSING = {"PreferIntendedConfig", "PreferOperationalState", "ExcludeDerivedState"}


def flagset(name, beh):
    comp = beh in COMPRESSING
    if name == "min":
        return ["-generate_simple_unions"]
    if name == "full":
        return ["-generate_append", "-generate_delete", "-generate_getters", "-generate_rename", "-generate_populate_defaults",
                "-generate_leaf_getters", "-generate_leaf_setters", "-yangpresence", "-annotations", "-include_model_data",
                "-include_descriptions", "-typedef_enum_with_defmod"]
    if name == "alt":
        return (["-generate_simple_unions", "-generate_ordered_maps=false", "-generate_populate_defaults", "-skip_enum_deduplication", "-typedef_enum_with_defmod",
                 "-enum_suffix_for_simple_union_enums"] + (["-ignore_shadow_schema_paths", "-shorten_enum_leaf_names"] if comp else []))
    if name == "ann":
        return (["-generate_simple_unions", "-annotations", "-yangpresence", "-generate_getters", "-generate_leaf_getters"] +
                (["-ignore_shadow_schema_paths"] if comp else []))
    raise ValueError(name)


FLAGSETS = ["min", "full", "alt", "ann"]


def model_cases(work, tier, adv=False):
    names = ", ".join('"%s"' % n for n in ADV_NAMES) if adv else ""
    mc = vf.run_tlc(work, "SchemaGen", SG_CFG % ("TRUE" if tier == "quick" else "FALSE", names), tag="schemagen", workers=16, timeout=3000)
    cases = []
    for l in open(mc["out"], errors="replace"):
        if l.startswith('"GEN '):
            cases.append(json.loads(json.loads(l)[4:]))
    if not cases:
        raise Infra("SchemaGen emitted no case")
    cases.sort(key=lambda c: json.dumps([c["tog"], c["beh"]], sort_keys=True))
    return mc, cases


def select(cases, tier, seed, limit=None):
    """quick: every case of the quick toggle subset, one flag set each (rotating with the seed);
    thorough: every case with extras, the flag sets rotating, plus the no-extras cases with 'min'."""
    out = []
    for i, c in enumerate(cases):
        fs = FLAGSETS[(i + seed) % len(FLAGSETS)]
        out.append((c, fs))
    if limit:
        # keep every (shape, behaviour) pair represented: stride sampling over the sorted list
        step = max(1, len(out) // limit)
        out = out[(seed % step)::step][:limit]
    return out


class Case:
    def __init__(self, idx, model, fs):
        self.idx, self.m, self.fs = idx, model, fs
        self.name = "g%d" % idx
        self.beh = model["beh"]
        self.comp = self.beh in COMPRESSING
        self.flags = BEH_FLAGS[self.beh] + flagset(fs, self.beh)
        self.nodes = {n["p"]: n for n in model["nodes"]}

    def label(self):
        t = self.m["tog"]
        return "%s shape=%s kt=%s kt2=%s ord=%s llt=%s extras=%s beh=%s flags=%s%s" % (
            self.name, "oc" if t["oc"] else "plain", t["kt"], t["kt2"], t["ord"], t["llt"], t["extras"], self.beh, self.fs,
            (" " + " ".join(self.pflags)) if self.pflags else "")

    pflags = []

    def sig(self, conj, **kw):
        t = self.m["tog"]
        s = dict(conjunct=conj, shape="oc" if t["oc"] else "plain", beh=self.beh, flags=self.fs)
        if self.pflags:
            s["pathflags"] = " ".join(self.pflags)
        s.update(kw)
        return s

    def case(self):
        return dict(sub="gen", tog=self.m["tog"], beh=self.beh, flagset=self.fs)

    def leaf_type(self, p, depth=0):
        """The type of the leaf at p with leafrefs followed."""
        t = self.nodes[p]["t"]
        if t.startswith("leafref:") and depth < 4:
            rel = t[len("leafref:"):]
            cur = p          # the context node of the path expression is the leaf itself
            parts = rel.split("/")
            for x in parts:
                if x == "..":
                    cur = cur.rsplit("/", 1)[0]
                else:
                    cur = cur + "/" + x
            if cur in self.nodes:
                return self.leaf_type(cur, depth + 1)
        return t


def build_tools(h, bindir):
    vf.sh(["go", "build", "-o", os.path.join(bindir, "proto_generator"), "github.com/openconfig/ygot/proto_generator"], cwd=h)
    vf.sh(["go", "build", "-o", os.path.join(bindir, "yangdump"), "./cmd/yangdump"], cwd=h)


PATH_FLAGSETS = [[], ["-simplify_wildcard_paths"], ["-generate_wildcard_paths=false"], ["-generate_wildcard_paths=false", "-simplify_wildcard_paths"]]


def prepare_cases(work, sel, path_structs=True, proto=False):
    """Renders the YANG of every selected case and runs the generator into h/gen/g<i>."""
    h = vf.copy_harness(work)
    bindir = vf.build_generators(h, work)
    build_tools(h, bindir)
    cases = [Case(i, m, fs) for i, (m, fs) in enumerate(sel)]
    if path_structs:
        for c in cases:
            c.pflags = PATH_FLAGSETS[c.idx % len(PATH_FLAGSETS)]
            c.flags = c.flags + c.pflags

    def one(c):
        ydir = os.path.join(work, "yang", c.name)
        yanggen.write_case(c.m, ydir)
        c.ydir = ydir
        ok, out = vf.generate_pkg(h, bindir, c.name, schema_dir=ydir, mods=MODS, flags=c.flags, name=c.name, common=BASE,
                                  path_structs=path_structs and c.comp)
        c.gen_ok, c.gen_out = ok, out
        c.dir = os.path.join(h, "gen", c.name)
        return c

    with ThreadPoolExecutor(12) as ex:
        list(ex.map(one, cases))
    return h, bindir, cases


def dump_all(h, bindir, work, cases):
    """Builds one gendump binary over all generated packages (this is the compile check) and runs it."""
    good = [c for c in cases if c.gen_ok]
    vf.write_all(h, [c.name for c in good])
    p, secs = vf.sh(["go", "build", "-o", os.path.join(bindir, "gendump"), "./cmd/gendump"], cwd=h, check=False)
    build_out = p.stdout if p.returncode != 0 else ""
    dumps = {}
    if p.returncode == 0:
        out = os.path.join(work, "gendump.ndjson")
        q, _ = vf.sh([os.path.join(bindir, "gendump"), "-out", out], cwd=h, check=False)
        if q.returncode != 0:
            raise Infra("gendump failed:\n%s" % q.stdout[-3000:])
        for l in open(out):
            d = json.loads(l)
            dumps[d["pkg"]] = d
    return build_out, dumps


def goyang_dump(bindir, work, c):
    out = os.path.join(work, "yang", c.name, "goyang.json")
    cmd = [os.path.join(bindir, "yangdump"), "-path", c.ydir, "-mods", ",".join(MODS), "-out", out]
    if c.beh == "PreferOperationalState":
        cmd.append("-prefer_state")
    p = subprocess.run(cmd, stdout=subprocess.PIPE, stderr=subprocess.STDOUT, text=True)
    if p.returncode != 0:
        raise Infra("yangdump failed for %s: %s" % (c.label(), p.stdout[-2000:]))
    return json.load(open(out))


# ---------------------------------------------------------------------------------- expectations

SCALAR_CLASS = {"string": "string", "uint32": "uint32", "int64": "int64", "uint64": "uint64", "boolean": "bool", "decimal64": "float64",
                "binary": "binary", "empty": "empty", "enum-typedef": "enum", "enum-inline": "enum", "identityref": "enum",
                "union-su": "union", "union-eu": "union"}


def expected_class(c, f, ordered_maps):
    """The Go type class (as gendump names them) of a model field."""
    k = f["k"]
    if k == "container":
        return "container", None
    if k == "leaf":
        return "leaf:" + SCALAR_CLASS[c.leaf_type(f["node"])], None
    if k == "leaf-list":
        return "leaflist:" + SCALAR_CLASS[c.leaf_type(f["node"])], None
    if k == "list":
        if not f["keys"]:
            return "list-unkeyed", None
        kinds = []
        for kn in f["keys"]:
            # the key leaf is the list's child of that name (a leafref copy in the OpenConfig shape)
            kinds.append(SCALAR_CLASS[c.leaf_type(f["node"] + "/" + kn)])
        cls = "list-ordered" if (f["ob"] == "user" and ordered_maps) else "list-map"
        return cls, kinds
    raise ValueError(k)


def data_index(schema_nodes):
    """data path (choice / case segments dropped) -> schema node, for a canonical schema dump."""
    kinds = {n["path"]: n["kind"].split(" ")[0] for n in schema_nodes}
    idx = {}
    for n in schema_nodes:
        if n["kind"].split(" ")[0] in ("choice", "case"):
            continue
        parts = n["path"].strip("/").split("/")
        keep = []
        for i in range(len(parts)):
            pre = "/" + "/".join(parts[:i + 1])
            if kinds.get(pre) in ("choice", "case"):
                continue
            keep.append(parts[i])
        idx["/" + "/".join(keep)] = n
    return idx


def data_path(sp, kinds):
    """schema path -> data path: choice and case segments dropped."""
    parts = sp.strip("/").split("/") if sp.strip("/") else []
    keep = []
    for i in range(len(parts)):
        if kinds.get("/" + "/".join(parts[:i + 1])) in ("choice", "case"):
            continue
        keep.append(parts[i])
    return "/" + "/".join(keep)


def strip_mod(sp):
    """'/vg/top/ls/l' (schemapath annotation: module first) -> '/top/ls/l'; '/' stays."""
    parts = sp.strip("/").split("/")
    return "/" + "/".join(parts[1:]) if len(parts) > 1 else "/"


def join(a, b):
    return (a.rstrip("/") + "/" + b.strip("/")) if b.strip("/") else a


# ---------------------------------------------------------------------------------- C26

def check_structs(c, d, viol, drift=None):
    """C26: the struct / field table against the model and against the embedded schema."""
    drift = drift if drift is not None else set()
    m = c.m
    ordered_maps = "-generate_ordered_maps=false" not in c.flags
    shadow_tags = "-ignore_shadow_schema_paths" in c.flags
    idx = data_index(d["schema"])
    kinds = {n["path"]: n["kind"].split(" ")[0] for n in d["schema"]}
    by_path = {}
    for s in d["structs"]:
        if not s["inschema"]:
            viol.append(dict(property="C26", sig=c.sig("struct-not-in-schema"), detail="%s: struct %s has no entry in the embedded schema tree" % (c.label(), s["name"]), case=c.case()))
            continue
        sp = data_path(strip_mod(s["schemapath"]), kinds)
        s["datapath"] = sp
        if sp in by_path:
            viol.append(dict(property="C26", sig=c.sig("two-structs-one-node"), detail="%s: structs %s and %s both stand for %s" % (c.label(), by_path[sp]["name"], s["name"], sp), case=c.case()))
        by_path[sp] = s
    want_structs = set(m["structs"])
    got_structs = set(by_path)
    for sp in sorted(want_structs - got_structs):
        viol.append(dict(property="C26", sig=c.sig("struct-missing", kind=c.nodes.get(sp, {}).get("k", "root")), detail="%s: no struct generated for directory %s (generated: %s)" % (c.label(), sp, sorted(got_structs)), case=c.case()))
    for sp in sorted(got_structs - want_structs):
        viol.append(dict(property="C26", sig=c.sig("struct-unexpected"), detail="%s: struct %s generated for %s, which the compression behaviour removes" % (c.label(), by_path[sp]["name"], sp), case=c.case()))
    want_fields = {}
    for f in m["fields"]:
        want_fields.setdefault(f["struct"], []).append(f)
    n_fields = 0
    for sp in sorted(want_structs & got_structs):
        s = by_path[sp]
        for f in s["fields"]:
            if f["class"] == "annotation" and (f["tags"].get("ygotAnnotation") != "true" or not f["tags"].get("path", "").strip("|")):
                viol.append(dict(property="C26", sig=c.sig("annotation-tag"), detail="%s: annotation field %s.%s has the tags %s (no ygotAnnotation:\"true\" / path)" % (c.label(), s["name"], f["name"], f["tags"]), case=c.case()))
        real = [f for f in s["fields"] if f["class"] != "annotation"]
        # index the real fields by their set of path alternatives
        rmap = {}
        for f in real:
            alts = frozenset("/" + a.strip("/") for a in f["tags"].get("path", "").split("|"))
            if alts in rmap:
                viol.append(dict(property="C26", sig=c.sig("field-twice"), detail="%s: struct %s has two fields with path %s" % (c.label(), s["name"], sorted(alts)), case=c.case()))
            rmap[alts] = f
        seen = set()
        for wf in want_fields.get(sp, []):
            n_fields += 1
            alts = frozenset(wf["paths"])
            rf = rmap.get(alts)
            if rf is None:
                near = [sorted(a) for a in rmap if a & alts]
                viol.append(dict(property="C26", sig=c.sig("field-missing", kind=wf["k"], npaths=str(len(alts))),
                                 detail="%s: struct %s (%s) has no field with paths %s for node %s (fields with an overlapping path: %s)" % (c.label(), s["name"], sp, sorted(alts), wf["node"], near), case=c.case()))
                continue
            seen.add(alts)
            cls, kinds = expected_class(c, wf, ordered_maps)
            if rf["class"] != cls:
                viol.append(dict(property="C26", sig=c.sig("field-type", want=cls, got=rf["class"], t=c.leaf_type(wf["node"]) if wf["k"] in ("leaf", "leaf-list") else wf["k"]),
                                 detail="%s: field %s.%s (%s, YANG %s %s) has Go type %s (class %s), want class %s" % (c.label(), s["name"], rf["name"], sorted(alts), wf["k"], wf["t"], rf["gotype"], rf["class"], cls), case=c.case()))
            elif kinds is not None:
                kk = rf.get("keykind", "")
                if len(kinds) == 1:
                    ok = kk == kinds[0]
                else:
                    got = re.findall(r"(\w+):([\w-]+):([^,}]*)", kk)
                    ok = [g[1] for g in got] == kinds and len(got) == len(kinds)
                if not ok:
                    viol.append(dict(property="C26", sig=c.sig("list-key-type", want=",".join(kinds), got=kk),
                                     detail="%s: list field %s.%s is keyed by %s, the key leaves have types %s" % (c.label(), s["name"], rf["name"], kk, kinds), case=c.case()))
            # shadow paths
            sh = rf["tags"].get("shadow-path")
            want_sh = frozenset(wf["shadow"])
            if shadow_tags:
                # (the property does not speak about shadow paths: a difference is recorded as drift)
                got_sh = frozenset("/" + a.strip("/") for a in sh.split("|")) if sh else frozenset()
                if got_sh != want_sh:
                    drift.add("shadow-path of a %s field under %s: generated %s, model %s" % (wf["k"], c.beh, sorted(got_sh), sorted(want_sh)))
            elif sh:
                viol.append(dict(property="C26", sig=c.sig("shadow-path-unexpected"), detail="%s: field %s.%s has a shadow-path tag without ignore_shadow_schema_paths" % (c.label(), s["name"], rf["name"]), case=c.case()))
            # tags resolve in the embedded schema to a node whose kind fits the Go type
            mods = rf["tags"].get("module", "").split("|")
            palts = rf["tags"].get("path", "").split("|")
            if len(mods) != len(palts):
                viol.append(dict(property="C26", sig=c.sig("module-tag-arity"), detail="%s: field %s.%s: path %r and module %r have different numbers of alternatives" % (c.label(), s["name"], rf["name"], rf["tags"].get("path"), rf["tags"].get("module")), case=c.case()))
            for ai, a in enumerate(palts):
                full = join(sp, a)
                node = idx.get(full)
                if node is None:
                    viol.append(dict(property="C26", sig=c.sig("path-tag-unresolved"), detail="%s: field %s.%s: path tag %s does not resolve in the embedded schema (%s)" % (c.label(), s["name"], rf["name"], a, full), case=c.case()))
                    continue
                nk = node["kind"].split(" ")[0]
                fits = {"container": nk == "container", "list-map": nk == "list" and node.get("keys"), "list-ordered": nk == "list" and node.get("keys") and node.get("ordered") == "user",
                        "list-unkeyed": nk == "list" and not node.get("keys")}.get(rf["class"])
                if fits is None:
                    fits = (nk == "leaf-list") if rf["class"].startswith("leaflist:") else (nk == "leaf")
                if not fits:
                    viol.append(dict(property="C26", sig=c.sig("kind-mismatch", go=rf["class"], yang=nk), detail="%s: field %s.%s (%s) resolves to a %s in the embedded schema" % (c.label(), s["name"], rf["name"], rf["class"], nk), case=c.case()))
                # module tag: one module per path element, the module the element belongs to
                if ai < len(mods):
                    elems = a.strip("/").split("/")
                    ms = mods[ai].split("/")
                    if len(ms) != len(elems):
                        viol.append(dict(property="C26", sig=c.sig("module-tag-length"), detail="%s: field %s.%s: module tag %r does not have one module per element of %r" % (c.label(), s["name"], rf["name"], mods[ai], a), case=c.case()))
                    else:
                        for ei in range(len(elems)):
                            en = idx.get(join(sp, "/".join(elems[:ei + 1])))
                            if en is not None and en.get("prefix") and en["prefix"] != ms[ei]:
                                viol.append(dict(property="C26", sig=c.sig("module-tag-wrong"), detail="%s: field %s.%s: element %s of path %s belongs to module %s, the tag says %s" % (c.label(), s["name"], rf["name"], elems[ei], a, en["prefix"], ms[ei]), case=c.case()))
        for alts, rf in rmap.items():
            if alts not in seen:
                viol.append(dict(property="C26", sig=c.sig("field-unexpected"), detail="%s: struct %s has a field %s with paths %s that corresponds to no data node of the schema under %s" % (c.label(), s["name"], rf["name"], sorted(alts), c.beh), case=c.case()))
    return n_fields


# ---------------------------------------------------------------------------------- C27

CMP_KEYS = ["kind", "keys", "config", "readonly", "ordered", "min", "max", "presence", "mandatory", "default", "prefix", "units", "type"]


def check_schema(c, d, gy, viol):
    """C27: the embedded schema against goyang's compilation and against the model's nodes."""
    if d.get("schema_err"):
        viol.append(dict(property="C27", sig=c.sig("unzip-error"), detail="%s: UnzipSchema failed: %s" % (c.label(), d["schema_err"]), case=c.case()))
        return 0
    for s in d["structs"]:
        if not s["inschema"]:
            viol.append(dict(property="C27", sig=c.sig("struct-entry-missing"), detail="%s: UnzipSchema() has no entry for the generated struct %s" % (c.label(), s["name"]), case=c.case()))
    emb = {n["path"]: n for n in d["schema"]}
    ref = {n["path"]: n for n in gy}
    for p in sorted(set(ref) - set(emb)):
        viol.append(dict(property="C27", sig=c.sig("node-missing", kind=ref[p]["kind"]), detail="%s: schema node %s (%s) is not in the embedded schema" % (c.label(), p, ref[p]["kind"]), case=c.case()))
    for p in sorted(set(emb) - set(ref)):
        viol.append(dict(property="C27", sig=c.sig("node-extra", kind=emb[p]["kind"]), detail="%s: the embedded schema has a node %s (%s) that goyang does not produce" % (c.label(), p, emb[p]["kind"]), case=c.case()))
    n = 0
    for p in sorted(set(emb) & set(ref)):
        n += 1
        for k in CMP_KEYS:
            if emb[p].get(k) != ref[p].get(k):
                viol.append(dict(property="C27", sig=c.sig("attribute-differs", attr=k, kind=ref[p]["kind"]),
                                 detail="%s: node %s: %s is %r in the embedded schema, %r in goyang's compilation of the source" % (c.label(), p, k, emb[p].get(k), ref[p].get(k)), case=c.case()))
    # the model's own nodes: kind, keys, config, ordered-by, presence
    idx = data_index(d["schema"])
    for p, mn in c.nodes.items():
        en = idx.get(p)
        if en is None:
            viol.append(dict(property="C27", sig=c.sig("model-node-missing", kind=mn["k"]), detail="%s: data node %s of the model is not in the embedded schema" % (c.label(), p), case=c.case()))
            continue
        got = dict(k=en["kind"].split(" ")[0], keys=(en.get("keys") or "").split(), ro=en["readonly"], ob=en.get("ordered") or "system", pres=bool(en.get("presence")))
        want = dict(k=mn["k"], keys=list(mn["keys"]), ro=not mn["cfg"], ob=mn["ob"], pres=mn["pres"])
        if mn["k"] not in ("list", "leaf-list"):
            got["ob"] = want["ob"]
        if mn["k"] == "leaf-list":
            got["ob"] = want["ob"] = "system"
        if got != want:
            viol.append(dict(property="C27", sig=c.sig("model-attribute-differs", kind=mn["k"]), detail="%s: node %s is %s in the embedded schema, the model says %s" % (c.label(), p, got, want), case=c.case()))
    return n


# ---------------------------------------------------------------------------------- C29

def parse_path(s):
    """'/a/b[k=v][k2=w]/c' -> [(name, {k: v})] with the escapes of PathToString undone."""
    elems, i, n = [], 0, len(s)
    while i < n:
        assert s[i] == "/", s
        i += 1
        name = ""
        while i < n and s[i] not in "/[":
            if s[i] == "\\":
                i += 1
            name += s[i]
            i += 1
        keys = {}
        while i < n and s[i] == "[":
            i += 1
            k = ""
            while s[i] != "=":
                k += s[i]
                i += 1
            i += 1
            v = ""
            while s[i] != "]":
                if s[i] == "\\":
                    i += 1
                v += s[i]
                i += 1
            i += 1
            keys[k] = v
        elems.append((name, keys))
    return elems


def check_paths(c, d, viol):
    """C29: every accessor chain resolves to the data-tree path of its node; keys and wildcards."""
    if d.get("path_err"):
        viol.append(dict(property="C29", sig=c.sig("explore-error"), detail="%s: walking the path API failed: %s" % (c.label(), d["path_err"]), case=c.case()))
        return 0
    # the data paths the fields of the model stand for: absolute schema path -> field
    want = {}
    for f in c.m["fields"]:
        for r in f["paths"]:
            want[join(f["struct"], r)] = f
    primary = {}
    for f in c.m["fields"]:
        primary[f["node"]] = f
    covered = set()
    n = 0
    simplify = "-simplify_wildcard_paths" in c.flags
    for pc in d.get("paths") or []:
        n += 1
        if pc.get("err"):
            viol.append(dict(property="C29", sig=c.sig("resolve-error"), detail="%s: %s: %s" % (c.label(), pc["chain"], pc["err"]), case=c.case()))
            continue
        try:
            elems = parse_path(pc["resolved"])
        except Exception:
            viol.append(dict(property="C29", sig=c.sig("unparsable-path"), detail="%s: %s resolves to %r" % (c.label(), pc["chain"], pc["resolved"]), case=c.case()))
            continue
        sp = "/" + "/".join(e[0] for e in elems)
        f = want.get(sp)
        if f is None:
            viol.append(dict(property="C29", sig=c.sig("not-a-data-path"), detail="%s: %s resolves to %s, which is not the data-tree path of a node of the schema under %s" % (c.label(), pc["chain"], pc["resolved"], c.beh), case=c.case()))
            continue
        covered.add(f["node"])
        # keys: every list element on the way carries exactly the keys of its list
        for i, (name, keys) in enumerate(elems):
            pre = "/" + "/".join(e[0] for e in elems[:i + 1])
            node = c.nodes.get(pre)
            wantkeys = list(node["keys"]) if node and node["k"] == "list" else []
            # with simplify_wildcard_paths an element produced by an all-wildcard accessor omits its keys
            if simplify and wantkeys and not keys and re.search(r"\.\w*Any\(\)", pc["chain"]):
                continue
            if sorted(keys) != sorted(wantkeys):
                viol.append(dict(property="C29", sig=c.sig("key-names"), detail="%s: %s -> %s: element %s has keys %s, the list's keys are %s" % (c.label(), pc["chain"], pc["resolved"], name, sorted(keys), wantkeys), case=c.case()))
        # the arguments of the last call are the key values of the last keyed element; '*' elsewhere for Any
        last_keys = None
        for name, keys in elems:
            if keys:
                last_keys = keys
        if pc["args"] and f["k"] == "list":
            vals = sorted(last_keys.values()) if last_keys else []
            exp = sorted(pc["args"] + ["*"] * (len(f["keys"]) - len(pc["args"])))
            if vals != exp:
                viol.append(dict(property="C29", sig=c.sig("key-values"), detail="%s: %s -> %s: key values %s, passed %s" % (c.label(), pc["chain"], pc["resolved"], vals, exp), case=c.case()))
        if f["k"] == "list" and not pc["args"] and last_keys and "Any" in pc["chain"].rsplit(".", 1)[1]:
            if set(last_keys.values()) != {"*"}:
                viol.append(dict(property="C29", sig=c.sig("wildcard-values"), detail="%s: %s -> %s: a wildcard accessor must give '*' for every key" % (c.label(), pc["chain"], pc["resolved"]), case=c.case()))
    for node, f in primary.items():
        if node not in covered and f["struct"] != "/__none__":
            viol.append(dict(property="C29", sig=c.sig("node-unreachable", kind=f["k"]), detail="%s: no accessor chain of the path API resolves to node %s (field of %s)" % (c.label(), node, f["struct"]), case=c.case()))
    return n


def gostruct_paths(d):
    """absolute data paths the GoStruct field tags give (first alternative of every field)."""
    out = set()
    kinds = {n["path"]: n["kind"].split(" ")[0] for n in d["schema"]}
    for s in d["structs"]:
        if not s["inschema"]:
            continue
        sp = data_path(strip_mod(s["schemapath"]), kinds)
        for f in s["fields"]:
            if f["class"] == "annotation":
                continue
            for a in f["tags"].get("path", "").split("|"):
                out.add(join(sp, a))
    return out
