"""A purpose-built parser for the proto3 subset that protogen emits (there is no protoc in the
sandbox): syntax / package / import / option statements, messages with nested messages, enums,
oneofs, map fields, repeated fields and bracketed field options. parse() raises ProtoError on
anything outside that grammar; check_file() applies the proto3 well-formedness rules C28 names."""
import re

TOKEN = re.compile(r'\s+|//[^\n]*|/\*.*?\*/|("(?:[^"\\]|\\.)*")|([A-Za-z_][A-Za-z0-9_]*)|(-?\d+)|([{}=;\[\](),.<>])', re.S)
IDENT = re.compile(r'^[A-Za-z_][A-Za-z0-9_]*$')
SCALARS = {"double", "float", "int32", "int64", "uint32", "uint64", "sint32", "sint64", "fixed32", "fixed64", "sfixed32", "sfixed64", "bool", "string", "bytes"}
MAX_TAG = (1 << 29) - 1


class ProtoError(Exception):
    pass


def tokenize(text):
    pos, out = 0, []
    while pos < len(text):
        m = TOKEN.match(text, pos)
        if not m:
            raise ProtoError("unexpected character %r at offset %d" % (text[pos], pos))
        pos = m.end()
        if m.group(1) is not None:
            out.append(("str", m.group(1)))
        elif m.group(2) is not None:
            out.append(("id", m.group(2)))
        elif m.group(3) is not None:
            out.append(("int", m.group(3)))
        elif m.group(4) is not None:
            out.append(("sym", m.group(4)))
    return out


class Parser:
    def __init__(self, text):
        self.t = tokenize(text)
        self.i = 0

    def peek(self):
        return self.t[self.i] if self.i < len(self.t) else ("eof", "")

    def next(self):
        tok = self.peek()
        self.i += 1
        return tok

    def expect(self, kind, val=None):
        tok = self.next()
        if tok[0] != kind or (val is not None and tok[1] != val):
            raise ProtoError("expected %s %r, got %r (token %d)" % (kind, val, tok, self.i))
        return tok[1]

    def dotted(self):
        name = ""
        if self.peek() == ("sym", "."):
            self.next()
            name = "."
        name += self.expect("id")
        while self.peek() == ("sym", "."):
            self.next()
            name += "." + self.expect("id")
        return name

    def options(self):
        """[ (a.b) = "x", c = true ]"""
        opts = {}
        if self.peek() != ("sym", "["):
            return opts
        self.next()
        while True:
            if self.peek() == ("sym", "("):
                self.next()
                k = "(" + self.dotted() + ")"
                self.expect("sym", ")")
            else:
                k = self.dotted()
            self.expect("sym", "=")
            v = self.next()
            if v[0] not in ("str", "id", "int"):
                raise ProtoError("bad option value %r" % (v,))
            if k in opts:
                raise ProtoError("option %s given twice" % k)
            opts[k] = v[1]
            if self.peek() == ("sym", ","):
                self.next()
                continue
            break
        self.expect("sym", "]")
        return opts

    def field(self, label=None):
        if self.peek() == ("id", "map"):
            self.next()
            self.expect("sym", "<")
            k = self.dotted()
            self.expect("sym", ",")
            v = self.dotted()
            self.expect("sym", ">")
            typ = "map<%s,%s>" % (k, v)
        else:
            typ = self.dotted()
        name = self.expect("id")
        self.expect("sym", "=")
        num = int(self.expect("int"))
        opts = self.options()
        self.expect("sym", ";")
        return dict(kind="field", label=label, type=typ, name=name, number=num, options=opts)

    def enum(self):
        name = self.expect("id")
        self.expect("sym", "{")
        vals, opts = [], {}
        while self.peek() != ("sym", "}"):
            if self.peek() == ("id", "option"):
                self.next()
                k = self.dotted()
                self.expect("sym", "=")
                opts[k] = self.next()[1]
                self.expect("sym", ";")
                continue
            if self.peek() == ("sym", ";"):
                self.next()
                continue
            vn = self.expect("id")
            self.expect("sym", "=")
            num = int(self.expect("int"))
            vo = self.options()
            self.expect("sym", ";")
            vals.append(dict(name=vn, number=num, options=vo))
        self.expect("sym", "}")
        return dict(kind="enum", name=name, values=vals, options=opts)

    def message(self):
        name = self.expect("id")
        self.expect("sym", "{")
        body = []
        while self.peek() != ("sym", "}"):
            tok = self.peek()
            if tok == ("id", "message"):
                self.next()
                body.append(self.message())
            elif tok == ("id", "enum"):
                self.next()
                body.append(self.enum())
            elif tok == ("id", "oneof"):
                self.next()
                on = self.expect("id")
                self.expect("sym", "{")
                fields = []
                while self.peek() != ("sym", "}"):
                    fields.append(self.field())
                self.expect("sym", "}")
                body.append(dict(kind="oneof", name=on, fields=fields))
            elif tok == ("id", "option"):
                self.next()
                self.dotted()
                self.expect("sym", "=")
                self.next()
                self.expect("sym", ";")
            elif tok == ("id", "reserved"):
                raise ProtoError("reserved statements are not expected in generated files")
            elif tok == ("sym", ";"):
                self.next()
            elif tok in (("id", "repeated"), ("id", "optional")):
                self.next()
                body.append(self.field(label=tok[1]))
            elif tok[0] == "id" or tok == ("sym", "."):
                body.append(self.field())
            else:
                raise ProtoError("unexpected token %r in message %s" % (tok, name))
        self.expect("sym", "}")
        return dict(kind="message", name=name, body=body)

    def file(self):
        f = dict(syntax=None, package="", imports=[], items=[])
        while self.peek()[0] != "eof":
            tok = self.next()
            if tok == ("id", "syntax"):
                self.expect("sym", "=")
                f["syntax"] = self.expect("str").strip('"')
                self.expect("sym", ";")
            elif tok == ("id", "package"):
                f["package"] = self.dotted()
                self.expect("sym", ";")
            elif tok == ("id", "import"):
                if self.peek()[0] == "id":
                    self.next()
                f["imports"].append(self.expect("str").strip('"'))
                self.expect("sym", ";")
            elif tok == ("id", "option"):
                if self.peek() == ("sym", "("):
                    self.next()
                    self.dotted()
                    self.expect("sym", ")")
                else:
                    self.dotted()
                self.expect("sym", "=")
                self.next()
                self.expect("sym", ";")
            elif tok == ("id", "message"):
                f["items"].append(self.message())
            elif tok == ("id", "enum"):
                f["items"].append(self.enum())
            elif tok == ("sym", ";"):
                pass
            else:
                raise ProtoError("unexpected top-level token %r" % (tok,))
        return f


def parse(text):
    return Parser(text).file()


def symbols(f, table):
    """Adds the fully qualified names of the messages and enums of file f to table."""
    def walk(items, scope):
        for it in items:
            if it["kind"] == "message":
                fq = scope + "." + it["name"] if scope else it["name"]
                table[fq] = "message"
                walk(it["body"], fq)
            elif it["kind"] == "enum":
                fq = scope + "." + it["name"] if scope else it["name"]
                table[fq] = "enum"
    walk(f["items"], f["package"])


def resolves(typ, scope, table):
    if typ in SCALARS:
        return True
    if typ.startswith("map<"):
        k, v = typ[4:-1].split(",")
        return k in SCALARS and resolves(v, scope, table)
    if typ.startswith("."):
        return typ[1:] in table
    parts = scope.split(".") if scope else []
    for n in range(len(parts), -1, -1):
        cand = ".".join(parts[:n] + [typ])
        if cand in table:
            return True
    return False


def check_file(f, table, path, report):
    """proto3 well-formedness of one parsed file. report(conjunct, detail, **sig)."""
    if f["syntax"] != "proto3":
        report("syntax", "%s: syntax is %r" % (path, f["syntax"]))

    def check_enum(e, scope, sibling_values):
        nums, names = {}, {}
        if not e["values"]:
            report("enum-empty", "%s: enum %s.%s has no values" % (path, scope, e["name"]))
            return
        if e["values"][0]["number"] != 0:
            report("enum-first-not-zero", "%s: the first value of enum %s.%s is %d (proto3 requires 0)" % (path, scope, e["name"], e["values"][0]["number"]))
        for v in e["values"]:
            if not IDENT.match(v["name"]):
                report("bad-identifier", "%s: enum value name %r" % (path, v["name"]))
            if v["number"] in nums:
                report("enum-number-duplicate", "%s: enum %s.%s: values %s and %s share the number %d" % (path, scope, e["name"], nums[v["number"]], v["name"], v["number"]))
            nums[v["number"]] = v["name"]
            if v["name"] in names:
                report("enum-name-duplicate", "%s: enum %s.%s: value name %s appears twice" % (path, scope, e["name"], v["name"]))
            names[v["name"]] = True
            # enum values live in the scope that encloses the enum (C++ scoping rule of protobuf)
            if v["name"] in sibling_values and sibling_values[v["name"]] != e["name"]:
                report("enum-value-scope-clash", "%s: enum value name %s is used by the sibling enums %s and %s in scope %s" % (path, v["name"], sibling_values[v["name"]], e["name"], scope))
            sibling_values[v["name"]] = e["name"]
            if not (-(1 << 31) <= v["number"] < (1 << 31)):
                report("enum-number-range", "%s: enum value %s = %d" % (path, v["name"], v["number"]))

    def check_message(m, scope):
        fq = scope + "." + m["name"] if scope else m["name"]
        if not IDENT.match(m["name"]):
            report("bad-identifier", "%s: message name %r" % (path, m["name"]))
        fields = []
        nested = {}
        sibling_values = {}
        for it in m["body"]:
            if it["kind"] == "field":
                fields.append(it)
            elif it["kind"] == "oneof":
                fields.extend(it["fields"])
                fields.append(dict(kind="oneofname", name=it["name"]))
            elif it["kind"] == "message":
                if it["name"] in nested:
                    report("nested-name-duplicate", "%s: message %s declares %s twice" % (path, fq, it["name"]))
                nested[it["name"]] = True
                check_message(it, fq)
            elif it["kind"] == "enum":
                if it["name"] in nested:
                    report("nested-name-duplicate", "%s: message %s declares %s twice" % (path, fq, it["name"]))
                nested[it["name"]] = True
                check_enum(it, fq, sibling_values)
        names, nums = {}, {}
        for fd in fields:
            if fd["name"] in names:
                report("field-name-duplicate", "%s: message %s has two fields named %s" % (path, fq, fd["name"]))
            names[fd["name"]] = True
            if not IDENT.match(fd["name"]):
                report("bad-identifier", "%s: field name %r in %s" % (path, fd["name"], fq))
            if fd["kind"] != "field":
                continue
            n = fd["number"]
            if n in nums:
                report("field-number-duplicate", "%s: message %s: fields %s and %s share the number %d" % (path, fq, nums[n], fd["name"], n), schemapaths="%s|%s" % (nums.get(("sp", n), ""), fd["options"].get("(yext.schemapath)", "")))
            nums[n] = fd["name"]
            nums[("sp", n)] = fd["options"].get("(yext.schemapath)", "")
            if n < 1 or n > MAX_TAG:
                report("field-number-range", "%s: message %s: field %s has the number %d (valid: 1..2^29-1)" % (path, fq, fd["name"], n), number=str(n))
            elif 19000 <= n <= 19999:
                report("field-number-reserved", "%s: message %s: field %s has the number %d, inside the range 19000-19999 reserved by protobuf" % (path, fq, fd["name"], n))
            if not resolves(fd["type"], fq, table):
                report("type-unresolved", "%s: message %s: field %s has type %s, which is not defined in the generated files" % (path, fq, fd["name"], fd["type"]))

    top = {}
    sib = {}
    for it in f["items"]:
        if it["name"] in top:
            report("top-name-duplicate", "%s: %s is declared twice" % (path, it["name"]),
                   name_class="leaflist-union-message" if it["kind"] == "message" and it["name"].endswith("Union") else it["kind"])
        top[it["name"]] = True
        if it["kind"] == "message":
            check_message(it, f["package"])
        else:
            check_enum(it, f["package"], sib)


def fields_by_schemapath(f):
    """(message fq name, field name, number, schemapath annotation) for every annotated field."""
    out = []

    def walk(items, scope):
        for it in items:
            if it["kind"] != "message":
                continue
            fq = scope + "." + it["name"] if scope else it["name"]
            for b in it["body"]:
                fs = [b] if b["kind"] == "field" else (b["fields"] if b["kind"] == "oneof" else [])
                for fd in fs:
                    out.append((fq, fd["name"], fd["number"], fd["options"].get("(yext.schemapath)", "").strip('"'), fd["type"]))
            walk(it["body"], fq)
    walk(f["items"], f["package"])
    return out
