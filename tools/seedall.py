#!/usr/bin/env python3
"""Runs every seeded change under seeded/ against the quick check of its property (in a scratch
worktree, never in /repo) and reports which are detected. usage: seedall.py [parallel] [ids...]"""
import json, os, subprocess, sys, glob
from concurrent.futures import ThreadPoolExecutor
V = os.path.dirname(os.path.dirname(os.path.abspath(__file__)))
par = int(sys.argv[1]) if len(sys.argv) > 1 else 4
only = set(sys.argv[2:])
seeds = sorted(os.path.basename(d) for d in glob.glob(os.path.join(V, "seeded", "C*-*")) if os.path.exists(os.path.join(d, "patch.diff")))
if only:
    seeds = [s for s in seeds if s in only or s.split("-")[0] in only]
def run(s):
    prop = s.split("-")[0]
    try:
        # a change that breaks one property may be caught by the check of another one (meta.json "check")
        prop = json.load(open(os.path.join(V, "seeded", s, "meta.json"))).get("check", prop)
    except Exception:
        pass
    p = subprocess.run(["bash", os.path.join(V, "tools", "seedrun.sh"), os.path.join(V, "seeded", s), prop, "quick"], stdout=subprocess.PIPE, stderr=subprocess.STDOUT, text=True, errors="replace", env=dict(os.environ, SEED_LINES="400"))
    out = p.stdout
    det = ("VIOLATION property=%s" % prop) in out and "exit 1" in out
    infra = "INFRA" in out or "exit 2" in out
    return s, det, infra, [l for l in out.splitlines() if l.startswith("  ")][:1]
res = {}
with ThreadPoolExecutor(par) as ex:
    for s, det, infra, first in ex.map(run, seeds):
        res[s] = det
        print("%s %s%s %s" % (s, "DETECTED" if det else "MISSED", " (infra)" if infra and not det else "", (first[0][:140] if first else "")), flush=True)
print("detected %d of %d" % (sum(res.values()), len(res)))
