#!/usr/bin/env python3
"""MANIFEST.setup_cmd: offline set-up after a fresh restore. Builds the harness and the generator
once (warming the Go build cache), parses every specification and runs a TLC smoke model."""
import os, shutil, subprocess, sys, glob
sys.path.insert(0, os.path.dirname(os.path.abspath(__file__)))
import vf

def main():
    work = vf.workdir("setup")
    try:
        vf.prepare(work, ["us", "uw", "cs", "cw", "co"])
        d = os.path.join(work, "sany")
        os.makedirs(d)
        for f in glob.glob(os.path.join(vf.SPEC, "*.tla")):
            shutil.copy(f, d)
        bad = 0
        for f in sorted(glob.glob(os.path.join(d, "*.tla"))):
            p = subprocess.run(["timeout", "120", "tla-sany", os.path.basename(f)], cwd=d, stdout=subprocess.PIPE, stderr=subprocess.STDOUT, text=True)
            if p.returncode != 0 or "Semantic errors" in p.stdout or "*** Errors" in p.stdout:
                print("SANY failed on", f); print(p.stdout[-2000:]); bad += 1
        r = vf.run_tlc(work, "MC_TreeA", "MC_TreeA.cfg", tag="smoke", timeout=120)
        print("TLC smoke:", r["distinct"], "states")
        return 1 if bad else 0
    finally:
        shutil.rmtree(work, ignore_errors=True)

if __name__ == "__main__":
    try:
        sys.exit(main())
    except vf.Infra as e:
        print("setup failed:", e); sys.exit(2)
