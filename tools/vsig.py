#!/usr/bin/env python3
"""Summarises the replay files of a property by signature (for triage)."""
import json, glob, sys, collections
prop = sys.argv[1]
c = collections.Counter()
ex = {}
for f in glob.glob("/verif/evidence/replay/%s-*.json" % prop):
    v = json.load(open(f))
    k = json.dumps({a: b for a, b in v["sig"].items() if a not in ("shape", "beh", "flags")}, sort_keys=True)
    c[k] += 1
    ex.setdefault(k, v["detail"][:int(sys.argv[2]) if len(sys.argv) > 2 else 300])
for k, n in c.most_common():
    print(n, k)
    print("    ", ex[k])
