#!/bin/bash
# seedverify.sh <dir with patch.diff + demo/ (README.txt, *_test.go)> <demo target path in repo> <go test args...>
# Verifies a seeded change in a scratch worktree of /repo's HEAD: applies, builds, runs the
# repository's baseline tests, runs the demonstration with and without the change.
set -u
D=$1; TARGET=$2; shift 2
WT=$(mktemp -d /tmp/seedv.XXXXXX)
git -C /repo worktree add --detach "$WT" HEAD >/dev/null 2>&1 || { echo "worktree failed"; exit 2; }
cleanup() { git -C /repo worktree remove --force "$WT" >/dev/null 2>&1; rm -rf "$WT"; }
trap cleanup EXIT
cd "$WT"
export GOFLAGS=-mod=readonly GOPROXY=off
PKGS="./demo/protobuf_getting_started ./generator ./genutil ./gnmidiff/gnmiparse ./gogen ./gogen/internal/gotypes ./integration_tests ./integration_tests/schemaops ./internal/yreflect ./protogen ./protomap ./protomap/integration_tests ./testutil ./util ./yangschema ./ygen ./ygot ./ygot/pathtranslate ./ypathgen ./ytypes"
git apply --3way "$D/patch.diff" 2>/dev/null || git apply "$D/patch.diff" || { echo "RESULT patch does not apply"; exit 1; }
if go test -vet=off -count=1 $PKGS > "$WT/.tests.log" 2>&1; then echo "RESULT tests-pass-with-patch"; else echo "RESULT tests-FAIL-with-patch"; grep -v "^ok" "$WT/.tests.log" | tail -20; fi
rundemo() {
  if [ -f "$D/demo/run.sh" ]; then sh "$D/demo/run.sh" "$WT"; else go test -vet=off -count=1 "$@" "./$TARGET"; fi
}
if [ ! -f "$D/demo/run.sh" ]; then mkdir -p "$TARGET"; for f in "$D"/demo/*.go; do cp "$f" "$TARGET/"; done; fi
if rundemo "$@" > "$WT/.demo1.log" 2>&1; then echo "RESULT demo-PASSES-with-patch (bad)"; else echo "RESULT demo-fails-with-patch"; grep -E "^(---|FAIL|panic)" "$WT/.demo1.log" | head -5; fi
git reset -q --hard 2>/dev/null
git status --short | grep -v "^??" | head -3
if rundemo "$@" > "$WT/.demo2.log" 2>&1; then echo "RESULT demo-passes-without-patch"; else echo "RESULT demo-FAILS-without-patch (bad)"; tail -20 "$WT/.demo2.log"; fi
