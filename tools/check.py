#!/usr/bin/env python3
"""Entry point of every check: python3 tools/check.py <property id> --tier quick|thorough

Exit codes: 0 = the property held on everything explored (KNOWN-FINDING lines possible),
1 = at least one violation not listed in known_findings.jsonl (VIOLATION lines),
2 = infrastructure / specification error (nothing is claimed)."""
import argparse, json, os, re, shutil, sys, time, traceback

sys.path.insert(0, os.path.dirname(os.path.abspath(__file__)))
import vf
from vf import Infra, log

TREE_CFG = """SPECIFICATION Spec
CONSTANTS
  Vals = {%(vals)s}
  KeyAtoms = {%(keys)s}
  MKeyAtoms = {%(mkeys)s}
  Enabled <- %(enabled)s
VIEW View
CONSTRAINT Expand
"""


def q(xs):
    return ", ".join('"%s"' % x for x in xs)


def tree_models(tier):
    """(name, module, constants) of the TreeMachine slices explored per tier."""
    two = dict(vals=q(["v1", "v2"]), keys=q(["K1", "K2"]), mkeys="")
    ms = [("A", dict(two, enabled="EnabledA")), ("B", dict(two, enabled="EnabledB")),
          ("M", dict(two, enabled="EnabledM", mkeys=q(["K1.K1", "K1.K2", "K2.K1"]))),
          ("O", dict(two, enabled="EnabledO"))]
    return ms


def run_replay(bindir, h, sub, args, work, tag):
    out = os.path.join(work, "result-%s.json" % tag)
    cmd = [os.path.join(bindir, "replay"), sub, "-out", out, "-corpus", os.path.join(vf.SCHEMAS, "variants.json")] + args
    p = vf.subprocess.run(cmd, cwd=h, stdout=vf.subprocess.PIPE, stderr=vf.subprocess.STDOUT, text=True)
    if not os.path.exists(out):
        raise Infra("replay %s produced no result (exit %d):\n%s" % (sub, p.returncode, p.stdout[-3000:]))
    r = json.load(open(out))
    if r.get("infra"):
        raise Infra("replay %s: %s" % (sub, "; ".join(r["infra"][:5])))
    if p.returncode not in (0, 1):
        raise Infra("replay %s exit %d:\n%s" % (sub, p.returncode, p.stdout[-3000:]))
    return r


def merge_results(rs):
    tot = dict(evaluated=0, skipped=0, distinct=0, violations=[], drift=[], samples=[], counters={})
    for r in rs:
        tot["evaluated"] += r.get("evaluated", 0)
        tot["skipped"] += r.get("skipped", 0)
        tot["distinct"] += r.get("distinct", 0)
        tot["violations"] += r.get("violations") or []
        for d in r.get("drift") or []:
            if d not in tot["drift"]:
                tot["drift"].append(d)
        tot["samples"] += (r.get("samples") or [])[:2]
        for k, v in (r.get("counters") or {}).items():
            tot["counters"][k] = tot["counters"].get(k, 0) + v
    return tot


def check_tree(prop, tier, seed, work, ops, props_in_model):
    """C10 / C12: TreeMachine slices; every transition of the bounded model is replayed on the
    real SetNode/DeleteNode/GetNode, plus random walks through the state graph."""
    cfgs = ["us", "cw"] if tier == "quick" else ["us", "uw", "cs", "cw", "co"]
    h, bindir = vf.prepare(work, cfgs)
    states = trans = 0
    results = []
    for name, consts in tree_models(tier):
        base = TREE_CFG % consts
        # one run: TLC checks the model-level properties and emits every transition
        mc = vf.run_tlc(work, "MC_TreeA", base + "INVARIANT TypeOK\n" + "".join("PROPERTY %s\n" % p for p in props_in_model)
                        + "ACTION_CONSTRAINT Emit\n", tag="mc" + name)
        em = mc
        states += mc["distinct"]
        trans += mc["states"]
        args = ["-in", em["out"], "-ops", ops, "-seed", str(seed), "-prop", prop, "-pkgs", ",".join(cfgs)]
        if tier == "quick":
            args += ["-limit", "3", "-walks", "20", "-walklen", "15"]
        else:
            args += ["-walks", "200", "-walklen", "30"]
        r = run_replay(bindir, h, "tree", args, work, name)
        if r["evaluated"] == 0:
            raise Infra("replay of slice %s evaluated nothing" % name)
        results.append(r)
    ext = {}
    if prop == "C10":
        # extension beyond the listed properties: the query semantics of GetNode with wildcard keys
        # (TreeLaws.tla Match / QueryLaws); disagreements are drift notes, not violations of C10
        two = dict(vals=q(["v1", "v2"]), keys=q(["K1", "K2"]), mkeys="")
        for name, consts in (("A", dict(two, enabled="EnabledA")), ("M", dict(two, enabled="EnabledM", mkeys=q(["K1.K1", "K1.K2", "K2.K1"])))):
            t = vf.run_tlc(work, "MC_TreeLaws", LAWS_CFG % consts + "INVARIANT QueryLaws\nCONSTRAINT EmitTreeQ\n", tag="query" + name, timeout=3000)
            states += t["distinct"]; trans += t["states"]
            r = run_replay(bindir, h, "trees", ["-in", t["out"], "-modes", "query,ptrans", "-seed", str(seed), "-prop", "C10", "-pkgs", ",".join(cfgs)] + (["-limit", "4"] if tier == "quick" else []), work, "query" + name)
            results.append(r)
            for k, v in (r.get("counters") or {}).items():
                if k.startswith("queries") or k.startswith("ptrans"):
                    ext[k] = ext.get(k, 0) + v
        # extension: GetOrCreateNode as an action of the TreeMachine (GOCLaws), replayed like the others
        for name, consts in (("A", dict(two, enabled="EnabledA")), ("B", dict(two, enabled="EnabledB"))):
            t = vf.run_tlc(work, "MC_TreeA", TREE_CFG % consts + "CONSTANT\n  WithGOC <- MCWithGOC\n" +
                           "INVARIANT TypeOK\nPROPERTY GOCLaws\nACTION_CONSTRAINT Emit\n", tag="goc" + name, timeout=3000)
            states += t["distinct"]; trans += t["states"]
            r = run_replay(bindir, h, "tree", ["-in", t["out"], "-ops", "goc", "-seed", str(seed), "-prop", "C10", "-pkgs", ",".join(cfgs), "-walks", "0"] + (["-limit", "3"] if tier == "quick" else []), work, "goc" + name)
            results.append(r)
            for k, v in (r.get("counters") or {}).items():
                if k.startswith("goc"):
                    ext[k] = ext.get(k, 0) + v
    tot = merge_results(results)
    for d in tot["drift"][:20]:
        log("SPEC-DRIFT:", d)
    cov = dict(states=states, transitions=trans, traces_validated_against_impl=tot["evaluated"],
               samples=tot["samples"][:4], exhaustive=(tier == "thorough"), skipped_unconcretisable=tot["skipped"],
               distinct_edges=tot["distinct"], counters=tot["counters"], configurations=cfgs,
               spec_drift=tot["drift"][:20], extensions_beyond_listed_properties=ext,
               explanation="TLC explores every reachable state and transition of the TreeMachine slices A (keyed list, nested "
                           "container), B (leaf-list, presence container, ordered list) and M (two-key list) and checks the "
                           "declarative frame/removal properties on the operational model; every emitted transition is then "
                           "executed on the real API for the corpus variants (all key/leaf types) and the projected result compared.")
    return cov, tot["violations"]


GNMI_CFG = """SPECIFICATION Spec
CONSTANTS
  Vals = {%(vals)s}
  KeyAtoms = {%(keys)s}
  MKeyAtoms = {%(mkeys)s}
  Enabled <- %(enabled)s
  MaxOps = %(maxops)s
  MaxDocLeaves = %(maxdoc)s
VIEW View
CONSTRAINT KeyLeavesSet
CHECK_DEADLOCK FALSE
"""


def check_gnmiset(prop, tier, seed, work, modes, model_props):
    """C13 / C31: GnmiSet model (requests executed operation by operation vs the reference
    semantics on path->value maps); every completed request is replayed on the real
    UnmarshalSetRequest / Unmarshal."""
    cfgs = ["us", "cw"] if tier == "quick" else ["us", "uw", "cs", "cw", "co"]
    h, bindir = vf.prepare(work, cfgs)
    states = trans = 0
    sim_requests = 0
    results = []
    for name, consts in tree_models(tier):
        consts = dict(consts, maxops=1, maxdoc=2)
        base = GNMI_CFG % consts
        mc = vf.run_tlc(work, "MC_GnmiSet", base + "INVARIANT TypeOK\n" + "".join("PROPERTY %s\n" % p for p in model_props)
                        + "ACTION_CONSTRAINT Emit\n", tag="mc" + name, timeout=3000)
        em = mc
        states += mc["distinct"]
        trans += mc["states"]
        args = ["-in", em["out"], "-modes", modes, "-seed", str(seed), "-prop", prop, "-pkgs", ",".join(cfgs)]
        if tier == "quick":
            args += ["-limit", "6"]
        r = run_replay(bindir, h, "setreq", args, work, name)
        if r["evaluated"] == 0:
            raise Infra("replay of slice %s evaluated nothing" % name)
        results.append(r)
        if prop == "C13":
            # extension beyond the listed properties: BestEffortUnmarshal with one operation that cannot
            # be applied (drift notes only); a thinner sample of the same requests
            xargs = ["-in", em["out"], "-modes", "setreq-besteffort", "-seed", str(seed), "-prop", prop, "-pkgs", ",".join(cfgs), "-limit", "30" if tier == "quick" else "5"]
            results.append(run_replay(bindir, h, "setreq", xargs, work, "be" + name))
        if prop == "C13":
            # multi-operation requests and histories of requests: random behaviours of the same
            # machine with the request assembled operation by operation (SpecB), MaxOps = 3
            simcfg = (GNMI_CFG % dict(consts, maxops=3)).replace("SPECIFICATION Spec", "SPECIFICATION SpecB")
            simcfg = "\n".join(l for l in simcfg.splitlines() if not l.startswith("VIEW")) + "\n"
            num = 150 if tier == "quick" else 1500
            sm = vf.run_tlc(work, "MC_GnmiSet", simcfg + "INVARIANT TypeOK\nPROPERTY SetSemantics\nACTION_CONSTRAINT Emit\n",
                            tag="sim" + name, workers=1, timeout=3000, simulate="num=%d" % num, extra=("-depth", "40", "-seed", str(seed)))
            sargs = ["-in", sm["out"], "-modes", modes, "-seed", str(seed), "-prop", prop, "-pkgs", ",".join(cfgs)]
            if tier == "quick":
                sargs += ["-limit", "4"]
            r2 = run_replay(bindir, h, "setreq", sargs, work, "sim" + name)
            if r2["evaluated"] == 0:
                raise Infra("replay of simulated requests of slice %s evaluated nothing" % name)
            r2["counters"] = {"sim_" + k: v for k, v in (r2.get("counters") or {}).items()}
            sim_requests += r2.get("distinct", 0)
            results.append(r2)
    tot = merge_results(results)
    for d in tot["drift"][:20]:
        log("SPEC-DRIFT:", d)
    cov = dict(states=states, transitions=trans, traces_validated_against_impl=tot["evaluated"],
               samples=tot["samples"][:4], exhaustive=(tier == "thorough"), skipped_unconcretisable=tot["skipped"],
               simulated_multi_op_requests=sim_requests,
               distinct_requests=tot["distinct"], counters=tot["counters"], configurations=cfgs, spec_drift=tot["drift"][:20],
               explanation="TLC executes every single-operation SetRequest and every update-less atomic Notification (delete / replace / update of leaf, leaf-list, container, "
                           "list entry, whole list, variant root; scalar, leaf-list and JSON payloads assigning up to 2 leaves) "
                           "from every reachable tree of slices A, B and M, operation by operation, and checks the result against "
                           "the reference semantics on the path->value map; each completed request is replayed on the real code. For C13, "
                           "requests of up to 3 operations (overlapping replaces and updates, atomic notifications with updates) and histories "
                           "of such requests are drawn by tlc -simulate from the same machine with the request assembled operation by operation.")
    return cov, tot["violations"]


LAWS_CFG = """SPECIFICATION Spec
CONSTANTS
  Vals = {%(vals)s}
  KeyAtoms = {%(keys)s}
  MKeyAtoms = {%(mkeys)s}
  Enabled <- %(enabled)s
"""


def check_treelaws(prop, tier, seed, work, modes, invariants, also=(), explain="", quick_cfgs=None):
    """C01/C19/C02/C14/C04: every well-formed tree of the slices is an initial state of TreeLaws;
    TLC checks the law on the model, each tree is replayed on the real code."""
    cfgs = (quick_cfgs or ["us", "cw"]) if tier == "quick" else ["us", "uw", "cs", "cw", "co"]
    h, bindir = vf.prepare(work, cfgs)
    states = trans = 0
    results = []
    for name, consts in tree_models(tier):
        base = LAWS_CFG % consts
        mc = vf.run_tlc(work, "MC_TreeLaws", base + "".join("INVARIANT %s\n" % p for p in invariants) + "CONSTRAINT EmitTree\n",
                        tag="laws" + name)
        states += mc["distinct"]
        trans += mc["states"]
        args = ["-in", mc["out"], "-modes", modes, "-seed", str(seed), "-prop", prop, "-pkgs", ",".join(cfgs)]
        if tier == "quick":
            args += ["-limit", "2"]
        r = run_replay(bindir, h, "trees", args, work, name)
        if r["evaluated"] == 0:
            raise Infra("replay of slice %s evaluated nothing" % name)
        results.append(r)
    tot = merge_results(results)
    for d in tot["drift"][:20]:
        log("SPEC-DRIFT:", d)
    cov = dict(states=states, transitions=trans, traces_validated_against_impl=tot["evaluated"],
               samples=tot["samples"][:4], exhaustive=True, skipped_unconcretisable=tot["skipped"],
               distinct_trees=tot["distinct"], counters=tot["counters"], configurations=cfgs, spec_drift=tot["drift"][:20],
               explanation=explain or "every well-formed tree of slices A, B and M (2 values, 2 keys per list) is an initial state; TLC checks "
               "the law on the abstract operators, and each tree is built as a GoStruct for every corpus variant and run through the real code")
    return cov, tot["violations"]


PAIR_CFG = """SPECIFICATION PSpec
CONSTANTS
  Vals = {%(vals)s}
  KeyAtoms = {%(keys)s}
  MKeyAtoms = {%(mkeys)s}
  Enabled <- %(enabled)s
"""


def check_pairs(prop, tier, seed, work, modes, invariants, also=()):
    """C03 / C05 (and the MergeStructs half of C04): every ordered pair of trees of the small
    slices P, Q (and R in the thorough tier) is an initial state of PairLaws."""
    cfgs = (["us", "cw", "cs"] if prop == "C03" else ["us", "cw"]) if tier == "quick" else ["us", "uw", "cs", "cw", "co"]
    h, bindir = vf.prepare(work, cfgs)
    two = dict(vals=q(["v1", "v2"]), keys=q(["K1", "K2"]), mkeys="")
    slices = [("P", dict(two, enabled="EnabledP")), ("Q", dict(two, enabled="EnabledQ"))]
    slices.append(("R", dict(two, enabled="EnabledR", mkeys=q(["K1.K1", "K2.K1"]))))
    states = trans = 0
    results = []
    for name, consts in slices:
        mc = vf.run_tlc(work, "MC_PairLaws", PAIR_CFG % consts + "".join("INVARIANT %s\n" % p for p in invariants)
                        + "CONSTRAINT EmitPair\n", tag="pairs" + name, timeout=3000)
        states += mc["distinct"]
        trans += mc["states"]
        args = ["-in", mc["out"], "-modes", modes, "-seed", str(seed), "-prop", prop, "-pkgs", ",".join(cfgs)]
        if tier == "quick":
            args += ["-limit", {"P": "2", "Q": "5", "R": "9"}[name]]
        r = run_replay(bindir, h, "pairs", args, work, name)
        if r["evaluated"] == 0:
            raise Infra("replay of slice %s evaluated nothing" % name)
        results.append(r)
    tot = merge_results(results)
    cov = dict(states=states, transitions=trans, traces_validated_against_impl=tot["evaluated"],
               samples=tot["samples"][:4], exhaustive=(tier == "thorough"), skipped_unconcretisable=tot["skipped"],
               distinct_pairs=tot["distinct"], counters=tot["counters"], configurations=cfgs,
               explanation="every ordered pair (a, b) of well-formed trees of slice P (container leaf + keyed list, 64 trees) and "
               "slice Q (leaf-list + ordered list, 175 trees) is an initial state; TLC checks the declarative laws on the "
               "operational Diff/Merge models; each pair is built as two GoStructs per corpus variant and run through the real code")
    return cov, tot["violations"]


def check_c32(tier, seed, work):
    """C32: PruneCF of TreeLaws.tla on the slices with derived state: plain shape (config false
    container st, replayed on the uncompressed packages) and OpenConfig shape (state-only leaf
    c/s next to mirrored config/state leaves, replayed on the compressed packages incl.
    prefer_operational_state)."""
    ucfgs = ["us"] if tier == "quick" else ["us", "uw"]
    ccfgs = ["cs", "co"] if tier == "quick" else ["cs", "cw", "co"]
    h, bindir = vf.prepare(work, ucfgs + ccfgs)
    two = dict(vals=q(["v1", "v2"]), keys=q(["K1", "K2"]), mkeys="")
    states = trans = 0
    results = []
    # SOCT: the state-only leaf c/s of the even plain-shape variants, whose config false statement
    # sits on a choice around the leaf
    evenT = "t2,t4,t6,t8,t10"
    for name, enabled, cfgs, variants in (("ST", "EnabledST", ucfgs, None), ("SOC", "EnabledSOC", ccfgs, None), ("SOCT", "EnabledSOC", ucfgs, evenT)):
        mc = vf.run_tlc(work, "MC_TreeLaws", LAWS_CFG % dict(two, enabled=enabled) + "INVARIANT ConfigFalseLaws\nCONSTRAINT EmitTree\n", tag="pcf" + name)
        states += mc["distinct"]
        trans += mc["states"]
        args = ["-in", mc["out"], "-modes", "c32", "-seed", str(seed), "-prop", "C32", "-pkgs", ",".join(cfgs)]
        if variants:
            args += ["-variants", variants]
        if tier == "quick":
            args += ["-limit", "3"]
        r = run_replay(bindir, h, "trees", args, work, name)
        if r["evaluated"] == 0:
            raise Infra("replay of slice %s evaluated nothing" % name)
        results.append(r)
    tot = merge_results(results)
    for d in tot["drift"][:10]:
        log("SPEC-DRIFT:", d)
    cov = dict(states=states, transitions=trans, traces_validated_against_impl=tot["evaluated"], samples=tot["samples"][:3] or [dict(note="see counters")],
               exhaustive=(tier == "thorough"), counters=tot["counters"], configurations=ucfgs + ccfgs, spec_drift=tot["drift"][:10],
               explanation="every well-formed tree of slice ST (config leaves, leaf-list, keyed list and the config false container st with its "
               "leaf; the harness adds two elements of the unkeyed state list st/ul) on the uncompressed packages, and of slice SOC (config "
               "leaves mirrored in state, nested list containers, the state-only leaf c/s) on the compressed packages including "
               "prefer_operational_state, where every field is read from a config false path yet must be kept; slice SOC again on the "
               "uncompressed packages for the even plain-shape variants, where c/s inherits config false from a choice")
    return cov, tot["violations"]


def check_c04(tier, seed, work):
    """C04: HeapModel (disjoint cells <=> mutations invisible), then DeepCopy on every tree of the
    TreeLaws slices and MergeStructs on every pair of the PairLaws slices: address walk over all
    mutable cells plus exhaustive in-place mutation of one side."""
    hm = vf.run_tlc(work, "MC_Heap", "MC_Heap.cfg", tag="heap")
    hd = vf.run_tlc(work, "MC_Heap", "MC_HeapDeviant.cfg", tag="heapdev")
    cov1, v1 = check_treelaws("C04", tier, seed, work, "c04", ["RoundTrip7951"])
    import shutil as _sh
    _sh.rmtree(os.path.join(work, "h"), ignore_errors=True)
    cov2, v2 = check_pairs("C04", tier, seed, work, "c05", ["MergeLaws"])
    cov = dict(cov1)
    cov["states"] = cov1["states"] + cov2["states"] + hm["distinct"] + hd["distinct"]
    cov["transitions"] = cov1["transitions"] + cov2["transitions"] + hm["states"] + hd["states"]
    cov["traces_validated_against_impl"] = cov1["traces_validated_against_impl"] + cov2["traces_validated_against_impl"]
    cov["samples"] = (cov1["samples"] + cov2["samples"])[:4]
    cov["counters"] = {"deepcopy": cov1["counters"], "merge": cov2["counters"]}
    cov["explanation"] = ("HeapModel.tla: TLC shows that with fresh cells every mutation of one tree is invisible in the other, and that any "
                          "shared cell makes some mutation visible. Real code: DeepCopy of every tree of slices A, B, M, O and MergeStructs "
                          "of every pair of slices P, Q, R; all reachable mutable addresses of result and inputs must be disjoint, and after "
                          "mutating every cell of one side the projection of the other must be unchanged")
    return cov, v1 + v2


HELPER_CFG = """SPECIFICATION Spec
CONSTANTS
  Keys = {%(keys)s}
  Pays = {"v1", "v2"}
VIEW View
INVARIANT TypeOK
INVARIANT Consistent
INVARIANT Refines
%(extra)sPROPERTY CallLaws
ACTION_CONSTRAINT Emit
"""

HELPER_TRACE_CFG = """SPECIFICATION TraceSpec
CONSTANTS
  Keys = {"K1", "K2", "K3", "K1.K1", "K1.K2", "K2.K1"}
  Pays = {"v1", "v2"}
POSTCONDITION TraceAccepted
CHECK_DEADLOCK FALSE
"""


def check_helpers(prop, tier, seed, work, kind):
    """C15 / C34: the OrderedMap / KeyedList state machines. TLC checks the implementation-shaped
    model against the reference map and emits its complete state graph; every path of bounded
    length is executed on the generated helpers of every list of the corpus (spec -> code), and
    traces of a model-independent random driver are validated by TLC (code -> spec)."""
    cfgs = ["us", "cw"] if tier == "quick" else ["us", "uw", "cs", "cw", "co"]
    h, bindir = vf.prepare(work, cfgs)
    module = "OrderedMap" if kind == "omap" else "KeyedList"
    extra = "INVARIANT RefUnique\n" if kind == "omap" else ""
    states = trans = 0
    results = []
    rejections = []
    ntr = nev = 0
    for name, keys in (("single", ["K1", "K2", "K3"]), ("multi", ["K1.K1", "K1.K2", "K2.K1"])):
        mc = vf.run_tlc(work, module, HELPER_CFG % dict(keys=q(keys), extra=extra), tag="mc" + name, workers=1, timeout=3000)
        states += mc["distinct"]
        trans += mc["states"]
        rec = os.path.join(work, "trace-%s.ndjson" % name)
        depth = {"quick": 3, "thorough": 4}[tier]
        args = ["-kind", kind, "-in", mc["out"], "-seed", str(seed), "-prop", prop, "-pkgs", ",".join(cfgs), "-depth", str(depth),
                "-walks", "10" if tier == "quick" else "100", "-walklen", "30", "-record", rec,
                "-traces", "4" if tier == "quick" else "20"]
        if tier == "quick":
            args += ["-limit", "2"]
        if kind == "klist" and name == "multi":
            args += ["-lists", "m,n"]    # n: key statement "y x" (not in lexical order), both keys of one type
        r = run_replay(bindir, h, "helpers", args, work, name)
        if r["evaluated"] == 0:
            raise Infra("replay of %s/%s evaluated nothing" % (kind, name))
        results.append(r)
        n, ev, rej = vf.validate_traces(work, "TraceOrderedMap" if kind == "omap" else "TraceKeyedList", HELPER_TRACE_CFG, rec, "tv" + name)
        ntr += n
        nev += ev
        rejections += rej
    tot = merge_results(results)
    violations = tot["violations"]
    for rj in rejections:
        ev = rj["event"]
        sig = dict(rj["meta"])
        sig.pop("pkg", None); sig.pop("variant", None)
        sig.update(conjunct="trace-rejected", op=ev["op"])
        if ev.get("k") == "nil":
            sig["nilkey"] = "true"
        violations.append(dict(property=prop, sig=sig,
                               detail="[%s/%s %s] TLC rejects recorded event %d of a random-driver trace: %s" % (
                                   rj["meta"].get("pkg"), rj["meta"].get("variant"), rj["meta"].get("list"), rj["index"], json.dumps(ev)),
                               case=dict(sub="trace", kind=kind, trace=rj["trace"])))
    for d in tot["drift"][:20]:
        log("SPEC-DRIFT:", d)
    cov = dict(states=states, transitions=trans, traces_validated_against_impl=tot["evaluated"] + nev,
               samples=tot["samples"][:4] or [dict(note="paths are enumerated from the emitted graph; see counters")],
               exhaustive=True, path_length_bound=depth, counters=tot["counters"], configurations=cfgs,
               recorded_traces=ntr, recorded_events_accepted=nev, recorded_traces_rejected=len(rejections), spec_drift=tot["drift"][:20],
               explanation="TLC checks %s.tla (implementation-shaped keys/valueMap state against the reference map, every call law) "
               "for 3 single keys and 3 two-part keys and emits the complete state graph; all call sequences of length <= %d over the "
               "mutating calls are executed on the generated helpers of the corpus lists (every key type), with every read-only call "
               "executed and checked in every state reached, return values and internal state compared after every call%s; "
               "random-driver traces of the real code are validated by TLC against Trace%s.tla." % (
                   module, depth, "; list order re-checked after JSON, gNMI and DeepCopy round trips" if kind == "omap" else "", module))
    return cov, violations


PATHSTR_CFG = """SPECIFICATION Spec
CONSTANTS
  Sigma <- MCSigma
  Names <- MCNames
  KeyNames <- MCKeyNames
  MaxLen1 = %d
  MaxLen2 = 1
INVARIANT RefRoundTrip
INVARIANT RefWellFormed
CONSTRAINT Emit
"""


def check_pathstr(tier, seed, work):
    """C08: PathStr.tla enumerates every path of the bounded universe (values over the escape
    alphabet); TLC checks that the documented grammar round-trips; each path goes through the
    real PathToString / StringToStructuredPath / string-slice functions."""
    h, bindir = vf.prepare(work, ["us"])
    mc = vf.run_tlc(work, "MC_PathStr", PATHSTR_CFG % (3 if tier == "quick" else 4), tag="pathstr", timeout=3000)
    r = run_replay(bindir, h, "pathstr", ["-in", mc["out"], "-prop", "C08"], work, "pathstr")
    if r["evaluated"] == 0:
        raise Infra("pathstr replay evaluated nothing")
    for d in (r.get("drift") or [])[:10]:
        log("SPEC-DRIFT:", d)
    cov = dict(states=mc["distinct"], transitions=mc["states"], traces_validated_against_impl=r["evaluated"],
               samples=[dict(path="/a[k=]/x]/m:a", note="key value ']/x' followed by a key-less element"),
                        dict(path="/m:a[k=a//.][k2=*]/a[k==]", note="two keys, values with '//', '.', '=', '*'")],
               exhaustive=True, counters=r.get("counters"), spec_drift=(r.get("drift") or [])[:20],
               alphabet=["a", "/", "[", "]", "=", "\\", " ", ".", "non-ASCII letter", "*", "%"],
               explanation="every single-key path with a value of length <= %d over the 11-character escape alphabet (alone and followed by a "
               "key-less element), and every two-element path with up to two keys and single-character values, is a case; TLC checks "
               "RefDec(RefEnc(p)) = p for the documented grammar; the harness checks StringToStructuredPath(PathToString(p)) = p, "
               "injectivity of PathToString over the whole enumeration, and the same law for the legacy string-slice form."
               % (3 if tier == "quick" else 4))
    return cov, r.get("violations") or []


PATHREL_CFG = """SPECIFICATION Spec
CONSTANTS
  Names = {"a", "b"}
  KVals = {"x", "y"}
  Keys1 = {%(k1)s}
  Keys2 = {%(k2)s}
  MaxLen = %(maxlen)d
  Origins <- MCOrigins
  Mode = "%(mode)s"
INVARIANT AlgorithmMatchesDenotation
INVARIANT SwapSymmetry
INVARIANT HelperLaws
INVARIANT QueryLaws
CONSTRAINT Emit
CHECK_DEADLOCK FALSE
"""


def check_pathrel(tier, seed, work):
    """C09: PathRel.tla -- every ordered pair of paths of the bounded universe; TLC checks that the
    compositional algorithm equals the denotational definition and emits the expected relation and
    helper-function answers; the harness runs the real util functions on every pair."""
    h, bindir = vf.prepare(work, ["us"])
    fams = [("pairs2", dict(k1=q(["k1", "k2"]), k2=q(["k1"]), maxlen=2, mode="pairs")),
            ("keys3", dict(k1=q(["k1", "k2", "k3"]), k2=q(["k1"]), maxlen=1, mode="pairs")),
            ("origins", dict(k1=q(["k1", "k2"]), k2=q(["k1"]), maxlen=1, mode="origins")),
            ("query", dict(k1=q(["k1", "k2"]), k2=q(["k1"]), maxlen=2, mode="query"))]
    if tier == "thorough":
        fams.append(("pairs2full", dict(k1=q(["k1", "k2"]), k2=q(["k1", "k2"]), maxlen=2, mode="pairs")))
        fams.append(("len3", dict(k1=q(["k1"]), k2=q(["k1"]), maxlen=3, mode="pairs")))
    states = trans = 0
    results = []
    for name, c in fams:
        mc = vf.run_tlc(work, "MC_PathRel", PATHREL_CFG % c, tag=name, timeout=2400)
        states += mc["distinct"]
        trans += mc["states"]
        r = run_replay(bindir, h, "pathrel", ["-in", mc["out"], "-prop", "C09"], work, name)
        if r["evaluated"] == 0:
            raise Infra("pathrel replay of %s evaluated nothing" % name)
        results.append(r)
    tot = merge_results(results)
    cov = dict(states=states, transitions=trans, traces_validated_against_impl=tot["evaluated"],
               samples=[dict(a="a[k1=x,k2=*]/a[k1=x]", b="a[k1=*,k2=x]/a[k1=y]", relation="Disjoint"),
                        dict(a="a[k1=*]", b="a[k1=x]/b[k1=y]", relation="Superset")],
               exhaustive=True, families=[f[0] for f in fams], counters=tot["counters"],
               explanation="names {a,b}, key values {x,y,*,absent}; all ordered pairs of paths of length <= 2 with two key names on "
               "the first element and one on the second (83 521 pairs), all pairs of single elements with three key names (16 641), "
               "and short paths under all origin pairs; thorough adds two key names on both elements (1.1M pairs) and length 3. TLC "
               "checks the ComparePaths-shaped algorithm against the set-of-concrete-paths definition on every pair; the harness "
               "checks ComparePaths (8 times per pair: map order), swap symmetry, PathMatchesQuery (concrete data paths), "
               "PathMatchesPathElemPrefix, TrimGNMIPathElemPrefix, FindPathElemPrefix, PathMatchesPrefix and JoinPaths. The query family runs "
               "every concrete data path against every query whose element names may be the wildcard '*' as well (25 625 pairs; "
               "QueryLaws: such a query denotes the union of its named instantiations).")
    return cov, tot["violations"]


RESTRICT_CFG = """SPECIFICATION Spec
CONSTANTS
  Mode = "%(mode)s"
  NPos = 8
  MaxParts = %(parts)d
  Depth = 2
  MaxS = 3
INVARIANT RangeLaws
INVARIANT PatternLaws
CONSTRAINT Emit
CHECK_DEADLOCK FALSE
"""


def check_restrict(tier, seed, work):
    """C06: Restrict.tla -- range/length restrictions over symbolic positions and regular
    expressions with their bounded languages; every case is replayed on the exported
    Validate*Restrictions functions for every base type."""
    h, bindir = vf.prepare(work, ["us"])
    parts = 2 if tier == "quick" else 3
    rr = vf.run_tlc(work, "Restrict", RESTRICT_CFG % dict(mode="range", parts=parts), tag="range", timeout=3000)
    rp = vf.run_tlc(work, "Restrict", RESTRICT_CFG % dict(mode="pattern", parts=parts), tag="pattern", timeout=3000)
    r = run_replay(bindir, h, "restrict", ["-in", rr["out"] + "," + rp["out"], "-prop", "C06"], work, "restrict")
    if r["evaluated"] == 0:
        raise Infra("restrict replay evaluated nothing")
    cov = dict(states=rr["distinct"] + rp["distinct"], transitions=rr["states"] + rp["states"],
               traces_validated_against_impl=r["evaluated"], exhaustive=True, cases=r["distinct"],
               samples=[dict(pattern="^é|(a|b)\\$", note="leading caret, alternation, escaped dollar tail, non-ASCII"),
                        dict(range="[pos1..pos2] | [pos5..pos8]", value="pos4", types="int8..uint64, decimal64, string/binary length")],
               counters=r.get("counters"),
               explanation="ranges/lengths: every ascending sequence of at most %d disjoint parts over 8 symbolic positions x every position, "
               "concretised for int8..int64, uint8..uint64 (type bounds, +-1, 2^63 neighbourhood), decimal64, string length in characters "
               "(multi-byte letters) and binary length in bytes; patterns: every expression of depth <= 2 over a, b, a non-ASCII letter, "
               "[ab], concatenation, alternation, * and ?, x {no anchor, leading ^} x {none, $, \\$}: 24 024 patterns x 156 strings over "
               "{a,b,non-ASCII,^,$} of length <= 3, plus two-pattern conjunction and posix-pattern precedence; TLC computes each bounded "
               "language under the XSD and the anchor reading, only strings on which both agree are compared." % parts)
    return cov, r.get("violations") or []


CODEC_CFG = """SPECIFICATION Spec
CONSTANTS
  Mode = "%s"
INVARIANT CanonicalRoundTrip
INVARIANT VerdictOK
CONSTRAINT Emit
"""


def check_codec(prop, tier, seed, work, modes):
    """C18 (modes json,tv) / C16 (mode key): Codec.tla classifies every (leaf type, input class) /
    lists every (key type, value class); each case is concretised for every leaf / list of that
    type in the corpus and run through the real Unmarshal / SetNode / GetNode / DeleteNode."""
    cfgs = ["us", "cs"] if tier == "quick" else ["us", "uw", "cs", "cw", "co"]
    h, bindir = vf.prepare(work, cfgs)
    states = trans = 0
    outs = []
    for m in modes:
        mc = vf.run_tlc(work, "Codec", CODEC_CFG % m, tag="codec" + m, workers=4)
        states += mc["distinct"]
        trans += mc["states"]
        outs.append(mc["out"])
    r = run_replay(bindir, h, "codec", ["-in", ",".join(outs), "-prop", prop, "-pkgs", ",".join(cfgs)], work, "codec")
    if r["evaluated"] == 0:
        raise Infra("codec replay evaluated nothing")
    if prop == "C18" and not (r.get("counters") or {}).get("accepted"):
        raise Infra("vacuous: no input was accepted")
    for d in (r.get("drift") or [])[:10]:
        log("SPEC-DRIFT:", d)
    cov = dict(states=states, transitions=trans, traces_validated_against_impl=r["evaluated"], exhaustive=True,
               samples=[dict(type="int8", json="1.5", verdict="reject"), dict(type="uint64", json="9007199254740993", verdict="denotes BIG53 exactly or error"),
                        dict(keytype="string", key="a/b]c"), dict(keytype="uint64", key="18446744073709551615")],
               counters=r.get("counters"), configurations=cfgs, skipped_inexpressible=r.get("skipped"), spec_drift=(r.get("drift") or [])[:20],
               explanation=("every (leaf type, JSON value class) and (leaf type, TypedValue class) pair -- 18 leaf types x numbers at and beyond the "
                            "type bounds, fractional, 1e300, 2^53+1, canonical and malformed strings, wrong JSON kinds, every TypedValue oneof -- is "
                            "classified by Codec.tla as denotes-v / must-reject / unspecified; each is decoded by Unmarshal and SetNode into every "
                            "corpus leaf of that type: must-reject inputs must fail, accepted inputs must store the denoted value and re-render to it."
                            if prop == "C18" else
                            "every key type (all integer widths, decimal64, string, boolean, enumeration, identityref, unions, leafref keys in the "
                            "OpenConfig-style module) x value classes incl. type bounds and strings with '*', '/', ']', '=', spaces and non-ASCII "
                            "letters: the key strings written by TogNMINotifications and Diff must agree and, fed to GetNode / SetNode / "
                            "DeleteNode, address exactly that entry next to a decoy entry of the same list."))
    return cov, r.get("violations") or []


ENUM_TRACE_CFG = """SPECIFICATION TraceSpec
POSTCONDITION TraceAccepted
CHECK_DEADLOCK FALSE
"""


def check_enums(tier, seed, work):
    """C17: the recorder dumps the generated name table of every enumerated type of every package with
    goyang's names and the observed render / parse results; TLC validates every record against
    EnumMap.tla (bijection, schema names, render-parse identity, UNSET never rendered, undefined
    values are errors)."""
    cfgs = ["us", "uw", "cw"] if tier == "quick" else ["us", "uw", "cs", "cw", "co", "un"]
    h, bindir = vf.prepare(work, cfgs)
    rec = os.path.join(work, "enums.ndjson")
    r = run_replay(bindir, h, "enums", ["-in", rec, "-prop", "C17", "-pkgs", ",".join(cfgs), "-schemas", vf.SCHEMAS], work, "enums")
    lines = [l for l in open(rec) if l.strip()]
    if not lines:
        raise Infra("no enumerated types recorded")
    violations = []
    accepted = 0
    remaining = lines
    rounds = 0
    while remaining:
        rounds += 1
        if rounds > 40:
            raise Infra("too many rejected enum records")
        ok, n = vf.validate_trace(work, "EnumMap", ENUM_TRACE_CFG, remaining, "enum-r%d" % rounds)
        accepted += n
        if ok:
            break
        bad = json.loads(remaining[n])
        obs = bad.get("obs") or []
        cls = sorted({o["cls"] for o in obs})
        sig = dict(conjunct="record-rejected", type=bad["type"], pkg=bad["pkg"])
        # a hint for the classification (TLC is the judge): which observation classes look off
        if any(o["cls"] == "zero" and str(o.get("tv", "")).startswith("rendered:") for o in obs) and bad["type"].endswith("_Enum"):
            sig["unset_union_member_rendered"] = "true"
            sig.pop("type"); sig.pop("pkg")
        violations.append(dict(property="C17", sig=sig,
                               detail="TLC rejects the record of enumerated type %s (package %s, %s): entries %s, schema names %s, observations %s" % (
                                   bad["type"], bad["pkg"], bad.get("site"), bad["entries"], bad["schema"], json.dumps(obs)[:700]),
                               case=dict(sub="trace", record=bad)))
        remaining = remaining[n + 1:]
    cov = dict(states=accepted + 1, transitions=accepted, traces_validated_against_impl=accepted, exhaustive=True,
               enumerated_types=len(lines), observations=r["evaluated"], configurations=cfgs,
               samples=[json.loads(lines[0])],
               explanation="every generated enumerated type (typedef enumerations, identities, enumerations inside unions) of every package: "
               "its \u039bEnum table, the names goyang finds for the type, and for every defined value, 0 and three undefined values "
               "(-1, max+1, MaxInt64) what Marshal7951+Unmarshal, EncodeTypedValue+SetNode, TogNMINotifications and EnumName did; "
               "each record is one step of EnumMap.tla's trace specification.")
    return cov, violations


FEAT_CFG = """SPECIFICATION Spec
CONSTANTS
  Mode = "%s"
INVARIANT ModelLaws
CONSTRAINT Emit
"""


def check_feat(prop, tier, seed, work, mode, explanation, samples):
    """C07 / C33 / C30: FeatModel.tla over schemas/vf-feat.yang; every case is built as a GoStruct of
    the package generated from the working tree and run through Validate / PopulateDefaults."""
    h, bindir = vf.prepare(work, ["ft"])
    mc = vf.run_tlc(work, "FeatModel", FEAT_CFG % mode, tag="feat" + mode, workers=8)
    r = run_replay(bindir, h, "feat", ["-in", mc["out"], "-prop", prop, "-pkgs", "ft"], work, "feat")
    if r["evaluated"] == 0:
        raise Infra("feat replay evaluated nothing")
    cov = dict(states=mc["distinct"], transitions=mc["states"], traces_validated_against_impl=r["evaluated"], exhaustive=True,
               samples=samples, counters=r.get("counters"), configurations=["ft"], explanation=explanation)
    return cov, r.get("violations") or []


CONC_CFG = """SPECIFICATION Spec
CONSTANTS
  Procs = {%(procs)s}
  Scenario = "%(sc)s"
VIEW View
INVARIANT NoRace
INVARIANT LockOK
INVARIANT CacheResults
INVARIANT CachesSeparate
CONSTRAINT Emit
CHECK_DEADLOCK FALSE
"""


def check_c11(tier, seed, work):
    """C11: the footprint table of Conc.tla (write sets per operation) is the oracle; snapshots of
    every argument are taken around every call made by a fixed subset of the other properties'
    replays (run here so that the check is self-contained) plus a dedicated pass that calls the
    read-only and encoding APIs with every kind of option value."""
    cfgs = ["us", "cw"] if tier == "quick" else ["us", "uw", "cs", "cw", "co"]
    h, bindir = vf.prepare(work, cfgs + ["ft"])
    mc = vf.run_tlc(work, "Conc", CONC_CFG % dict(procs=q(["p1", "p2"]), sc="readers"), tag="conc", workers=8)
    table = None
    for l in open(mc["out"], errors="replace"):
        if l.startswith('"OPTABLE '):
            table = json.loads(json.loads(l)[len("OPTABLE "):])
    if not table:
        raise Infra("Conc.tla emitted no footprint table")
    readonly = sorted(o for o, v in table.items() if not v["w"])
    two = dict(vals=q(["v1", "v2"]), keys=q(["K1", "K2"]), mkeys="")
    results = []
    states, trans = mc["distinct"], mc["states"]
    lim = ["-limit", "3"] if tier == "quick" else []
    # trees: dedicated c11 pass + round trips
    for name, enabled in (("A", "EnabledA"), ("B", "EnabledB")):
        t = vf.run_tlc(work, "MC_TreeLaws", LAWS_CFG % dict(two, enabled=enabled) + "CONSTRAINT EmitTree\n", tag="c11trees" + name)
        states += t["distinct"]; trans += t["states"]
        results.append(run_replay(bindir, h, "trees", ["-in", t["out"], "-modes", "c11,c01,c02", "-seed", str(seed), "-prop", "C11", "-pkgs", ",".join(cfgs)] + lim, work, "c11trees" + name))
    # pairs: Diff / MergeStructs
    p = vf.run_tlc(work, "MC_PairLaws", PAIR_CFG % dict(two, enabled="EnabledP") + "CONSTRAINT EmitPair\n", tag="c11pairs", timeout=3000)
    states += p["distinct"]; trans += p["states"]
    results.append(run_replay(bindir, h, "pairs", ["-in", p["out"], "-modes", "c03,c05", "-seed", str(seed), "-prop", "C11", "-pkgs", ",".join(cfgs)] + (["-limit", "4"] if tier == "quick" else []), work, "c11pairs"))
    # SetNode / DeleteNode / GetNode and SetRequests: messages unchanged
    m = vf.run_tlc(work, "MC_TreeA", TREE_CFG % dict(two, enabled="EnabledA") + "ACTION_CONSTRAINT Emit\n", tag="c11tree")
    states += m["distinct"]; trans += m["states"]
    results.append(run_replay(bindir, h, "tree", ["-in", m["out"], "-ops", "set,setll,delete", "-seed", str(seed), "-prop", "C11", "-pkgs", ",".join(cfgs), "-limit", "3" if tier == "quick" else "1"], work, "c11tree"))
    g = vf.run_tlc(work, "MC_GnmiSet", GNMI_CFG % dict(two, enabled="EnabledA", maxops=1, maxdoc=2) + "ACTION_CONSTRAINT Emit\n", tag="c11req", timeout=3000)
    states += g["distinct"]; trans += g["states"]
    results.append(run_replay(bindir, h, "setreq", ["-in", g["out"], "-modes", "setreq", "-seed", str(seed), "-prop", "C11", "-pkgs", ",".join(cfgs), "-limit", "12" if tier == "quick" else "3"], work, "c11req"))
    # Validate
    f = vf.run_tlc(work, "FeatModel", FEAT_CFG % "valid", tag="c11feat", workers=8)
    results.append(run_replay(bindir, h, "feat", ["-in", f["out"], "-prop", "C11", "-pkgs", "ft"], work, "c11feat"))
    tot = merge_results(results)
    if tot["evaluated"] == 0:
        raise Infra("C11 evaluated nothing")
    cov = dict(states=states, transitions=trans, traces_validated_against_impl=tot["evaluated"], samples=[dict(read_only_operations=readonly)],
               exhaustive=False, counters=tot["counters"], configurations=cfgs,
               explanation="footprint table from Conc.tla; snapshots (independent projection of trees, proto.Clone of messages, deep copies of option "
               "structs and decoded JSON) around: EmitJSON / ConstructIETFJSON / ConstructInternalJSON / Marshal7951 / EncodeTypedValue with all "
               "RFC7951JSONConfig fields set, TogNMINotifications with both prefix forms, Diff / DiffWithAtomic with DiffPathOpt and IgnoreAdditions, "
               "Validate with LeafrefOptions, DeepCopy, MergeStructs with options, ytypes.Unmarshal of a decoded JSON value with each option, "
               "GetNode, SetNode / DeleteNode (path and TypedValue, also with TolerateJSONInconsistencies), UnmarshalSetRequest / "
               "UnmarshalNotifications (request messages), the util path functions")
    return cov, tot["violations"]


def check_c21(tier, seed, work):
    """C21: Conc.tla -- all interleavings of read-only operations on shared objects, of writers into
    distinct trees and of the regexp cache protocol; the cache schedules are replayed with the gate
    hooks, and the readers / writers scenarios run with real goroutines under the race detector."""
    cfgs = ["us", "cs"] if tier == "quick" else ["us", "uw", "cs", "cw", "co"]
    h, bindir = vf.prepare(work, cfgs, race=True)
    procs = ["p1", "p2"] if tier == "quick" else ["p1", "p2", "p3"]
    states = trans = 0
    out = {}
    for sc in ("readers", "writers", "cache"):
        mc = vf.run_tlc(work, "Conc", CONC_CFG % dict(procs=q(procs if sc == "cache" else ["p1", "p2"]), sc=sc), tag="conc" + sc, workers=16, timeout=3000)
        states += mc["distinct"]; trans += mc["states"]
        out[sc] = mc["out"]
    res_path = os.path.join(work, "result-concur.json")
    rounds = 12 if tier == "quick" else 80
    cmd = [os.path.join(bindir, "replay"), "concur", "-in", out["cache"], "-out", res_path, "-corpus", os.path.join(vf.SCHEMAS, "variants.json"),
           "-pkgs", ",".join(cfgs), "-seed", str(seed), "-rounds", str(rounds)]
    p = vf.subprocess.run(cmd, cwd=h, stdout=vf.subprocess.PIPE, stderr=vf.subprocess.STDOUT, text=True, env=dict(os.environ, GORACE="halt_on_error=0"))
    import re as _re
    violations = []
    fatal = _re.search(r"fatal error: (concurrent map[^\n]*)", p.stdout)
    if fatal:
        # the Go runtime killed the process: unsynchronised map access in the code under test
        frames = [f for f in _re.findall(r"^(github.com/openconfig/ygot[\w./()*-]+)\(", p.stdout[fatal.start():], _re.M)][:3]
        violations.append(dict(property="C21", sig=dict(conjunct="fatal-concurrent-map", where="|".join(frames[:2])),
                               detail="the Go runtime aborted the concurrent scenario: %s; frames: %s" % (fatal.group(1), ", ".join(frames)),
                               case=dict(sub="race", report=p.stdout[fatal.start():fatal.start() + 4000])))
    if "WARNING: DATA RACE" in p.stdout:
        blocks = p.stdout.split("WARNING: DATA RACE")[1:]
        seen = set()
        for b in blocks:
            fr = _re.findall(r"^\s+(\S+\(\))\s*$|^\s+([\w./()*-]+)\(", b, _re.M)
            funcs = [x[0] or x[1] for x in fr if (x[0] or x[1]).startswith("github.com/openconfig/ygot")][:2]
            key = "|".join(funcs)
            if key in seen:
                continue
            seen.add(key)
            violations.append(dict(property="C21", sig=dict(conjunct="data-race", where=key), detail="the race detector reports a data race: " + b[:1500], case=dict(sub="race", report=b[:4000])))
    if not os.path.exists(res_path):
        if violations:
            r = dict(evaluated=1, counters={"aborted_by_runtime": 1}, violations=[])
        else:
            raise Infra("concur produced no result (exit %d):\n%s" % (p.returncode, p.stdout[-3000:]))
    else:
        r = json.load(open(res_path))
    if r.get("infra"):
        raise Infra("concur: %s" % "; ".join(r["infra"][:5]))
    violations += r.get("violations") or []
    if not violations and p.returncode not in (0, 1):
        raise Infra("concur exit %d:\n%s" % (p.returncode, p.stdout[-3000:]))
    if r["evaluated"] == 0:
        raise Infra("concur evaluated nothing")
    cov = dict(states=states, transitions=trans, traces_validated_against_impl=r["evaluated"], samples=[dict(note="see counters")], exhaustive=False,
               counters=r.get("counters"), configurations=cfgs, race_detector=True,
               explanation="TLC: every interleaving of 2 read-only operations on shared tree/schema/options, of 2 writers into distinct trees "
               "sharing schema and input messages, and of %d goroutines through the regexp cache protocol (NoRace, LockOK, every call "
               "returns the compiled pattern). Real code: each emitted cache schedule is forced with the verif gate hooks in "
               "compilePattern (miss/hit per goroutine must match the model, every call succeeds); the readers and writers scenarios run "
               "with 2-7 goroutines and randomised GOMAXPROCS under the Go race detector, every goroutine's result compared with the "
               "sequential result." % len(procs))
    return cov, violations


GD_CFG = """SPECIFICATION GDSpec
CONSTANTS
  Vals = {"v1", "v2"}
  KeyAtoms = {"K1", "K2"}
  MKeyAtoms = {%(mkeys)s}
  Enabled <- %(enabled)s
  MaxOps = 2
  MaxDocLeaves = 2
  EmptyLLPayload <- MCEmptyLL
INVARIANT RewritesPreserveIntent
CONSTRAINT GDEmit
CHECK_DEADLOCK FALSE
"""


def check_gnmidiff(prop, tier, seed, work):
    """C22 / C23: GnmiDiff.tla -- the intent of every conflict-free SetRequest of up to two operations,
    its intent-preserving rewrites (checked by TLC) and the free leaves under deleted subtrees;
    replayed on gnmidiff with the generated schema and without a schema (OpenConfig-style variants)."""
    cfgs = ["cs", "cw"] if tier == "quick" else ["cs", "cw", "co"]
    h, bindir = vf.prepare(work, cfgs)
    slices = [("G", "EnabledG", ""), ("L", "EnabledL", "")] if tier == "quick" else [("G", "EnabledG", ""), ("A", "EnabledA", ""), ("B", "EnabledB", "")]
    states = trans = 0
    results = []
    for name, enabled, mk in slices:
        mc = vf.run_tlc(work, "MC_GnmiDiff", GD_CFG % dict(enabled=enabled, mkeys=mk), tag="gd" + name, timeout=2400)
        states += mc["distinct"]; trans += mc["states"]
        args = ["-in", mc["out"], "-prop", prop, "-seed", str(seed), "-pkgs", ",".join(cfgs), "-limit", "5" if tier == "quick" else "2"]
        r = run_replay(bindir, h, "gnmidiff", args, work, name)
        if r["evaluated"] == 0:
            raise Infra("gnmidiff replay of slice %s evaluated nothing" % name)
        results.append(r)
    tot = merge_results(results)
    c = tot["counters"]
    if prop == "C22" and not c.get("rewrites_compared"):
        raise Infra("vacuous: no rewrite was compared")
    if prop == "C23" and not (c.get("removed_one") and c.get("changed_one") and c.get("added_under_deleted")):
        raise Infra("vacuous: an edit class was never exercised: %s" % c)
    cov = dict(states=states, transitions=trans, traces_validated_against_impl=tot["evaluated"], exhaustive=False,
               samples=[dict(note="see counters")], counters=c, configurations=cfgs,
               explanation="every conflict-free SetRequest of one or two operations (delete / replace / update; leaf, leaf-list and JSON payloads at "
               "containers, list entries and the root) over the slice(s); TLC checks that the rewrites SplitJSON, Reorder, LeafReplaceToUpdate and "
               "DuplicateUpdate preserve Intent(req); " + (
                   "DiffSetRequest(a, a), DiffSetRequest(a, rewrite(a)) under three prefix splits, and swap symmetry against another request, with the "
                   "generated schema and with nil schema (values then given in their JSON form)" if prop == "C22" else
                   "DiffSetRequestToNotifications against notifications carrying exactly the intent's leaves, then with one leaf removed, one "
                   "value changed, and one free leaf added under a deleted / replaced subtree"))
    return cov, tot["violations"]


MALFORMED_CFG = """SPECIFICATION Spec
CONSTANTS
  Mode = "%s"
INVARIANT GridComplete
CONSTRAINT Emit
"""


def check_c20(tier, seed, work):
    """C20: Malformed.tla enumerates the grid of malformed input shapes; every case is run under
    recover() on Unmarshal, Get/Set/DeleteNode, GetOrCreateNode, UnmarshalSetRequest,
    UnmarshalNotifications, the gnmidiff functions and StringToPath; the only verdict is a panic."""
    cfgs = ["us", "cs"] if tier == "quick" else ["us", "uw", "cs", "cw", "co"]
    h, bindir = vf.prepare(work, cfgs)
    outs = []
    states = trans = 0
    for m in ("json", "path", "req", "seq"):
        mc = vf.run_tlc(work, "Malformed", MALFORMED_CFG % m, tag="mf" + m, workers=8)
        states += mc["distinct"]; trans += mc["states"]
        outs.append(mc["out"])
    r = run_replay(bindir, h, "malformed", ["-in", ",".join(outs), "-prop", "C20", "-pkgs", ",".join(cfgs), "-strlen", "5" if tier == "quick" else "6",
                                                 "-seed", str(seed), "-fuzz", "3000" if tier == "quick" else "100000"], work, "malformed")
    if r["evaluated"] == 0:
        raise Infra("malformed replay evaluated nothing")
    cov = dict(states=states, transitions=trans, traces_validated_against_impl=r["evaluated"], exhaustive=False, grid_cases=r["distinct"],
               samples=[dict(node="list", json="[1]"), dict(op="SetNode-json", path="list-bad-key-type", value="leaflist-nil-element"),
                        dict(api="DiffSetRequest-noschema", request="leaflist-twice")],
               counters=r.get("counters"), configurations=cfgs,
               explanation="the full grid: 22 schema node kinds (three of them lists of the compressed packages, whose keys are reachable through two JSON paths) x 28 JSON value kinds (Unmarshal with no option, IgnoreExtraFields and "
               "BestEffortUnmarshal, into an empty and a populated root); 9 path operations x 27 path shapes x 20 TypedValue shapes; 7 "
               "request APIs x 20 request / notification shapes; pairs of malformed operations on one tree; every string over "
               "{a / [ ] = \\ space non-ASCII} up to length %s for StringToPath. This is exhaustive over the shapes of the grid, not over "
               "bytes: the property's quantifier (all byte strings) is only sampled, by %s seeded byte-level mutations per package of a well-formed "
               "document (Unmarshal with and without IgnoreExtraFields) and of well-formed path strings (StringToStructuredPath, then GetNode / SetNode / "
               "GetOrCreateNode / DeleteNode on the parsed path)." % ("5" if tier == "quick" else "6", "3000" if tier == "quick" else "100000"))
    # any violation of C20 found by this grid counts; the other replays also report panics under C20
    return cov, r.get("violations") or []


def check_gen(prop, tier, seed, work):
    """C26 / C27 / C29: SchemaGen.tla cases -> YANG -> generator built from the working tree ->
    one binary over all generated packages (compile check) -> dump of structs, embedded schema
    and path API -> comparison with the model, goyang and the embedded schema."""
    import genfam
    mc, cases = genfam.model_cases(work, tier)
    sel = genfam.select(cases, tier, seed, limit=None if tier == "quick" else 240)
    if prop == "C29":
        sel = [x for x in sel if x[0]["beh"] in genfam.COMPRESSING]
    h, bindir, cs = genfam.prepare_cases(work, sel, path_structs=(prop == "C29"))
    viol = []
    refused = 0
    for c in cs:
        if not c.gen_ok and not c.m.get("supported", True):
            refused += 1      # outside the supported subset (binary list key): a refusal is the documented outcome
            continue
        if not c.gen_ok:
            viol.append(dict(property=prop if prop != "C27" else "C26", sig=c.sig("generator-error", msg=re.sub(r"[^a-z ]", "", c.gen_out.strip().splitlines()[-1].lower())[:60] if c.gen_out.strip() else ""),
                             detail="%s: the generator fails on a schema of the supported subset: %s" % (c.label(), c.gen_out.strip()[-600:]), case=c.case()))
    build_out, dumps = genfam.dump_all(h, bindir, work, cs)
    counters = dict(cases=len(cs), generated=sum(1 for c in cs if c.gen_ok), refused_unsupported=refused, fields=0, schema_nodes=0, path_calls=0)
    drift = set()
    if build_out:
        # find the packages that do not compile, report them, and rebuild without them
        bad = sorted(set(re.findall(r"gen/(g\d+)/", build_out)))
        for c in cs:
            if c.name in bad:
                c.gen_ok = False
                lines = [l for l in build_out.splitlines() if "gen/%s/" % c.name in l]
                viol.append(dict(property="C29" if prop == "C29" else "C26", sig=c.sig("compile-error", msg=re.sub(r"[^a-zA-Z ]", "", lines[0].split(": ", 1)[-1])[:60] if lines else ""),
                                 detail="%s: the generated package does not compile: %s" % (c.label(), " ; ".join(lines[:4])), case=c.case()))
        if not bad:
            raise Infra("gendump does not build:\n" + build_out[-3000:])
        build_out, dumps = genfam.dump_all(h, bindir, work, cs)
        if build_out:
            raise Infra("gendump does not build after removing %s:\n%s" % (bad, build_out[-3000:]))
    if prop == "C26":
        pkgs = ["./gen/%s" % c.name for c in cs if c.gen_ok]
        p, _ = vf.sh(["go", "vet"] + pkgs, cwd=h, check=False)
        if p.returncode != 0:
            for c in cs:
                lines = [l for l in p.stdout.splitlines() if "gen/%s/" % c.name in l]
                if lines:
                    viol.append(dict(property="C26", sig=c.sig("vet", msg=re.sub(r"[^a-zA-Z ]", "", lines[0].split(": ", 1)[-1])[:60]),
                                     detail="%s: go vet: %s" % (c.label(), " ; ".join(lines[:4])), case=c.case()))
            if not any(v["sig"]["conjunct"] == "vet" for v in viol):
                raise Infra("go vet failed without a diagnostic in a generated package:\n" + p.stdout[-2000:])
        counters["vetted_packages"] = len(pkgs)
    for c in cs:
        if not c.gen_ok:
            continue
        d = dumps.get(c.name)
        if d is None:
            raise Infra("no dump for %s" % c.name)
        if prop == "C26":
            counters["fields"] += genfam.check_structs(c, d, viol, drift)
        elif prop == "C27":
            gy = genfam.goyang_dump(bindir, work, c)
            counters["schema_nodes"] += genfam.check_schema(c, d, gy, viol)
        elif prop == "C29":
            counters["path_calls"] += genfam.check_paths(c, d, viol)
            # the same paths the GoStruct tags give
            gp = genfam.gostruct_paths(d)
            for pc in d.get("paths") or []:
                if pc.get("resolved"):
                    sp = "/" + "/".join(e[0] for e in genfam.parse_path(pc["resolved"]))
                    if sp not in gp and sp != "/":
                        viol.append(dict(property="C29", sig=c.sig("not-a-gostruct-path"), detail="%s: %s resolves to %s, which no GoStruct field's path tag gives" % (c.label(), pc["chain"], pc["resolved"]), case=c.case()))
    if prop == "C29" and not counters["path_calls"] and not viol:
        raise Infra("vacuous: no path accessor was resolved")
    for x in sorted(drift)[:10]:
        log("SPEC-DRIFT:", x)
    expl = {"C26": "every generated package is compiled into one binary and vetted; by reflection every struct is matched with the directory of the model it stands for and every field with the model's field (set of relative schema paths, Go type class, list key types, shadow paths); every path / module tag is resolved in the embedded schema and its node kind compared with the Go type class",
            "C27": "UnzipSchema() of every generated package is walked (choice / case nodes included) and compared node by node and attribute by attribute (kind, keys, config, inherited read-only, ordered-by, min/max-elements, presence, mandatory, default, prefix, full type incl. ranges, lengths, patterns, enum values, identity base and members, union members, leafref path, type default) with goyang's compilation of the same source, and with the model's node attributes",
            "C29": "every accessor of the generated path API (concrete keys with distinctive values of every key type, every wildcard variant) is called by reflection from DeviceRoot and resolved with ygot.ResolvePath; the result must be the data-tree path of the model's field (any of its primary paths), every list element must carry exactly its list's keys with the values passed or '*', every field of the model must be reachable, and the path must be one the GoStruct tags give"}[prop]
    cov = dict(states=mc["distinct"], transitions=mc["states"], traces_validated_against_impl=counters["cases"], exhaustive=False, counters=counters,
               samples=[cs[0].label(), cs[-1].label()], flag_sets=genfam.FLAGSETS, spec_drift=sorted(drift)[:20],
               explanation="SchemaGen.tla: abstract schemas (plain / OpenConfig shape x key types x second key type x ordered-by x leaf-list type x extras: "
               "colliding names, choice, grouping, augment, presence, config false subtree with unkeyed and keyed lists, identityref, leafref) x the five "
               "compression behaviours, with TLC-checked ExactlyOnce / PathsDistinct / StateExcluded; " + expl + ". Flag sets rotate over the cases: " +
               "min (simple unions), full (all generate_* options, annotations, presence tags, wrapper unions), alt (no ordered maps, populate defaults, no enum de-duplication, shadow paths), ann (annotations with shadow paths and getters). "
               "Not random schemas: the feature space of the model, enumerated.")
    return cov, viol


DETGEN_CFG = """SPECIFICATION Spec
CONSTANTS
  Cfgs = {"c1", "c2"}
  Digests = {"h1", "h2"}
PROPERTY WriteOnce
CHECK_DEADLOCK FALSE
"""

DETGEN_TRACE_CFG = """SPECIFICATION TraceSpec
CONSTANTS
  Cfgs = {"c1"}
  Digests = {"h1"}
PROPERTY TraceWriteOnce
POSTCONDITION TraceAccepted
CHECK_DEADLOCK FALSE
"""


def check_c25(tier, seed, work):
    """C25: every SchemaGen.tla case is generated several times in separate processes (Go structs,
    path structs, protobuf) with different GOMAXPROCS; the digests are recorded as a trace of Run
    events and validated by TLC against DetGen.tla (write-once register per configuration)."""
    import genfam, yanggen, hashlib, glob
    from concurrent.futures import ThreadPoolExecutor
    abstract = vf.run_tlc(work, "DetGen", DETGEN_CFG, tag="detgen", workers=4)
    mc, cases = genfam.model_cases(work, tier)
    sel = genfam.select(cases, tier, seed, limit=None if tier == "quick" else 160)
    h = vf.copy_harness(work)
    bindir = vf.build_generators(h, work)
    genfam.build_tools(h, bindir)
    cs = [genfam.Case(i, m, fs) for i, (m, fs) in enumerate(sel)]
    runs = 4 if tier == "quick" else 10
    procs = [1, 2, 16, 5, 3, 8, 1, 16, 4, 7]
    PSETS = {"min": ["-generate_fakeroot"], "full": ["-generate_fakeroot", "-package_hierarchy"], "alt": ["-generate_fakeroot", "-skip_enum_deduplication"],
             "ann": ["-generate_fakeroot", "-package_hierarchy", "-skip_enum_deduplication"]}

    def digest(d):
        hh = hashlib.sha256()
        for path in sorted(glob.glob(os.path.join(d, "**", "*"), recursive=True)):
            if os.path.isfile(path):
                hh.update(os.path.relpath(path, d).encode() + b"\0" + open(path, "rb").read() + b"\0")
        return hh.hexdigest()[:16]

    def one(c):
        ydir = os.path.join(work, "yang", c.name)
        yanggen.write_case(c.m, ydir)
        ev = []
        for r in range(runs):
            env = dict(vf.GOENV, GOMAXPROCS=str(procs[r % len(procs)]))
            # Go structs (+ path structs under compression), split into several files in the later runs' twin configuration
            out = os.path.join(work, "det", c.name, "go-%d" % r)
            os.makedirs(out)
            cmd = [os.path.join(bindir, "generator"), "-logtostderr", "-path=" + ydir, "-output_file=" + os.path.join(out, "gen.go"), "-package_name=" + c.name] + genfam.BASE + c.flags
            if c.comp:
                cmd += ["-generate_path_structs", "-path_structs_output_file=" + os.path.join(out, "paths.go")]
            p = vf.subprocess.run(cmd + genfam.MODS, cwd=ydir, env=env, stdout=vf.subprocess.PIPE, stderr=vf.subprocess.STDOUT, text=True)
            ev.append(dict(cfg=c.name + ":go", run=r, gomaxprocs=procs[r % len(procs)], h=digest(out) if p.returncode == 0 else "error:" + re.sub(r"^[A-Z]\d+ [\d:.]+ +\d+ ", "", (p.stdout.strip().splitlines() or ["?"])[-1])[:120]))
            # several include paths: the imported module vgi exists in two of them with different
            # content, so the order in which the paths are searched decides the output
            if r == 0:
                mp = os.path.join(work, "yang", c.name + "-mp")
                for sub, extra in (("src", None), ("inc1", ""), ("inc2", "  identity I-THREE { base BASE; }\n")):
                    os.makedirs(os.path.join(mp, sub), exist_ok=True)
                    if extra is None:
                        for f in ("vg.yang", "vga.yang"):
                            shutil.copy(os.path.join(ydir, f), os.path.join(mp, sub, f))
                    else:
                        open(os.path.join(mp, sub, "vgi.yang"), "w").write(open(os.path.join(ydir, "vgi.yang")).read().rstrip().rstrip("}") + extra + "}\n")
            mp = os.path.join(work, "yang", c.name + "-mp")
            out = os.path.join(work, "det", c.name, "gomp-%d" % r)
            os.makedirs(out)
            cmd = [os.path.join(bindir, "generator"), "-logtostderr", "-path=%s,%s,%s" % (os.path.join(mp, "inc1"), os.path.join(mp, "inc2"), os.path.join(mp, "src")),
                   "-output_file=" + os.path.join(out, "gen.go"), "-package_name=" + c.name] + genfam.BASE + c.flags + ["vg.yang", "vga.yang"]
            p = vf.subprocess.run(cmd, cwd=os.path.join(mp, "src"), env=env, stdout=vf.subprocess.PIPE, stderr=vf.subprocess.STDOUT, text=True)
            ev.append(dict(cfg=c.name + ":go-multipath", run=r, gomaxprocs=procs[r % len(procs)], h=digest(out) if p.returncode == 0 else "error:" + re.sub(r"^[A-Z]\d+ [\d:.]+ +\d+ ", "", (p.stdout.strip().splitlines() or ["?"])[-1])[:120]))
            out = os.path.join(work, "det", c.name, "proto-%d" % r)
            cmd = [os.path.join(bindir, "proto_generator"), "-logtostderr", "-path=" + ydir, "-output_dir=" + out, "-base_import_path=example.com/pb"] + genfam.BEH_FLAGS[c.beh] + PSETS[c.fs]
            p = vf.subprocess.run(cmd + genfam.MODS, cwd=ydir, env=env, stdout=vf.subprocess.PIPE, stderr=vf.subprocess.STDOUT, text=True)
            ev.append(dict(cfg=c.name + ":proto", run=r, gomaxprocs=procs[r % len(procs)], h=digest(out) if p.returncode == 0 else "error:" + re.sub(r"^[A-Z]\d+ [\d:.]+ +\d+ ", "", (p.stdout.strip().splitlines() or ["?"])[-1])[:120]))
        return ev

    with ThreadPoolExecutor(8) as ex:
        evs = [e for ev in ex.map(one, cs) for e in ev]
    # interleave by run number: the trace is the history of all runs
    evs.sort(key=lambda e: (e["run"], e["cfg"]))
    lines = [json.dumps(e) for e in evs]
    viol = []
    accepted = 0
    remaining = lines
    rounds = 0
    bycase = {c.name: c for c in cs}
    while remaining:
        rounds += 1
        if rounds > 30:
            raise Infra("too many rejected runs")
        ok, n = vf.validate_trace(work, "DetGen", DETGEN_TRACE_CFG, remaining, "det-r%d" % rounds)
        accepted += n
        if ok:
            break
        bad = json.loads(remaining[n])
        c = bycase[bad["cfg"].split(":")[0]]
        first = [json.loads(x) for x in lines if json.loads(x)["cfg"] == bad["cfg"]][0]
        viol.append(dict(property="C25", sig=c.sig("output-differs", artefact=bad["cfg"].split(":")[1]),
                         detail="%s: run %d (GOMAXPROCS=%d) of the %s generator wrote %s, run 0 wrote %s; TLC rejects the run as a step of DetGen" % (c.label(), bad["run"], bad["gomaxprocs"], bad["cfg"].split(":")[1], bad["h"], first["h"]),
                         case=dict(c.case(), artefact=bad["cfg"].split(":")[1])))
        # drop every event of the offending configuration and validate the rest
        remaining = [x for x in remaining[n + 1:] if json.loads(x)["cfg"] != bad["cfg"]]
    errors = sum(1 for e in evs if e["h"].startswith("error:"))
    cov = dict(states=abstract["distinct"] + mc["distinct"], transitions=abstract["states"] + mc["states"], traces_validated_against_impl=len(lines), exhaustive=False,
               counters=dict(cases=len(cs), runs_per_case=runs, events=len(lines), events_accepted=accepted, generator_errors=errors),
               samples=[json.loads(lines[0]), json.loads(lines[-1])],
               explanation="DetGen.tla (write-once register per configuration; WriteOnce checked by TLC on the abstract model) and trace validation of the recorded "
               "runs: every SchemaGen.tla case (schema x compression behaviour x flag set) is generated %d times in separate processes with GOMAXPROCS in %s -- "
               "Go structs with the embedded schema, path structs (compressed cases) and the protobuf files -- and the digest of everything written is one Run event. "
               "A third configuration per case passes three include paths, two of which hold different copies of the imported identity module. "
               "An error result is an output too (it must be the same error every time). Not covered: split output files." % (runs, procs[:runs]))
    return cov, viol


def check_c28(tier, seed, work):
    """C28: SchemaGen.tla cases (with the adversarial leaf and identity names) -> proto_generator
    built from the working tree -> every .proto parsed with tools/protoparse.py and checked for
    proto3 well-formedness; field numbers as a function of the schema path across runs, option
    sets, compression behaviours and an unrelated schema change."""
    import genfam, protoparse, glob
    from concurrent.futures import ThreadPoolExecutor
    mc, cases = genfam.model_cases(work, tier, adv=True)
    sel = genfam.select(cases, tier, seed, limit=None if tier == "quick" else 200)
    h = vf.copy_harness(work)
    bindir = vf.build_generators(h, work)
    genfam.build_tools(h, bindir)
    cs = [genfam.Case(i, m, fs) for i, (m, fs) in enumerate(sel)]
    PSETS = {"min": ["-generate_fakeroot"], "full": ["-generate_fakeroot", "-package_hierarchy"],
             "alt": ["-generate_fakeroot", "-skip_enum_deduplication", "-add_enumnames=false"], "ann": ["-generate_fakeroot", "-package_hierarchy", "-skip_enum_deduplication"]}
    viol = []
    counters = dict(cases=len(cs), files=0, messages_fields=0, tags_compared=0, generator_errors=0)
    tagmap = {}     # (schemapath annotation, member field name) -> (number, where)

    # the second member of every colliding pair: with them the generator must either refuse the
    # schema or still write well-formed files; without them it must succeed
    COLLIDERS = {"qevyl7r6", "q4bax692", "q9uylrx1"}

    def gen(c, variant, extra_leaf=None, colliders=False):
        ydir = os.path.join(work, "yang", c.name + "-" + variant)
        m = c.m if colliders else dict(c.m, nodes=[n for n in c.m["nodes"] if n["p"].rsplit("/", 1)[1] not in COLLIDERS])
        yanggen.write_case(m, ydir, extra_leaf=extra_leaf, adv_identities=colliders)
        out = os.path.join(work, "proto", c.name + "-" + variant)
        cmd = [os.path.join(bindir, "proto_generator"), "-logtostderr", "-path=" + ydir, "-output_dir=" + out, "-base_import_path=example.com/pb"] + \
            [f for f in genfam.BEH_FLAGS[c.beh]] + PSETS[c.fs] + genfam.MODS
        p = vf.subprocess.run(cmd, cwd=ydir, env=vf.GOENV, stdout=vf.subprocess.PIPE, stderr=vf.subprocess.STDOUT, text=True)
        return p.returncode, p.stdout, out

    import yanggen

    def one(c):
        res = {}
        res["a"] = gen(c, "a")
        res["b"] = gen(c, "b")
        # an unrelated change: one more leaf in a container the other fields do not live in
        parent = "/top/c-x/config" if c.m["tog"]["oc"] else "/top/c-x"
        if parent in c.nodes:
            res["c"] = gen(c, "c", extra_leaf=(parent, "unrelated-leaf"))
        res["k"] = gen(c, "k", colliders=True)
        return c, res

    with ThreadPoolExecutor(12) as ex:
        results = list(ex.map(one, cs))
    known = {"ywrapper." + n: "message" for n in ("StringValue", "UintValue", "IntValue", "BoolValue", "BytesValue", "Decimal64Value")}
    for c, res in results:
        rc, out, pdir = res["a"]
        if rc != 0 and not c.m.get("supported", True):
            counters["refused_unsupported"] = counters.get("refused_unsupported", 0) + 1
            continue
        if rc != 0:
            counters["generator_errors"] += 1
            last = out.strip().splitlines()[-1] if out.strip() else ""
            viol.append(dict(property="C28", sig=c.sig("generator-error", msg=re.sub(r"[^a-z ]", "", last.lower().split("] ", 1)[-1])[:60]),
                             detail="%s: proto_generator fails on a schema of the supported subset: %s" % (c.label(), out.strip()[-500:]), case=c.case()))
            continue

        def load(pdir):
            files = {}
            for path in sorted(glob.glob(os.path.join(pdir, "**", "*.proto"), recursive=True)):
                files[os.path.relpath(path, pdir)] = open(path).read()
            return files
        def wellformed(files, what):
            parsed = {}
            table = dict(known)
            for rel, text in files.items():
                try:
                    parsed[rel] = protoparse.parse(text)
                    protoparse.symbols(parsed[rel], table)
                except protoparse.ProtoError as e:
                    viol.append(dict(property="C28", sig=c.sig("parse-error"), detail="%s%s: %s does not parse as the proto3 the generator emits: %s" % (c.label(), what, rel, e), case=c.case()))
            counters["files"] += len(parsed)

            def report(conj, detail, **kw):
                viol.append(dict(property="C28", sig=c.sig(conj, **kw), detail="%s%s: %s" % (c.label(), what, detail), case=c.case()))
            for rel, f in parsed.items():
                protoparse.check_file(f, table, rel, report)
            return parsed
        fa = load(pdir)
        parsed = wellformed(fa, "")
        # with colliding names: refused, or well-formed and complete
        rck, outk, pdirk = res["k"]
        if rck != 0:
            counters["collision_schemas_refused"] = counters.get("collision_schemas_refused", 0) + 1
            if "same field number" not in outk and "same enum value" not in outk:
                viol.append(dict(property="C28", sig=c.sig("generator-error-collision-variant"), detail="%s: with the colliding names proto_generator fails for another reason: %s" % (c.label(), outk.strip()[-400:]), case=c.case()))
        else:
            counters["collision_schemas_generated"] = counters.get("collision_schemas_generated", 0) + 1
            pk = wellformed(load(pdirk), " (colliding names)")
            for rel, f in pk.items():
                for it in f["items"]:
                    if it["kind"] == "enum" and it["name"].endswith("BASE") and "-add_enumnames=false" not in PSETS[c.fs]:
                        have = {v["options"].get("(yext.yang_name)", "").strip('"') for v in it["values"]}
                        for ident in ("I-ONE", "I_TWO", "I1vr4b8", "Ibu4tnd"):
                            if ident not in have:
                                viol.append(dict(property="C28", sig=c.sig("identity-value-lost", identity=ident), detail="%s: enum %s has no value for identity %s of its base (values: %s)" % (c.label(), it["name"], ident, sorted(have)), case=c.case()))
        # numbers as a function of the schema path
        def tags(parsed_files):
            out = {}
            for rel, f in parsed_files.items():
                for fq, name, num, sp, typ in protoparse.fields_by_schemapath(f):
                    if sp:
                        out[(sp, name)] = num
            return out
        ta = tags(parsed)
        counters["messages_fields"] += len(ta)
        for key, num in ta.items():
            prev = tagmap.get(key)
            if prev and prev[0] != num:
                viol.append(dict(property="C28", sig=c.sig("number-depends-on-options"), detail="%s: field %s (%s) has number %d here and %d in %s" % (c.label(), key[1], key[0], num, prev[0], prev[1]), case=c.case()))
            tagmap.setdefault(key, (num, c.label()))
        for variant, what in (("b", "a second run"), ("c", "an unrelated leaf added elsewhere")):
            if variant not in res:
                continue
            rc2, out2, pdir2 = res[variant]
            if rc2 != 0:
                viol.append(dict(property="C28", sig=c.sig("generator-error-variant", variant=variant), detail="%s: proto_generator fails with %s: %s" % (c.label(), what, out2.strip()[-300:]), case=c.case()))
                continue
            fb = load(pdir2)
            if variant == "b" and fb != fa:
                diff = sorted(k for k in set(fa) | set(fb) if fa.get(k) != fb.get(k))
                viol.append(dict(property="C25", sig=c.sig("proto-not-deterministic"), detail="%s: two runs of proto_generator differ in %s" % (c.label(), diff), case=c.case()))
            pb = {}
            for rel, text in fb.items():
                try:
                    pb[rel] = protoparse.parse(text)
                except protoparse.ProtoError:
                    pass
            tb = tags(pb)
            for key, num in ta.items():
                counters["tags_compared"] += 1
                if key in tb and tb[key] != num:
                    viol.append(dict(property="C28", sig=c.sig("number-not-stable", variant=variant), detail="%s: with %s the number of field %s (%s) changes from %d to %d" % (c.label(), what, key[1], key[0], num, tb[key]), case=c.case()))
                elif key not in tb:
                    viol.append(dict(property="C28", sig=c.sig("field-lost", variant=variant), detail="%s: with %s field %s (%s) disappears" % (c.label(), what, key[1], key[0]), case=c.case()))
        for rel, f in parsed.items():
            for it in f["items"]:
                if it["kind"] == "enum" and it["name"].endswith("BASE") and len(it["values"]) != 3:
                    viol.append(dict(property="C28", sig=c.sig("identity-value-lost", identity="count"), detail="%s: enum %s has %d values for 2 identities plus UNSET" % (c.label(), it["name"], len(it["values"])), case=c.case()))
    cov = dict(states=mc["distinct"], transitions=mc["states"], traces_validated_against_impl=counters["cases"], exhaustive=False, counters=counters,
               samples=[cs[0].label(), cs[-1].label()], adversarial_names=genfam.ADV_NAMES,
               explanation="SchemaGen.tla cases with 15 adversarial leaf names next to top/a (schema paths whose documented FNV-1 based number is 0, lies in "
               "19000-19999 or 1-1000, or equals a sibling's) and two identities of one base whose value numbers coincide; every case is generated "
               "with proto_generator (compression behaviours x option sets: nested messages, package_hierarchy, skip_enum_deduplication / no enum names) "
               "three times: twice unchanged and once with an unrelated leaf added in another container. Every .proto is parsed by tools/protoparse.py "
               "(there is no protoc here: the parser accepts exactly the grammar protogen emits and rejects everything else) and checked: distinct field "
               "names and numbers per message incl. oneof members, numbers in 1..2^29-1 and outside 19000-19999, enum value names / numbers distinct and "
               "first value 0, type references defined, identifiers valid; numbers equal across runs, option sets, behaviours and the unrelated change.")
    return cov, viol


PROTOMAP_CFG = """SPECIFICATION Spec
CONSTANTS
  Family = "%s"
  Small = %s
INVARIANT RoundTrip
INVARIANT NonCanonicalCollides
INVARIANT AnnotatedPaths
CONSTRAINT Emit
CHECK_DEADLOCK FALSE
"""


def check_c24(tier, seed, work):
    """C24: Protomap.tla enumerates abstract messages over the supported kinds of the repository's
    annotated test protos (Root, ExampleMessage), checks Unflatten(Flatten(m)) = m and that every
    path is annotated; every message is built, flattened by PathsFromProto and rebuilt by
    ProtoFromPaths."""
    h, bindir = vf.prepare(work, ["us"])
    outs = []
    states = 0
    for fam in ("root", "example"):
        mc = vf.run_tlc(work, "Protomap", PROTOMAP_CFG % (fam, "TRUE" if tier == "quick" else "FALSE"), tag="pm" + fam, workers=16)
        states += mc["distinct"]
        outs.append(mc["out"])
    r = run_replay(bindir, h, "protomap", ["-in", ",".join(outs), "-prop", "C24"], work, "protomap")
    emitted = set()
    for o in outs:
        for l in open(o, errors="replace"):
            if l.startswith('"PMROOT ') or l.startswith('"PMEX '):
                emitted.add(l)
    if r["evaluated"] == 0 or r["distinct"] != len(emitted):
        raise Infra("protomap replay evaluated %d of %d model messages" % (r["distinct"], len(emitted)))
    cov = dict(states=states, transitions=states, traces_validated_against_impl=r["evaluated"], exhaustive=True,
               samples=(r.get("samples") or [])[:3] or [dict(family="root", hostname="host", ifs=["eth0"], subs={"eth0": ["18446744073709551615"]}),
                                                         dict(family="example", ui="18446744073709551615", llunb=["e:VAL_TWO", "u:7"], em=["k1"], child=["n1"])],
               counters=r.get("counters"),
               explanation="every message of the bounded model: Root (hostname, 0-2 interfaces keyed by string with optional description, "
               "0-2 subinterfaces each keyed by uint64 0 / 2^64-1 with optional description) and ExampleMessage (string, uint (42, 2^64-1), "
               "bytes wrappers, enum, compressed state leaf, leaf-lists of string, uint and bytes, leaf-lists of a string|uint64|enum union and of "
               "a uint64|enum union of length 0-2 in every order, list em with 0-2 string keys, a member leaf and a nested keyed list). "
               "Messages whose union elements the flattened form cannot distinguish (an enum where a string member precedes it) are "
               "counted under non_canonical_union_messages and only checked for errors and panics. Exhaustive over this grid; the "
               "values themselves are sampled. Kinds the property leaves out (bool, int, decimal64 wrappers, oneof, multi-key lists with "
               "uint32 keys, non-leaf-list unions) are not populated.")
    return cov, r.get("violations") or []


PIPELINES = {
    "C24": check_c24,
    "C26": lambda tier, seed, work: check_gen("C26", tier, seed, work),
    "C27": lambda tier, seed, work: check_gen("C27", tier, seed, work),
    "C29": lambda tier, seed, work: check_gen("C29", tier, seed, work),
    "C28": check_c28,
    "C25": check_c25,
    "C10": lambda tier, seed, work: check_tree("C10", tier, seed, work, "set,setll", ["SetGetFrame"]),
    "C12": lambda tier, seed, work: check_tree("C12", tier, seed, work, "delete", ["DeleteExact"]),
    "C01": lambda tier, seed, work: check_treelaws("C01", tier, seed, work, "c01", ["RoundTrip7951"]),
    "C19": lambda tier, seed, work: check_treelaws("C19", tier, seed, work, "c01", ["RoundTrip7951"], quick_cfgs=["us", "uw", "cw"]),
    "C02": lambda tier, seed, work: check_treelaws("C02", tier, seed, work, "c02", ["RoundTripNotifs"]),
    "C14": lambda tier, seed, work: check_treelaws("C14", tier, seed, work, "c14", ["PruneLaws"]),
    "C03": lambda tier, seed, work: check_pairs("C03", tier, seed, work, "c03", ["DiffLaws"]),
    "C05": lambda tier, seed, work: check_pairs("C05", tier, seed, work, "c05", ["MergeLaws"]),
    "C04": check_c04,
    "C11": check_c11,
    "C20": check_c20,
    "C21": check_c21,
    "C22": lambda tier, seed, work: check_gnmidiff("C22", tier, seed, work),
    "C23": lambda tier, seed, work: check_gnmidiff("C23", tier, seed, work),
    "C32": check_c32,
    "C13": lambda tier, seed, work: check_gnmiset("C13", tier, seed, work, "setreq", ["SetSemantics"]),
    "C06": check_restrict,
    "C07": lambda tier, seed, work: check_feat("C07", tier, seed, work, "valid",
        "FeatModel.tla (mode valid): Valid(t) over vf-feat.yang -- ranges (int8, uint16 with two parts, decimal64), string length and pattern, "
        "defined enumeration / identity members, union members with their own restrictions, binary length, unique configuration leaf-list "
        "values (state leaf-lists may repeat), min/max-elements of leaf-lists and lists, map key = key leaf, at most one case per choice; "
        "three valid base trees, every valid single-field variation and every single-fault mutation; Validate() must fail exactly on the faults.",
        [dict(fault="enum?:99", want="error"), dict(fault="cfgll=[a,a]", want="error"), dict(tree="all second valid values", want="no error")]),
    "C30": lambda tier, seed, work: check_feat("C30", tier, seed, work, "leafref",
        "FeatModel.tla (mode leafref): targets tgt[name] (0-2 entries, id, nested sub entries) x referrers: absolute path, relative path, "
        "reference to a non-key leaf, predicate with current() (tgt[name=current()/../tname]/sub/s), leafref list keys; Dangling(t) from the "
        "node sets; Validate() from the root must fail exactly on dangling references and never with IgnoreMissingData.",
        [dict(tgt=["n1"], abs="n3", dangling=True), dict(tgt=["n1"], tname="n1", sref="s1", subs=[["n1", "s1"]], dangling=False)]),
    "C33": lambda tier, seed, work: check_feat("C33", tier, seed, work, "defaults",
        "FeatModel.tla (mode defaults): twelve defaulted leaves of every type (each set to another value or unset, singly and all but one), "
        "a choice whose default case carries a default, and a list whose entries carry defaults in a leaf and a nested container; after "
        "PopulateDefaults every unset defaulted leaf holds its default, set leaves are unchanged and a tree that validated still validates.",
        [dict(set=[], ch="b1", dl="two-entries")]),
    "C08": check_pathstr,
    "C09": check_pathrel,
    "C16": lambda tier, seed, work: check_codec("C16", tier, seed, work, ["key"]),
    "C17": check_enums,
    "C18": lambda tier, seed, work: check_codec("C18", tier, seed, work, ["json", "tv", "tvtol"]),
    "C15": lambda tier, seed, work: check_helpers("C15", tier, seed, work, "omap"),
    "C34": lambda tier, seed, work: check_helpers("C34", tier, seed, work, "klist"),
    "C31": lambda tier, seed, work: check_gnmiset("C31", tier, seed, work, "unmarshal,unmarshal-extra,unmarshal-extra-ignored,setreq-extra,setreq-extra-ignored", ["MergeFrame"]),
}

ASSUME = ["the independent projector/builder in harness/internal/abs (reflection over struct tags) is correct; it is self-tested on every case (Project(Build(t)) = t)",
          "TLC and the TLA+ semantics of the specification",
          "bounded slice: 2 abstract values, 2 keys per list; concretised over the corpus variants"]


def replay_case(prop, path, work):
    """Re-executes one stored violation (evidence/replay/<id>-<sig>.json) on the current tree:
    exit 1 with the VIOLATION line if it reproduces, 0 if it does not."""
    v = json.load(open(path))
    case = v["case"]
    sub = case.get("sub")
    if sub in (None, "trace", "tlc"):
        log("case of kind %r is re-checked by running the check itself" % sub)
        print(json.dumps(v, indent=1)[:4000])
        return 2
    pkg = case.get("pkg")
    cfgs = [pkg] if pkg in vf.CFGS else ["us", "cw"]
    h, bindir = vf.prepare(work, cfgs, cmds=(case.get("cmd", "replay"),))
    cf = os.path.join(work, "case.json")
    json.dump(case, open(cf, "w"))
    args = ["-case", cf, "-prop", prop, "-pkgs", ",".join(cfgs)]
    for k, flag in (("mode", "-modes"), ("kind", "-kind")):
        if case.get(k):
            args += [flag, case[k]]
    r = run_replay(bindir, h, sub, args, work, "case")
    vs = [x for x in (r.get("violations") or []) if x["property"] == prop]
    for x in vs:
        print("VIOLATION property=%s replay=%s" % (prop, path))
        print("  " + x["detail"][:600])
    if not vs:
        print("not reproduced on the current tree")
    return 1 if vs else 0


def main():
    ap = argparse.ArgumentParser()
    ap.add_argument("prop")
    ap.add_argument("--tier", default=os.environ.get("VERIF_TIER", "quick"))
    ap.add_argument("--replay")
    ap.add_argument("--keep", action="store_true")
    a = ap.parse_args()
    seed = int(os.environ.get("VERIF_SEED", "1"))
    t0 = time.time()
    work = vf.workdir("%s-%s" % (a.prop, a.tier))
    rc = 2
    try:
        if a.prop not in PIPELINES:
            raise Infra("no check for %s" % a.prop)
        if a.replay:
            rc = replay_case(a.prop, a.replay, work)
            return
        cov, violations = PIPELINES[a.prop](a.tier, seed, work)
        rc = vf.finish(a.prop, a.tier, seed, t0, cov, violations, ASSUME)
    except Infra as e:
        log("INFRA-ERROR:", e)
        rc = 2
    except Exception:
        traceback.print_exc()
        rc = 2
    finally:
        if a.replay:
            shutil.rmtree(work, ignore_errors=True)
            sys.exit(rc)
        if not a.keep:
            shutil.rmtree(work, ignore_errors=True)
    log("%s %s: exit %d in %.1fs" % (a.prop, a.tier, rc, time.time() - t0))
    sys.exit(rc)


if __name__ == "__main__":
    main()
