#!/bin/bash
# seedimport.sh <property id> <first new index> : copies /tmp/seed/<id>/out/{patch1,patch2}.diff with
# their demos into seeded/<id>-<n>, seeded/<id>-<n+1> and removes the agent's worktree.
set -u
P=$1; N=$2
for i in 1 2; do
  d=/verif/seeded/$P-$((N+i-1)); mkdir -p $d/demo
  cp /tmp/seed/$P/out/patch$i.diff $d/patch.diff || exit 1
  cp -r /tmp/seed/$P/out/demo$i/. $d/demo/
  cp /tmp/seed/$P/out/notes.md $d/notes.md
  echo "== $d: $(ls $d/demo | tr '\n' ' ')"
  grep -h -o -- "-run [^ ]*" $d/demo/README.txt | head -1
  grep -h -o "go test [^\n]*" $d/demo/README.txt | head -1 | cut -c1-200
done
git -C /repo worktree remove --force /tmp/seed/$P/wt 2>/dev/null; git -C /repo worktree prune
