#!/usr/bin/env python3
"""Regenerates the generated tables of DESIGN.md section 17 in place: 17.3 measured sizes (from
evidence/*.json), 17.4 triage log (fix: commits of /repo joined with known_findings.jsonl), 17.5
known findings, 17.7 seeded changes (seeded/*/meta.json)."""
import json, glob, os, re, subprocess
V = os.path.dirname(os.path.dirname(os.path.abspath(__file__)))
D = os.path.join(V, "DESIGN.md")
s = open(D).read()


def table_after(heading, header_prefix, rows):
    """replaces the markdown table that starts with header_prefix in the section `heading`."""
    global s
    a = s.index(heading)
    t = s.index(header_prefix, a)
    sep_end = s.index("\n", s.index("\n", t) + 1) + 1      # end of the |---| line
    e = sep_end
    while e < len(s) and s[e] == "|":
        e = s.index("\n", e) + 1
    s = s[:sep_end] + "".join(r + "\n" for r in rows) + s[e:]


esc = lambda x: x.replace("|", "\\|")
# 17.3
rows = []
for f in sorted(glob.glob(os.path.join(V, "evidence", "C*.json"))):
    e = json.load(open(f)); c = e["coverage"]
    rows.append("| %s | %s | %s | %s | %d |" % (e["property_id"], c.get("states"), c.get("traces_validated_against_impl"), e["wall_s"], len(e.get("known_findings", []))))
table_after("### 17.3 Measured sizes", "| id | TLC distinct states", rows)
# 17.4
ks = [json.loads(l) for l in open(os.path.join(V, "known_findings.jsonl")) if l.strip()]
fixed = {}
for k in ks:
    if k["status"] == "fixed":
        fixed.setdefault(k["commit"][:8], []).append((k["property"], k["line"].split(" ", 3)[-1]))
log = subprocess.run(["git", "-C", os.environ.get("VERIF_REPO", "/repo"), "log", "--format=%h %s"], capture_output=True, text=True).stdout.splitlines()
rows = []
for l in log:
    h, msg = l.split(" ", 1)
    if not msg.startswith("fix:"):
        continue
    for prop, what in fixed.get(h[:8], [("?", "(from the commit message) " + msg)]):
        rows.append("| %s | %s | %s |" % (h, prop, esc(what)[:330]))
table_after("### 17.4 Triage log", "| commit | property | what failed |", rows)
nfix = len([l for l in log if l.split(" ", 1)[1].startswith("fix:")])
# 17.5
known = [k for k in ks if k["status"] == "known"]
rows = ["| %s | `%s` | %s |" % (k["property"], esc(json.dumps(k.get("match"))), esc(k.get("what") or "")[:420]) for k in known]
table_after("### 17.5 Known findings", "| property | signature | what fails |", rows)
# 17.7
rows = []
for d in sorted(glob.glob(os.path.join(V, "seeded", "C*-*")), key=lambda x: (int(os.path.basename(x)[1:3]), int(os.path.basename(x).split("-")[1]))):
    m = json.load(open(os.path.join(d, "meta.json")))
    rows.append("| %s | %s | %s |" % (os.path.basename(d), esc(m["breaks"])[:230], esc(m.get("detected_by", ""))[:260]))
table_after("### 17.7 Seeded changes", "| seed | what the change breaks | caught by |", rows)
s = re.sub(r"\((\d+) repaired\nby `fix:` commits in /repo, (\d+) recorded as known findings\)", "(%d repaired\nby `fix:` commits in /repo, %d recorded as known findings)" % (nfix, len(known)), s)
open(D, "w").write(s)
print("fix commits %d, known findings %d, seeds %d" % (nfix, len(known), len(rows)))
