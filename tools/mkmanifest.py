#!/usr/bin/env python3
"""Writes MANIFEST.json from the table below (kept here so that it is edited in one place)."""
import json, os
V = os.path.dirname(os.path.dirname(os.path.abspath(__file__)))
BASE = ("Trusted: TLC and the TLA+ semantics of the specification; the hand-written binding in harness/internal/abs "
        "(reflection over struct tags; self-tested on every case: Project(Build(t)) = t) and the reference encoders in "
        "harness/internal/conc; goyang; the Go toolchain. Bounded: 2 abstract values and 2 keys per list in the model, "
        "concretised over corpus variants covering every key and leaf type (schemas/variants.json).")
T = "TLA+ spec + TLC exhaustive model checking; every emitted transition/case replayed on the real code (model-based conformance)"
TT = "TLA+ spec + TLC exhaustive model checking of the state machine; all bounded paths of the emitted state graph replayed on the real code (spec->code) and TLC trace validation of recorded random-driver traces (code->spec)"
TP = "TLA+ spec of the reference semantics checked by TLC on every case of the bounded input universe (each case an initial state, laws as invariants); every emitted case replayed on the real functions (model-based conformance)"
TECH = {"C15": TT, "C34": TT, "C08": TP, "C09": TP, "C06": TP, "C16": TP, "C18": TP}
CHECKS = {
 "C01": ("TreeLaws.tla: TLC checks Dec7951(Enc7951(t)) on every well-formed tree of four slices; each tree is rendered with Marshal7951/EmitJSON (with and without module prefixes), unmarshalled into an empty root, compared through the independent projector, and re-rendered byte-for-byte, for compressed/uncompressed and simple/wrapper-union packages.", "8/C01"),
 "C02": ("TreeLaws.tla: notifications model (one plain notification, one atomic per ordered list) and its application checked by TLC on every tree; each tree goes through the real TogNMINotifications (root and prefixed sub-struct) and UnmarshalNotifications into an empty root.", "8/C02"),
 "C03": ("PairLaws.tla: operational Diff / DiffWithAtomic and their application vs the declarative soundness, completeness, minimality, self-diff and IgnoreAdditions laws on every ordered pair of trees of three slices; each pair replayed on the real Diff/DiffWithAtomic, the notifications applied to a rebuilt copy of a and every update/delete checked for minimality by applying it alone.", "8/C03"),
 "C04": ("HeapModel.tla shows disjoint mutable cells are equivalent to mutation-invisibility; the real DeepCopy (every tree) and MergeStructs (every pair) results are walked for shared addresses of all mutable cell kinds and then every cell of one side is mutated in place while the other side is re-projected.", "8/C04"),
 "C05": ("PairLaws.tla: per-field-kind operational merge vs declarative compatibility, union, commutativity and overwrite laws on every ordered pair of trees; each pair replayed on MergeStructs with and without MergeOverwriteExistingFields: success flag, projected result, inputs unchanged.", "8/C05"),
 "C06": ("Restrict.tla: range/length restrictions as unions of parts over an ordered symbolic domain, and regular expressions as ASTs whose bounded languages TLC computes under whole-string semantics (XSD reading and anchor reading of a leading ^ / trailing $; only strings on which both agree are decisive); every (parts, value) case is concretised for every integer width, decimal64, string length (characters) and binary length (bytes), every (pattern, string) case runs through ValidateStringRestrictions (single pattern, two patterns, posix-pattern precedence), including the never-fails-every-value clause.", "8/C06"),
 "C08": ("PathStr.tla: the documented path-string grammar as a reference encoder and a character-by-character reference decoder; TLC checks RefDec(RefEnc(p)) = p on every path of the bounded universe (values over the 10-character escape alphabet up to length 3/4, two-element and two-key combinations) and emits the cases; the real PathToString, StringToStructuredPath, PathToStrings and StringToStringSlicePath are run on every case: round trip, injectivity over the whole enumeration, and the legacy string-slice law.", "8/C08"),
 "C09": ("PathRel.tla: a path denotes the set of concrete paths it matches (missing or '*' key = wildcard, subtree included); TLC checks the ComparePaths-shaped compositional algorithm against the set-relation definition on every ordered pair of the bounded universe and emits the expected relation plus the helper-function answers; the real ComparePaths (8 evaluations per pair, swap symmetry), PathMatchesQuery, PathMatchesPrefix, PathMatchesPathElemPrefix, TrimGNMIPathElemPrefix, FindPathElemPrefix and JoinPaths are compared on every pair.", "8/C09"),
 "C10": ("TreeMachine.tla: TLC checks the operational SetNode model against the declarative get/frame property on every state and transition of four slices; every emitted set transition is replayed on the real SetNode+GetNode for every corpus variant (typed and JSON payloads), plus random walks through the state graph on one live tree.", "8/C10"),
 "C12": ("TreeMachine.tla: operational DeleteNode (remove subtree, prune upwards) vs RemovedExactly / idempotence / absent-data laws; every delete transition (leaf, leaf-list, container, presence container, entry, whole list, present or absent) is replayed on the real DeleteNode and the projected tree and GetNode compared.", "8/C12"),
 "C13": ("GnmiSet.tla: a SetRequest executed operation by operation (prefix join, deletes, replaces, updates; scalar, leaf-list and JSON payloads) vs the reference semantics on the path->value map; every completed request of the bounded model is replayed on the real UnmarshalSetRequest with random prefix splits.", "8/C13"),
 "C14": ("TreeLaws.tla: operational bottom-up prune and BuildEmptyTree vs the declarative laws (nothing set is lost, no empty container remains, idempotent, build+prune preserves leaves) on every tree incl. empty containers and ordered lists with nested containers; replayed on the real PruneEmptyBranches/BuildEmptyTree under recover().", "8/C14"),
 "C15": ("OrderedMap.tla: implementation-shaped state (alloc, keys slice, valueMap) of the generated ordered map and the parent helpers against the reference insertion-ordered unique-key map; TLC checks every call law and emits the complete state graph (3 single and 3 two-part keys); every call sequence up to the tier's length bound is executed on the generated code of every ordered list of the corpus with return values and internal state compared after every call, every read-only call run in every state (returned slices scribbled over), order re-checked through JSON, gNMI and DeepCopy; traces of a model-independent random driver are validated by TLC against TraceOrderedMap.tla.", "8/C15"),
 "C34": ("KeyedList.tla: the generated New/GetOrCreate/GetOrCreateMap/Get/Append/Delete/Rename helpers as a state machine against the reference key->entry map (duplicates and nil keys rejected without change, GetOrCreate idempotent, Get never creates, Rename moves and rewrites key leaves); full state graph emitted by TLC, all call sequences up to the tier's bound replayed on the helpers of every keyed list (every key type, single and two-key), plus TLC validation of random-driver traces against TraceKeyedList.tla.", "8/C34"),
 "C16": ("Codec.tla (mode key): every key type x value class with the class of key string it is written as; for every list of the corpus whose key has that type (single and multi-key, ordered and unordered, leafref keys in the OpenConfig-style module) the entry is built next to a decoy entry, the key strings of TogNMINotifications and Diff are compared, and GetNode / SetNode / DeleteNode are run with the produced path: they must address exactly that entry and recreate its key leaves.", "8/C16"),
 "C18": ("Codec.tla (modes json, tv): the value space of every leaf type as symbolic classes, the canonical encoding Enc and the verdict Dec of every (type, JSON input class) and (type, TypedValue class) as denotes-v / must-reject / unspecified; TLC checks Dec(Enc(v)) = denotes v and emits every case; each is concretised (type bounds, 2^53+1, fractions, malformed strings, wrong kinds, every oneof) and decoded by Unmarshal and SetNode into every corpus leaf of the type: must-reject inputs must fail, accepted ones must store the denoted value and re-render to the same value.", "8/C18"),
 "C19": ("TreeLaws.tla Enc7951 plus the reference RFC 7951 encoder (harness/internal/conc): every tree's Marshal7951/EmitJSON output is decoded and compared token by token (JSON kind, 64-bit/decimal64 strings in RFC 7950 lexical form, base64, [null], enum names, identityref and member-name module prefixes) for both AppendModuleName settings.", "8/C19"),
 "C31": ("GnmiSet.tla MergeFrame/MergeDoc: JSON documents assigning up to 2 leaves merged into every reachable tree; replayed on the generated Unmarshal with and without unknown members and IgnoreExtraFields.", "8/C31"),
}
NA_REASON = "check not built yet (work in progress; see DESIGN.md section 16 for the build order)"

def chk(pid, text, ref):
    return {"property_id": pid, "quick_cmd": "python3 tools/check.py %s --tier quick" % pid,
            "thorough_cmd": "python3 tools/check.py %s --tier thorough" % pid,
            "evidence_file": "/verif/evidence/%s.json" % pid,
            "replay_cmd_template": "python3 tools/check.py %s --replay {path}" % pid, "engine": "tla-conformance",
            "level_claimed": {"category": "model_checking", "text": text, "design_ref": ref},
            "level_note": BASE, "technique": TECH.get(pid, T)}

hooks = json.load(open(os.path.join(V, "hooks.json"))) if os.path.exists(os.path.join(V, "hooks.json")) else {"source_commits": []}
m = {"version": 1, "setup_cmd": "python3 tools/setup.py",
     "hooks": {"guard": "verif", "enable": "go build -tags verif (the harness module replaces github.com/openconfig/ygot with /repo)",
               "baseline_off_cmd": "bash /verif/tools/baseline.sh", "source_commits": hooks["source_commits"], "add_only": True},
     "engines": [{"name": "tla-conformance", "path": "tools/check.py", "serves_properties": sorted(CHECKS),
                  "kind_free_text": "explicit TLA+ specification (spec/*.tla) checked by TLC; every transition / case of the bounded model is emitted by TLC and replayed on the real code built from /repo's working tree (spec->code); recorded traces of the real code are validated by TLC against trace specifications (code->spec)"}],
     "checks": [chk(p, *CHECKS[p]) for p in sorted(CHECKS)],
     "not_applicable": []}
for l in open(os.path.join(V, "properties.jsonl")):
    p = json.loads(l)
    if p["id"] not in CHECKS:
        m["not_applicable"].append({"property_id": p["id"], "reason": NA_REASON})
json.dump(m, open(os.path.join(V, "MANIFEST.json"), "w"), indent=1)
print(len(m["checks"]), "checks,", len(m["not_applicable"]), "not applicable")
