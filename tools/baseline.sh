#!/bin/bash
# Runs the repository's baseline test packages with the verif guard OFF.
cd /repo && GOFLAGS=-mod=readonly GOPROXY=off go test -vet=off -count=1 -timeout 25m \
  ./demo/protobuf_getting_started ./generator ./genutil ./gnmidiff/gnmiparse ./gogen ./gogen/internal/gotypes \
  ./integration_tests ./integration_tests/schemaops ./internal/yreflect ./protogen ./protomap \
  ./protomap/integration_tests ./testutil ./util ./yangschema ./ygen ./ygot ./ygot/pathtranslate ./ypathgen ./ytypes "$@"
