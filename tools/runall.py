#!/usr/bin/env python3
"""Runs the quick (or thorough) command of every check in MANIFEST.json, N at a time."""
import json, subprocess, sys, time, os
from concurrent.futures import ThreadPoolExecutor
V = os.path.dirname(os.path.dirname(os.path.abspath(__file__)))
tier = sys.argv[1] if len(sys.argv) > 1 else "quick"
par = int(sys.argv[2]) if len(sys.argv) > 2 else 3
only = sys.argv[3].split(",") if len(sys.argv) > 3 else None
m = json.load(open(os.path.join(V, "MANIFEST.json")))
def run(c):
    cmd = c["quick_cmd"] if tier == "quick" else c.get("thorough_cmd", c["quick_cmd"])
    t0 = time.time()
    p = subprocess.run(cmd, shell=True, cwd=V, stdout=subprocess.PIPE, stderr=subprocess.STDOUT, text=True)
    viol = [l for l in p.stdout.splitlines() if l.startswith("VIOLATION") or l.startswith("INFRA")]
    return c["property_id"], p.returncode, time.time() - t0, viol[:3]
cs = [c for c in m["checks"] if not only or c["property_id"] in only]
with ThreadPoolExecutor(par) as ex:
    for pid, rc, secs, viol in ex.map(run, cs):
        print("%s exit %d in %.0fs %s" % (pid, rc, secs, " | ".join(v[:200] for v in viol)), flush=True)
