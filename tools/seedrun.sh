#!/bin/bash
# seedrun.sh <seeded dir> <property id> [tier] : runs the property's check against a scratch
# worktree of /repo's HEAD with the seeded patch applied (VERIF_REPO), never touching /repo.
set -u
D=$1; P=$2; TIER=${3:-quick}
WT=$(mktemp -d /tmp/seedr.XXXXXX)
git -C /repo worktree add --detach "$WT" HEAD >/dev/null 2>&1 || { echo "worktree failed"; exit 2; }
cleanup() { git -C /repo worktree remove --force "$WT" >/dev/null 2>&1; rm -rf "$WT"; }
trap cleanup EXIT
(cd "$WT" && (git apply --3way "$D/patch.diff" 2>/dev/null || git apply "$D/patch.diff")) || { echo "patch does not apply"; exit 2; }
cd /verif && VERIF_REPO="$WT" VERIF_EVIDENCE_DIR="$WT/.evidence" python3 tools/check.py "$P" --tier "$TIER" > "$WT/.check.log" 2>&1
grep -E "^(VIOLATION|KNOWN|INFRA|  )" "$WT/.check.log" | cut -c1-300 | head -${SEED_LINES:-12}
grep -E "^$P [a-z]+: exit" "$WT/.check.log" | tail -1
