package main

import (
	"bufio"
	"encoding/json"
	"flag"
	"fmt"
	"math/rand"
	"os"
	"reflect"
	"runtime/debug"
	"sort"
	"strings"
	"sync"

	gpb "github.com/openconfig/gnmi/proto/gnmi"
	"github.com/openconfig/goyang/pkg/yang"
	"github.com/openconfig/ygot/ygot"
	"github.com/openconfig/ygot/ytypes"
	"google.golang.org/protobuf/encoding/prototext"
	"google.golang.org/protobuf/proto"

	"verif/harness/internal/abs"
	"verif/harness/internal/conc"
	"verif/harness/internal/reg"
	"verif/harness/internal/rep"
)

func init() { subcmds["tree"] = treeCmd }

// Edge is one transition printed by Emit in TreeMachine.tla.
type Edge struct {
	Pre  conc.ATree `json:"pre"`
	Act  Act        `json:"act"`
	Post conc.ATree `json:"post"`
}

// Act is the call label.
type Act struct {
	Op   string          `json:"op"`
	P    []string        `json:"p"`
	V    json.RawMessage `json:"v"`
	Kind string          `json:"kind"`
}

func (a Act) val() string {
	var s string
	json.Unmarshal(a.V, &s)
	return s
}

func (a Act) vals() []string {
	var s []string
	json.Unmarshal(a.V, &s)
	return s
}

// TreeCase is a self-contained replayable case.
type TreeCase struct {
	Sub     string `json:"sub"`
	Edge    *Edge  `json:"edge"`
	Pkg     string `json:"pkg"`
	Variant string `json:"variant"`
	Seed    int64  `json:"seed"`
	Enc     string `json:"enc"`
}

var (
	schemaMu    sync.Mutex
	schemaCache = map[string]*yang.Entry{}
)

func rootSchema(pkg *reg.Pkg) (*yang.Entry, error) {
	schemaMu.Lock()
	defer schemaMu.Unlock()
	if s, ok := schemaCache[pkg.Name]; ok {
		return s, nil
	}
	sch, err := pkg.Schema()
	if err != nil {
		return nil, err
	}
	schemaCache[pkg.Name] = sch.RootSchema()
	return sch.RootSchema(), nil
}

// readEdges reads the EDGE lines of a TLC output file.
func readLines(path, tag string) ([]string, error) {
	f, err := os.Open(path)
	if err != nil {
		return nil, err
	}
	defer f.Close()
	var out []string
	seen := map[string]bool{}
	sc := bufio.NewScanner(f)
	sc.Buffer(make([]byte, 1<<20), 1<<26)
	for sc.Scan() {
		l := sc.Text()
		if strings.HasPrefix(l, "\""+tag+" ") {
			// TLA+ string: strip quotes and unescape
			var s string
			if err := json.Unmarshal([]byte(l), &s); err != nil {
				return nil, fmt.Errorf("bad line %.80s: %v", l, err)
			}
			l = s
		}
		if !strings.HasPrefix(l, tag+" ") {
			continue
		}
		l = l[len(tag)+1:]
		if seen[l] {
			continue
		}
		seen[l] = true
		out = append(out, l)
	}
	// TLC's workers print in a schedule-dependent order: sort, so that everything derived from
	// the position of a case (variant rotation, concretisation seed) is reproducible
	sort.Strings(out)
	return out, sc.Err()
}

func pathString(p *gpb.Path) string {
	s, _ := ygot.PathToString(p)
	if s == "" {
		s = prototext.MarshalOptions{}.Format(p)
	}
	return s
}

// guard runs f and converts a panic into an error string.
func guard(f func() error) (err error, panicked string) {
	defer func() {
		if r := recover(); r != nil {
			panicked = fmt.Sprintf("%v\n%s", r, debug.Stack())
		}
	}()
	return f(), ""
}

func treeCmd(args []string) *rep.Result {
	fs := flag.NewFlagSet("tree", flag.ExitOnError)
	var c common
	c.register(fs)
	ops := fs.String("ops", "set,setll,delete", "operations to replay")
	encs := fs.String("encs", "typed,json", "payload encodings")
	walks := fs.Int("walks", 0, "number of random walks through the edge graph per (pkg, variant)")
	walkLen := fs.Int("walklen", 12, "length of each walk")
	fs.Parse(args)
	res := rep.New()
	defer func() { res.Write(c.out) }()

	cp, err := conc.Load(c.corpus)
	if err != nil {
		res.InfraErr("corpus: %v", err)
		return res
	}
	if c.caseFile != "" {
		b, err := os.ReadFile(c.caseFile)
		if err != nil {
			res.InfraErr("case: %v", err)
			return res
		}
		var tc TreeCase
		if err := json.Unmarshal(b, &tc); err != nil {
			res.InfraErr("case: %v", err)
			return res
		}
		pkg := reg.Get(tc.Pkg)
		if pkg == nil {
			res.InfraErr("unknown package %s", tc.Pkg)
			return res
		}
		runTreeEdge(tc.Edge, pkg, &conc.Ctx{C: cp, V: cp.Variants[tc.Variant], Seed: tc.Seed}, tc.Enc, c.prop, res)
		return res
	}
	lines, err := readLines(c.in, "EDGE")
	if err != nil {
		res.InfraErr("edges: %v", err)
		return res
	}
	wantOp := map[string]bool{}
	for _, o := range strings.Split(*ops, ",") {
		wantOp[o] = true
	}
	var edges []*Edge
	for _, l := range lines {
		e := &Edge{}
		if err := json.Unmarshal([]byte(l), e); err != nil {
			res.InfraErr("edge: %v", err)
			return res
		}
		edges = append(edges, e)
	}
	res.Extra["edges_emitted"] = len(edges)
	if len(edges) == 0 {
		res.InfraErr("no edges in %s", c.in)
		return res
	}
	type job struct {
		s   int64 // concretisation seed of the case
		e   *Edge
		pkg *reg.Pkg
		v   string
		enc string
	}
	jobs := make(chan job, 1024)
	var wg sync.WaitGroup
	for i := 0; i < c.workers; i++ {
		wg.Add(1)
		go func() {
			defer wg.Done()
			for j := range jobs {
				safely(res, "tree", &TreeCase{Sub: "tree", Edge: j.e, Pkg: j.pkg.Name, Variant: j.v, Seed: j.s, Enc: j.enc}, func() {
					runTreeEdge(j.e, j.pkg, &conc.Ctx{C: cp, V: cp.Variants[j.v], Seed: j.s}, j.enc, c.prop, res)
				})
			}
		}()
	}
	n := 0
	distinct := 0
	for i, e := range edges {
		if !wantOp[e.Act.Op] {
			continue
		}
		distinct++
		for _, pkg := range c.packages() {
			vs := c.variantsFor(cp, pkg)
			for vi, v := range vs {
				// quick tier: seed-rotated subset of variants per edge (limit > 0 gives the stride)
				if c.limit > 0 && (i+vi+int(c.seed))%c.limit != 0 {
					continue
				}
				for _, enc := range strings.Split(*encs, ",") {
					if e.Act.Op == "delete" && enc != "typed" {
						continue
					}
					jobs <- job{s: c.seed + int64(i%13), e: e, pkg: pkg, v: v, enc: enc}
					n++
				}
			}
		}
	}
	close(jobs)
	wg.Wait()
	res.Distinct = distinct

	// random walks through the state graph on one real tree (no rebuild between steps):
	// histories, and hidden state that Build does not produce.
	if *walks > 0 {
		graph := map[string][]*Edge{}
		for _, e := range edges {
			graph[treeKey(&e.Pre)] = append(graph[treeKey(&e.Pre)], e)
		}
		for _, pkg := range c.packages() {
			for _, v := range c.variantsFor(cp, pkg) {
				rng := rand.New(rand.NewSource(c.seed*1000 + int64(len(v))))
				for w := 0; w < *walks; w++ {
					runWalk(graph, pkg, &conc.Ctx{C: cp, V: cp.Variants[v], Seed: c.seed + int64(w)}, *walkLen, rng, wantOp, c.prop, res)
				}
			}
		}
	}
	return res
}

// treeKey is a canonical key of an abstract tree (nil and empty slices coincide).
func treeKey(a *conc.ATree) string {
	n := func(r []json.RawMessage) []json.RawMessage {
		if r == nil {
			return []json.RawMessage{}
		}
		return r
	}
	ct := a.Ct
	if ct == nil {
		ct = [][]string{}
	}
	k, _ := json.Marshal(conc.ATree{Lv: n(a.Lv), Ll: n(a.Ll), En: n(a.En), Oe: n(a.Oe), Ct: ct})
	return string(k)
}

func kindOfPath(e *Edge) string {
	if e.Act.Kind != "" {
		return e.Act.Kind
	}
	return "leaf"
}

// applyAct performs the call of edge e on root. It returns the error of the call and
// the gNMI path used.
func applyAct(e *Edge, root ygot.GoStruct, sch *yang.Entry, pkg *reg.Pkg, x *conc.Ctx, enc string, res *rep.Result) (*gpb.Path, *gpb.TypedValue, string, error, string, error) {
	path, err := x.GNMIPath(e.Act.P, pkg)
	if err != nil {
		return nil, nil, "", nil, "", err
	}
	steps, _ := x.Resolve(e.Act.P)
	pos := steps[len(steps)-1].Pos
	typ := x.TypeAt(pos)
	var tv *gpb.TypedValue
	var want string
	switch e.Act.Op {
	case "set":
		cv, err := x.Value(pos, e.Act.val())
		if err != nil {
			return nil, nil, "", nil, "", err
		}
		want = cv
		if enc == "json" {
			tv = conc.JSONIETF(conc.JSONValue(cv, typ))
		} else {
			tv = conc.TypedValue(cv, typ)
		}
	case "setll":
		var cvs []string
		var js []interface{}
		for _, a := range e.Act.vals() {
			cv, err := x.Value(pos, a)
			if err != nil {
				return nil, nil, "", nil, "", err
			}
			cvs = append(cvs, cv)
			js = append(js, conc.JSONValue(cv, typ))
		}
		want = strings.Join(cvs, " ")
		if enc == "json" {
			tv = conc.JSONIETF(js)
		} else {
			tv = conc.LeafListValue(cvs, typ)
		}
	}
	var callErr error
	var pan string
	switch e.Act.Op {
	case "set", "setll":
		tvBefore, pathBefore := proto.Clone(tv), proto.Clone(path)
		callErr, pan = guard(func() error {
			return ytypes.SetNode(sch, root, path, tv, &ytypes.InitMissingElements{})
		})
		if !proto.Equal(tvBefore, tv) || !proto.Equal(pathBefore, path) {
			res.Violate("C11", map[string]string{"conjunct": "setnode-mutates-message", "enc": enc, "type": typ},
				fmt.Sprintf("SetNode modified the path or TypedValue it was given: %v -> %v", tvBefore, tv), &TreeCase{Sub: "tree", Edge: e, Pkg: pkg.Name, Variant: x.V.Name, Seed: x.Seed, Enc: enc})
		}
		// the tolerance option takes the value through the JSON-inconsistency branch
		if num := tolerantNumber(tv); num != nil {
			scratch := pkg.NewRoot()
			numBefore := proto.Clone(num)
			guard(func() error {
				return ytypes.SetNode(sch, scratch, path, num, &ytypes.InitMissingElements{}, &ytypes.TolerateJSONInconsistencies{})
			})
			if !proto.Equal(numBefore, num) {
				res.Violate("C11", map[string]string{"conjunct": "setnode-tolerant-mutates-message", "type": typ},
					fmt.Sprintf("SetNode with TolerateJSONInconsistencies modified the TypedValue it was given: %v -> %v", numBefore, num), &TreeCase{Sub: "tree", Edge: e, Pkg: pkg.Name, Variant: x.V.Name, Seed: x.Seed, Enc: enc})
			}
		}
	case "goc":
		callErr, pan = guard(func() error {
			_, _, err := ytypes.GetOrCreateNode(sch, root, path)
			return err
		})
	case "delete":
		pathBefore := proto.Clone(path)
		callErr, pan = guard(func() error { return ytypes.DeleteNode(sch, root, path) })
		if !proto.Equal(pathBefore, path) {
			res.Violate("C11", map[string]string{"conjunct": "deletenode-mutates-path"}, fmt.Sprintf("DeleteNode modified its path: %v -> %v", pathBefore, path),
				&TreeCase{Sub: "tree", Edge: e, Pkg: pkg.Name, Variant: x.V.Name, Seed: x.Seed, Enc: enc})
		}
	default:
		return nil, nil, "", nil, "", fmt.Errorf("unknown op %s", e.Act.Op)
	}
	return path, tv, want, callErr, pan, nil
}

// abstractDiff keeps the kind of each difference only (so that drift notes de-duplicate).
func abstractDiff(d []string) string {
	seen := map[string]bool{}
	var out []string
	for _, x := range d {
		f := strings.Fields(x)
		k := x
		if len(f) >= 2 {
			k = f[0] + " " + f[1]
		}
		if !seen[k] {
			seen[k] = true
			out = append(out, k)
		}
	}
	return strings.Join(out, "; ")
}

func typeClass(x *conc.Ctx, ap []string) (keyTypes, leafType string) {
	steps, err := x.Resolve(ap)
	if err != nil || len(steps) == 0 {
		return "", ""
	}
	var kt []string
	for _, s := range steps {
		for _, kn := range s.KN {
			if s.Keys != nil {
				kt = append(kt, x.TypeAt(s.Pos+"/"+kn))
			}
		}
	}
	last := steps[len(steps)-1]
	return strings.Join(kt, ","), x.TypeAt(last.Pos)
}

func sigFor(prop, conjunct string, e *Edge, pkg *reg.Pkg, x *conc.Ctx, enc string) map[string]string {
	kt, lt := typeClass(x, e.Act.P)
	schemaPath := []string{}
	for _, s := range e.Act.P {
		if !(len(s) == 2 && s[0] == 'K') && !strings.Contains(s, ".") {
			schemaPath = append(schemaPath, s)
		}
	}
	sig := map[string]string{"op": e.Act.Op, "conjunct": conjunct, "node": strings.Join(schemaPath, "/"), "kind": kindOfPath(e)}
	if kt != "" {
		sig["keytype"] = kt
	}
	if lt != "" {
		sig["leaftype"] = lt
	}
	if e.Act.Op != "delete" {
		sig["enc"] = enc
	}
	if pkg.Compressed {
		sig["compressed"] = "true"
	}
	return sig
}

// checkStep compares the outcome of one call with the model's prediction and reports
// violations of C10 / C12 (by op), given the pre and post projections.
func checkStep(e *Edge, pkg *reg.Pkg, x *conc.Ctx, enc, prop string, root ygot.GoStruct, sch *yang.Entry,
	path *gpb.Path, want string, callErr error, pan string, pre, got, exp *abs.Tree, tc *TreeCase, res *rep.Result) {
	if pan != "" {
		res.Violate("C20", sigFor("C20", "panic", e, pkg, x, enc), "panic in "+e.Act.Op+" "+pathString(path)+": "+firstLine(pan), tc)
		return
	}
	if hasUnsetKeyLeaf(&e.Pre, x.C) {
		if e.Act.Op != "delete" {
			res.Count("unspecified_unset_key_leaf", 1)
			return
		}
		// DeleteNode finds an entry whose key leaf is unset by its map key: specified
		res.Count("delete_with_unset_key_leaf", 1)
	}
	switch e.Act.Op {
	case "set", "setll":
		if callErr != nil {
			// the property speaks about successful SetNode calls only
			res.Count("set_rejected", 1)
			kt, lt := typeClass(x, e.Act.P)
			res.DriftNote(fmt.Sprintf("SetNode rejected a type-correct payload: enc=%s leaftype=%s keytype=%s: %.120s", enc, lt, kt, callErr.Error()))
			return
		}
		// frame: every other leaf keeps its value apart from created key leaves (the model's post)
		if d := abs.Diff(got, exp, false); len(d) > 0 {
			res.Violate("C10", sigFor("C10", "frame", e, pkg, x, enc),
				fmt.Sprintf("after SetNode(%s) the tree differs from the model: %s", pathString(path), strings.Join(d, "; ")), tc)
			return
		}
		if d := abs.Diff(got, exp, true); len(d) > 0 {
			res.DriftNote("containers after SetNode differ from model: " + strings.Join(d, "; "))
		}
		// get: exactly one node holding the value in the leaf's Go type
		var nodes []*ytypes.TreeNode
		gerr, gpan := guard(func() error {
			var err error
			nodes, err = ytypes.GetNode(sch, root, path)
			return err
		})
		if gpan != "" {
			res.Violate("C20", sigFor("C20", "panic", e, pkg, x, enc), "panic in GetNode "+pathString(path)+": "+firstLine(gpan), tc)
			return
		}
		if gerr != nil || len(nodes) != 1 {
			res.Violate("C10", sigFor("C10", "get", e, pkg, x, enc),
				fmt.Sprintf("GetNode(%s) after SetNode: err=%v nodes=%d, want exactly one", pathString(path), gerr, len(nodes)), tc)
			return
		}
		gotv := canonData(nodes[0].Data, pkg)
		if gotv != want {
			res.Violate("C10", sigFor("C10", "get", e, pkg, x, enc),
				fmt.Sprintf("GetNode(%s) returned %q after setting %q", pathString(path), gotv, want), tc)
		}
		// GetNode is read-only
		if after := conc.Restrict(abs.Project(root, pkg), x.V); !abs.Equal(after, got, true) {
			res.Violate("C11", sigFor("C11", "getnode-mutates", e, pkg, x, enc), "GetNode changed the tree: "+strings.Join(abs.Diff(after, got, true), "; "), tc)
		}
	case "goc":
		// extension beyond the listed properties: disagreements are drift notes
		res.Count("goc_calls", 1)
		kind := kindOfPath(e)
		comp := map[bool]string{true: "compressed", false: "uncompressed"}[pkg.Compressed]
		switch {
		case callErr != nil:
			res.Count("goc_errors", 1)
			res.DriftNote(fmt.Sprintf("EXT goc: GetOrCreateNode of a %s (%s) fails: %.100s", kind, comp, callErr.Error()))
		case len(abs.Diff(got, exp, false)) > 0:
			// a pointer-typed leaf that is the target itself comes back allocated with the Go zero
			// value (implementation-defined: the model leaves the leaf's value open)
			d := abs.Diff(got, exp, false)
			if ap, err := x.AbsPath(e.Act.P); err == nil && kind == "leaf" && len(d) == 1 && strings.HasPrefix(d[0], "unexpected: leaf "+abs.Pretty(ap.String())+" = ") {
				res.Count("goc_leaf_zero_initialised", 1)
				break
			}
			res.Count("goc_leaf_diffs", 1)
			res.DriftNote(fmt.Sprintf("EXT goc: after GetOrCreateNode of a %s (%s) the leaves differ from the model: %.200s", kind, comp, abstractDiff(d)))
		case len(abs.Diff(got, exp, true)) > 0:
			res.Count("goc_container_diffs", 1)
			res.DriftNote(fmt.Sprintf("EXT goc: after GetOrCreateNode of a %s (%s) the containers differ from the model: %.200s", kind, comp, abstractDiff(abs.Diff(got, exp, true))))
		default:
			res.Count("goc_agree", 1)
		}
	case "delete":
		if d := abs.Diff(got, exp, true); len(d) > 0 {
			conj := "removed-exactly"
			leafDiff := abs.Diff(got, exp, false)
			if len(leafDiff) == 0 {
				conj = "prune"
			}
			detail := fmt.Sprintf("after DeleteNode(%s) [err=%v] the tree differs from the model: %s", pathString(path), callErr, strings.Join(d, "; "))
			res.Violate("C12", sigFor("C12", conj, e, pkg, x, enc), detail, tc)
			return
		}
		if callErr != nil {
			res.DriftNote(fmt.Sprintf("DeleteNode(%s kind) returned an error although the tree is as predicted: %.100s", kindOfPath(e), callErr.Error()))
		}
		// GetNode finds no data at or below p
		var nodes []*ytypes.TreeNode
		gerr, gpan := guard(func() error {
			var err error
			nodes, err = ytypes.GetNode(sch, root, path)
			return err
		})
		if gpan != "" {
			res.Violate("C20", sigFor("C20", "panic", e, pkg, x, enc), "panic in GetNode "+pathString(path)+": "+firstLine(gpan), tc)
			return
		}
		if gerr == nil {
			for _, n := range nodes {
				if n.Data != nil && !isNilData(n.Data) {
					res.Violate("C12", sigFor("C12", "get-after-delete", e, pkg, x, enc),
						fmt.Sprintf("GetNode(%s) after DeleteNode still returns data %v", pathString(path), canonData(n.Data, pkg)), tc)
					break
				}
			}
		}
	}
}

// hasUnsetKeyLeaf reports whether some list entry of the abstract tree lacks one of its
// key leaves. Such trees are schema-invalid transitory states; what SetNode/DeleteNode/
// GetNode do on them is not fixed by C10/C12 (unspecified: replayed for panics only).
func hasUnsetKeyLeaf(a *conc.ATree, cp *conc.Corpus) bool {
	have := map[string]bool{}
	for _, r := range a.Lv {
		var raw []json.RawMessage
		var p []string
		if json.Unmarshal(r, &raw) == nil && len(raw) == 2 && json.Unmarshal(raw[0], &p) == nil {
			have[strings.Join(p, "/")] = true
		}
	}
	chk := func(rs []json.RawMessage) bool {
		for _, r := range rs {
			var raw []json.RawMessage
			var p, ks []string
			if json.Unmarshal(r, &raw) != nil || len(raw) != 2 {
				continue
			}
			json.Unmarshal(raw[0], &p)
			json.Unmarshal(raw[1], &ks)
			var names []string
			for _, s := range p {
				if !(len(s) >= 2 && s[0] == 'K') {
					names = append(names, s)
				}
			}
			for _, k := range ks {
				for _, kn := range cp.Lists[strings.Join(names, "/")] {
					if !have[strings.Join(p, "/")+"/"+k+"/"+kn] {
						return true
					}
				}
			}
		}
		return false
	}
	return chk(a.En) || chk(a.Oe)
}

func isNilData(d interface{}) bool {
	v := reflect.ValueOf(d)
	switch v.Kind() {
	case reflect.Ptr, reflect.Map, reflect.Slice, reflect.Interface:
		return v.IsNil() || (v.Kind() != reflect.Ptr && v.Len() == 0)
	case reflect.Int64:
		return v.Int() == 0 && strings.HasPrefix(v.Type().Name(), "E_")
	case reflect.Bool:
		return v.Type().Name() == "YANGEmpty" && !v.Bool()
	}
	return false
}

func canonData(d interface{}, pkg *reg.Pkg) string {
	v := reflect.ValueOf(d)
	if !v.IsValid() {
		return "<nil>"
	}
	if v.Kind() == reflect.Slice && v.Type().Elem().Kind() != reflect.Uint8 {
		var out []string
		for i := 0; i < v.Len(); i++ {
			s, ok := abs.CanonScalar(v.Index(i), pkg)
			if !ok {
				s = "unset"
			}
			out = append(out, s)
		}
		return strings.Join(out, " ")
	}
	s, ok := abs.CanonScalar(v, pkg)
	if !ok {
		return "<unset>"
	}
	return s
}

func firstLine(s string) string {
	if i := strings.Index(s, "\n"); i >= 0 {
		return s[:i]
	}
	return s
}

func runTreeEdge(e *Edge, pkg *reg.Pkg, x *conc.Ctx, enc, prop string, res *rep.Result) {
	tc := &TreeCase{Sub: "tree", Edge: e, Pkg: pkg.Name, Variant: x.V.Name, Seed: x.Seed, Enc: enc}
	pre, err := x.Tree(&e.Pre)
	if err == nil {
		_, err = x.GNMIPath(e.Act.P, pkg)
	}
	var exp *abs.Tree
	if err == nil {
		exp, err = x.Tree(&e.Post)
	}
	if err != nil {
		if _, ok := err.(conc.ErrNoValue); ok {
			res.Skip(1)
			return
		}
		res.InfraErr("concretise: %v", err)
		return
	}
	sch, err := rootSchema(pkg)
	if err != nil {
		res.InfraErr("schema: %v", err)
		return
	}
	root := pkg.NewRoot()
	if err := abs.Build(pre, root, pkg); err != nil {
		res.InfraErr("build %s/%s: %v", pkg.Name, x.V.Name, err)
		return
	}
	pre = conc.Restrict(pre, x.V)
	exp = conc.Restrict(exp, x.V)
	if back := conc.Restrict(abs.Project(root, pkg), x.V); !abs.Equal(back, pre, true) {
		res.InfraErr("binding self-test failed %s/%s: Project(Build(t)) != t: %v", pkg.Name, x.V.Name, abs.Diff(back, pre, true))
		return
	}
	tw := abs.StorageTwin(root).(ygot.GoStruct)
	if back := conc.Restrict(abs.Project(tw, pkg), x.V); !abs.Equal(back, pre, true) {
		res.InfraErr("storage twin self-test failed %s/%s: %v", pkg.Name, x.V.Name, abs.Diff(back, pre, true))
		return
	}
	path, tv, want, callErr, pan, err := applyAct(e, root, sch, pkg, x, enc, res)
	if err != nil {
		if _, ok := err.(conc.ErrNoValue); ok {
			res.Skip(1)
			return
		}
		res.InfraErr("apply: %v", err)
		return
	}
	if pan == "" && checkTwin(e, tw, pre, pkg, x, enc, path, tc, res) {
		return
	}
	var tvBefore proto.Message
	if tv != nil {
		tvBefore = proto.Clone(tv)
	}
	_ = tvBefore
	got := conc.Restrict(abs.Project(root, pkg), x.V)
	res.Eval(1)
	res.Count("op_"+e.Act.Op, 1)
	if len(pre.Lines()) >= 3 && res.Evaluated%97 == 0 {
		res.Sample(map[string]interface{}{"pkg": pkg.Name, "variant": x.V.Name, "op": e.Act.Op, "path": pathString(path), "value": want, "enc": enc, "pre": pre.Lines(), "post": got.Lines()})
	}
	checkStep(e, pkg, x, enc, prop, root, sch, path, want, callErr, pan, pre, got, exp, tc, res)
}

// checkTwin: the operation was applied to a tree whose leaves share their storage with the
// leaves of a second tree (abs.StorageTwin); the leaves of that tree are "other leaves" and
// must keep their values -- an operation has to replace leaf storage, never write through it.
func checkTwin(e *Edge, tw ygot.GoStruct, pre *abs.Tree, pkg *reg.Pkg, x *conc.Ctx, enc string, path *gpb.Path, tc *TreeCase, res *rep.Result) bool {
	after := conc.Restrict(abs.Project(tw, pkg), x.V)
	d := abs.Diff(after, pre, false)
	if len(d) == 0 {
		return false
	}
	prop := "C10"
	if e.Act.Op == "delete" {
		prop = "C12"
	}
	res.Violate(prop, sigFor(prop, "frame-shared-storage", e, pkg, x, enc),
		fmt.Sprintf("%s(%s) wrote through existing leaf storage: the leaves of a tree sharing that storage changed: %s", e.Act.Op, pathString(path), strings.Join(d, "; ")), tc)
	return true
}

// runWalk follows a random path through the emitted state graph on one real tree.
func runWalk(graph map[string][]*Edge, pkg *reg.Pkg, x *conc.Ctx, n int, rng *rand.Rand, wantOp map[string]bool, prop string, res *rep.Result) {
	sch, err := rootSchema(pkg)
	if err != nil {
		res.InfraErr("schema: %v", err)
		return
	}
	root := pkg.NewRoot()
	cur := &conc.ATree{}
	var hist []*Edge
	for i := 0; i < n; i++ {
		outs := graph[treeKey(cur)]
		if len(outs) == 0 {
			res.InfraErr("walk: state not in graph: %s", treeKey(cur))
			return
		}
		e := outs[rng.Intn(len(outs))]
		enc := "typed"
		if rng.Intn(2) == 0 {
			enc = "json"
		}
		exp, err := x.Tree(&e.Post)
		if err == nil {
			_, err = x.Tree(&e.Pre)
		}
		if err != nil {
			if _, ok := err.(conc.ErrNoValue); ok {
				continue
			}
			res.InfraErr("walk concretise: %v", err)
			return
		}
		pre := conc.Restrict(abs.Project(root, pkg), x.V)
		tw := abs.StorageTwin(root).(ygot.GoStruct)
		path, _, want, callErr, pan, err := applyAct(e, root, sch, pkg, x, enc, res)
		if err != nil {
			if _, ok := err.(conc.ErrNoValue); ok {
				continue
			}
			res.InfraErr("walk apply: %v", err)
			return
		}
		if pan == "" && checkTwin(e, tw, pre, pkg, x, enc, path, &TreeCase{Sub: "tree", Edge: e, Pkg: pkg.Name, Variant: x.V.Name, Seed: x.Seed, Enc: enc}, res) {
			return
		}
		hist = append(hist, e)
		got := conc.Restrict(abs.Project(root, pkg), x.V)
		exp = conc.Restrict(exp, x.V)
		res.Eval(1)
		res.Count("walk_steps", 1)
		nv := len(res.Violations)
		tc := &TreeCase{Sub: "tree", Edge: e, Pkg: pkg.Name, Variant: x.V.Name, Seed: x.Seed, Enc: enc}
		if (e.Act.Op == "set" || e.Act.Op == "setll") && callErr != nil {
			// rejected set: the walk cannot follow the model any further
			res.Count("walk_aborted_on_rejected_set", 1)
			return
		}
		checkStep(e, pkg, x, enc, prop, root, sch, path, want, callErr, pan, pre, got, exp, tc, res)
		if len(res.Violations) != nv || !abs.Equal(got, exp, true) {
			return // the real tree left the model; stop this walk
		}
		cur = &e.Post
	}
	res.Count("walks", 1)
}

// tolerantNumber returns, for an integer TypedValue, the same number in the form a JSON decoder
// would have produced it (the other signedness / a double), which SetNode only accepts with
// TolerateJSONInconsistencies.
func tolerantNumber(tv *gpb.TypedValue) *gpb.TypedValue {
	switch v := tv.GetValue().(type) {
	case *gpb.TypedValue_IntVal:
		if v.IntVal >= 0 {
			return &gpb.TypedValue{Value: &gpb.TypedValue_UintVal{UintVal: uint64(v.IntVal)}}
		}
		return &gpb.TypedValue{Value: &gpb.TypedValue_DoubleVal{DoubleVal: float64(v.IntVal)}}
	case *gpb.TypedValue_UintVal:
		if v.UintVal < 1<<62 {
			return &gpb.TypedValue{Value: &gpb.TypedValue_IntVal{IntVal: int64(v.UintVal)}}
		}
	case *gpb.TypedValue_LeaflistVal:
		out := &gpb.ScalarArray{}
		any := false
		for _, e := range v.LeaflistVal.Element {
			if n := tolerantNumber(e); n != nil {
				out.Element = append(out.Element, n)
				any = true
			} else {
				out.Element = append(out.Element, e)
			}
		}
		if any {
			return &gpb.TypedValue{Value: &gpb.TypedValue_LeaflistVal{LeaflistVal: out}}
		}
	}
	return nil
}
