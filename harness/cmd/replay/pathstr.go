package main

import (
	"encoding/json"
	"flag"
	"fmt"
	"os"
	"sort"
	"strings"

	gpb "github.com/openconfig/gnmi/proto/gnmi"
	"github.com/openconfig/ygot/ygot"
	"google.golang.org/protobuf/proto"

	"verif/harness/internal/rep"
)

// Replay of the PathStr cases (C08): every path of the bounded universe goes through the real
// PathToString / StringToStructuredPath and the legacy string-slice functions.

func init() { subcmds["pathstr"] = pathstrCmd }

type PSElem struct {
	N  string   `json:"n"`
	Ks []string `json:"ks"`
	Vs []string `json:"vs"`
}

type PSCase struct {
	Sub string   `json:"sub"`
	P   []PSElem `json:"p"`
	Ref string   `json:"ref"`
}

// concretise the placeholder for a non-ASCII letter
func psConc(s string) string { return strings.ReplaceAll(s, "U", "é") }

func (c *PSCase) path() *gpb.Path {
	p := &gpb.Path{}
	for _, e := range c.P {
		pe := &gpb.PathElem{Name: e.N}
		if len(e.Ks) > 0 {
			pe.Key = map[string]string{}
			for i, k := range e.Ks {
				pe.Key[k] = psConc(e.Vs[i])
			}
		}
		p.Elem = append(p.Elem, pe)
	}
	return p
}

// class describes which characters with a role in the string form the key values contain,
// and the digraphs that matter to path cleaning and splitting.
func (c *PSCase) class() string {
	set := map[string]bool{}
	for _, e := range c.P {
		for _, v := range e.Vs {
			for _, ch := range []string{"/", "[", "]", "=", "\\", " ", "."} {
				if strings.Contains(v, ch) {
					set[ch] = true
				}
			}
		}
	}
	var out []string
	for k := range set {
		out = append(out, k)
	}
	sort.Strings(out)
	return strings.Join(out, "")
}

func pathstrCmd(args []string) *rep.Result {
	fs := flag.NewFlagSet("pathstr", flag.ExitOnError)
	var c common
	c.register(fs)
	fs.Parse(args)
	res := rep.New()
	defer func() { res.Write(c.out) }()
	var cases []*PSCase
	if c.caseFile != "" {
		b, err := os.ReadFile(c.caseFile)
		if err != nil {
			res.InfraErr("case: %v", err)
			return res
		}
		pc := &PSCase{}
		if err := json.Unmarshal(b, pc); err != nil {
			res.InfraErr("case: %v", err)
			return res
		}
		cases = append(cases, pc)
	} else {
		lines, err := readLines(c.in, "CASE")
		if err != nil || len(lines) == 0 {
			res.InfraErr("pathstr: no cases in %s (%v)", c.in, err)
			return res
		}
		for _, l := range lines {
			pc := &PSCase{Sub: "pathstr"}
			if err := json.Unmarshal([]byte(l), pc); err != nil {
				res.InfraErr("case: %v", err)
				return res
			}
			cases = append(cases, pc)
		}
	}
	res.Distinct = len(cases)
	seen := map[string]*PSCase{}
	for _, pc := range cases {
		p := pc.path()
		sig := func(conj string) map[string]string {
			s := map[string]string{"conjunct": conj, "chars": pc.class(), "elems": fmt.Sprint(len(pc.P))}
			if strings.Contains(pc.class(), "\\") {
				s["backslash"] = "true"
			}
			return s
		}
		res.Eval(1)
		var s string
		err, pan := guard(func() error {
			var err error
			s, err = ygot.PathToString(p)
			return err
		})
		if pan != "" {
			res.Violate("C20", sig("panic"), "PathToString panicked on "+p.String()+": "+firstLine(pan), pc)
			continue
		}
		if err != nil {
			res.Violate("C08", sig("encode-error"), fmt.Sprintf("PathToString(%v) failed: %v", p, err), pc)
			continue
		}
		var q *gpb.Path
		err, pan = guard(func() error {
			var err error
			q, err = ygot.StringToStructuredPath(s)
			return err
		})
		switch {
		case pan != "":
			res.Violate("C20", sig("panic"), "StringToStructuredPath panicked on "+s+": "+firstLine(pan), pc)
		case err != nil:
			res.Violate("C08", sig("decode-error"), fmt.Sprintf("StringToStructuredPath(PathToString(p)) fails: p = %v, string %q: %v", p, s, err), pc)
		case !proto.Equal(p, q):
			res.Violate("C08", sig("roundtrip"), fmt.Sprintf("StringToStructuredPath(PathToString(p)) != p: p = %v, string %q, result %v", p, s, q), pc)
		}
		if other, ok := seen[s]; ok && !proto.Equal(other.path(), p) {
			res.Violate("C08", sig("injective"), fmt.Sprintf("PathToString maps two different paths to %q: %v and %v", s, p, other.path()), pc)
		} else {
			seen[s] = pc
		}
		// legacy string-slice form
		strs, err := ygot.PathToStrings(p)
		if err != nil {
			res.Violate("C08", sig("legacy-encode-error"), fmt.Sprintf("PathToStrings(%v) failed: %v", p, err), pc)
		} else {
			lp := &gpb.Path{Element: strs}
			ls, err := ygot.PathToString(lp)
			if err != nil {
				res.Violate("C08", sig("legacy-encode-error"), fmt.Sprintf("PathToString of the string-slice path %q failed: %v", strs, err), pc)
			} else {
				var lq *gpb.Path
				err, pan = guard(func() error {
					var err error
					lq, err = ygot.StringToStringSlicePath(ls)
					return err
				})
				switch {
				case pan != "":
					res.Violate("C20", sig("panic"), "StringToStringSlicePath panicked on "+ls+": "+firstLine(pan), pc)
				case err != nil:
					res.Violate("C08", sig("legacy-decode-error"), fmt.Sprintf("StringToStringSlicePath(%q) fails for string-slice path %q: %v", ls, strs, err), pc)
				case strings.Join(lq.Element, "\x00") != strings.Join(strs, "\x00"):
					res.Violate("C08", sig("legacy-roundtrip"), fmt.Sprintf("string-slice path %q -> %q -> %q", strs, ls, lq.Element), pc)
				}
			}
		}
		// outside the property's wording: agreement with the reference grammar
		ref := psConc(pc.Ref)
		if s != ref {
			res.DriftNote(fmt.Sprintf("PathToString differs from the reference encoding for value class %q (e.g. %q vs %q)", pc.class(), s, ref))
		}
		if rq, err := ygot.StringToStructuredPath(ref); err != nil || !proto.Equal(rq, p) {
			res.DriftNote(fmt.Sprintf("StringToStructuredPath does not decode the reference encoding for value class %q (e.g. %q)", pc.class(), ref))
		}
	}
	return res
}
