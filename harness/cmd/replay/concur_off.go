//go:build !verif

package main

// the concurrency replay needs the gate hooks of ytypes, which only exist with the verif tag
