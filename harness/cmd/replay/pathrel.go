package main

import (
	"flag"
	"fmt"
	"strings"

	gpb "github.com/openconfig/gnmi/proto/gnmi"
	"github.com/openconfig/ygot/util"
	"google.golang.org/protobuf/proto"

	"verif/harness/internal/rep"
)

// Replay of the PathRel cases (C09): every ordered pair of paths of the bounded universe goes
// through the real ComparePaths and the path helper functions of util/gnmi.go; the expected
// answers are the denotational ones computed (and cross-checked) by TLC.

func init() { subcmds["pathrel"] = pathrelCmd }

// PRCase is the replayable case.
type PRCase struct {
	Sub  string `json:"sub"`
	Line string `json:"line"`
}

func prParsePath(s, origin string) *gpb.Path {
	p := &gpb.Path{Origin: origin}
	if s == "-" {
		return p
	}
	for _, es := range strings.Split(s, "/") {
		i := strings.Index(es, "[")
		e := &gpb.PathElem{Name: es[:i]}
		body := strings.TrimSuffix(es[i+1:], "]")
		if body != "" {
			e.Key = map[string]string{}
			for _, kv := range strings.Split(body, ",") {
				k, v, _ := strings.Cut(kv, "=")
				e.Key[k] = v
			}
		}
		p.Elem = append(p.Elem, e)
	}
	return p
}

var relNames = map[util.CompareRelation]string{util.Equal: "Equal", util.Disjoint: "Disjoint", util.Subset: "Subset", util.Superset: "Superset", util.PartialIntersect: "PartialIntersect"}

func swapRel(r string) string {
	switch r {
	case "Subset":
		return "Superset"
	case "Superset":
		return "Subset"
	}
	return r
}

func elemsEqual(a, b []*gpb.PathElem) bool {
	if len(a) != len(b) {
		return false
	}
	for i := range a {
		if !proto.Equal(a[i], b[i]) {
			return false
		}
	}
	return true
}

func runPathRel(line string, res *rep.Result) {
	f := strings.Split(line, "|")
	if len(f) != 6 || len(f[5]) != 5 {
		res.InfraErr("bad REL line %q", line)
		return
	}
	a, b := prParsePath(f[0], f[2]), prParsePath(f[1], f[3])
	want := f[4]
	concA, wantQ, wantEP, starAbs := f[5][0] == '1', f[5][1] == '1', f[5][2] == '1', f[5][3] == '1'
	wantLCP := int(f[5][4] - '0')
	pc := &PRCase{Sub: "pathrel", Line: line}
	ac, bc := proto.Clone(a).(*gpb.Path), proto.Clone(b).(*gpb.Path)
	nkeys := 0
	for _, p := range []*gpb.Path{a, b} {
		for _, e := range p.Elem {
			if len(e.Key) > nkeys {
				nkeys = len(e.Key)
			}
		}
	}
	sig := func(fn, conj, w, g string) map[string]string {
		return map[string]string{"fn": fn, "conjunct": conj, "want": w, "got": g, "maxkeys": fmt.Sprint(nkeys),
			"lens": fmt.Sprintf("%d,%d", len(a.Elem), len(b.Elem))}
	}
	res.Eval(1)
	// ComparePaths, several times: the answer must not depend on map iteration order
	got := map[string]bool{}
	for i := 0; i < 8; i++ {
		var r util.CompareRelation
		_, pan := guard(func() error { r = util.ComparePaths(a, b); return nil })
		if pan != "" {
			res.Violate("C20", sig("ComparePaths", "panic", want, "panic"), "ComparePaths panicked on "+line, pc)
			return
		}
		got[relNames[r]] = true
	}
	for g := range got {
		if g != want {
			res.Violate("C09", sig("ComparePaths", "relation", want, g), fmt.Sprintf("ComparePaths(%s, %s) [origins %q %q] = %s, the denoted sets are %s", f[0], f[1], f[2], f[3], g, want), pc)
		}
	}
	if len(got) > 1 {
		res.Violate("C09", sig("ComparePaths", "unstable", want, "varies"), fmt.Sprintf("ComparePaths(%s, %s) gives different answers on repeated calls: %v", f[0], f[1], got), pc)
	}
	if rb := relNames[util.ComparePaths(b, a)]; len(got) == 1 && !got[swapRel(rb)] {
		res.Violate("C09", sig("ComparePaths", "swap", swapRel(rb), fmt.Sprint(got)), fmt.Sprintf("ComparePaths(%s, %s) = %v but ComparePaths(b, a) = %s", f[0], f[1], got, rb), pc)
	}
	// PathMatchesQuery for a concrete data path
	if concA {
		if g := util.PathMatchesQuery(a, b); g != wantQ {
			res.Violate("C09", sig("PathMatchesQuery", "query", fmt.Sprint(wantQ), fmt.Sprint(g)), fmt.Sprintf("PathMatchesQuery(path %s, query %s) [origins %q %q] = %v, want %v", f[0], f[1], f[2], f[3], g, wantQ), pc)
		}
	}
	// syntactic helpers: decisive when the origins are literally equal and no explicit "*"
	// stands against a missing key
	if !starAbs && f[2] == f[3] {
		if g := util.PathMatchesPathElemPrefix(a, b); g != wantEP {
			res.Violate("C09", sig("PathMatchesPathElemPrefix", "elemprefix", fmt.Sprint(wantEP), fmt.Sprint(g)), fmt.Sprintf("PathMatchesPathElemPrefix(%s, %s) = %v, want %v", f[0], f[1], g, wantEP), pc)
		}
		tr := util.TrimGNMIPathElemPrefix(a, b)
		wantElems := a.Elem
		if wantEP {
			wantElems = a.Elem[len(b.Elem):]
		}
		if tr == nil || !elemsEqual(tr.Elem, wantElems) {
			res.Violate("C09", sig("TrimGNMIPathElemPrefix", "trim", fmt.Sprint(len(wantElems)), "other"), fmt.Sprintf("TrimGNMIPathElemPrefix(%s, %s) = %v, want elements %v", f[0], f[1], tr, wantElems), pc)
		}
		fp := util.FindPathElemPrefix([]*gpb.Path{a, b})
		n := 0
		if fp != nil {
			n = len(fp.Elem)
		}
		if n != wantLCP || (fp != nil && !elemsEqual(fp.Elem, a.Elem[:n])) {
			res.Violate("C09", sig("FindPathElemPrefix", "lcp", fmt.Sprint(wantLCP), fmt.Sprint(n)), fmt.Sprintf("FindPathElemPrefix(%s, %s) = %v, want the first %d elements", f[0], f[1], fp, wantLCP), pc)
		}
	}
	// PathMatchesPrefix on element names
	var names []string
	for _, e := range b.Elem {
		names = append(names, e.Name)
	}
	wantNP := len(a.Elem) >= len(b.Elem)
	if wantNP {
		for i := range b.Elem {
			if a.Elem[i].Name != b.Elem[i].Name {
				wantNP = false
			}
		}
	}
	if g := util.PathMatchesPrefix(a, names); g != wantNP {
		res.Violate("C09", sig("PathMatchesPrefix", "nameprefix", fmt.Sprint(wantNP), fmt.Sprint(g)), fmt.Sprintf("PathMatchesPrefix(%s, %v) = %v, want %v", f[0], names, g, wantNP), pc)
	}
	// JoinPaths: concatenation; the joined path lies at or below its prefix
	j, err := util.JoinPaths(a, b)
	wantErr := f[2] != "" && f[3] != "" && f[2] != f[3]
	switch {
	case (err != nil) != wantErr:
		res.Violate("C09", sig("JoinPaths", "join-error", fmt.Sprint(wantErr), fmt.Sprint(err != nil)), fmt.Sprintf("JoinPaths(%s, %s) [origins %q %q]: err=%v, want error=%v", f[0], f[1], f[2], f[3], err, wantErr), pc)
	case err == nil:
		wantOrigin := f[2]
		if f[3] != "" {
			wantOrigin = f[3]
		}
		if !elemsEqual(j.Elem, append(append([]*gpb.PathElem{}, a.Elem...), b.Elem...)) || j.Origin != wantOrigin {
			res.Violate("C09", sig("JoinPaths", "join", "concat", "other"), fmt.Sprintf("JoinPaths(%s, %s) = %v", f[0], f[1], j), pc)
		}
	}
	// JoinPaths twice with the same prefix (whose element slice has spare capacity): the first
	// result must not change
	if !wantErr {
		pre := proto.Clone(a).(*gpb.Path)
		pre.Elem = append(make([]*gpb.PathElem, 0, len(pre.Elem)+4), pre.Elem...)
		j1, e1 := util.JoinPaths(pre, b)
		other := &gpb.Path{Origin: b.Origin, Elem: []*gpb.PathElem{{Name: "zz", Key: map[string]string{"q": "r"}}, {Name: "yy"}}}
		_, e2 := util.JoinPaths(pre, other)
		if e1 == nil && e2 == nil && !elemsEqual(j1.Elem, append(append([]*gpb.PathElem{}, a.Elem...), b.Elem...)) {
			res.Violate("C09", sig("JoinPaths", "join-aliases-prefix", "independent", "overwritten"), fmt.Sprintf("the result of JoinPaths(%s, %s) changed when JoinPaths was called again with the same prefix: now %v", f[0], f[1], j1), pc)
		}
		if !proto.Equal(proto.Clone(a), &gpb.Path{Origin: pre.Origin, Elem: pre.Elem}) {
			res.Violate("C11", sig("JoinPaths", "input-mutated", "", ""), "JoinPaths modified its prefix argument: "+line, pc)
		}
	}
	if !proto.Equal(a, ac) || !proto.Equal(b, bc) {
		res.Violate("C11", sig("util path functions", "input-mutated", "", ""), "a util path function modified its argument: "+line, pc)
	}
}

// runPathQuery: one QRY line "path|query|0/1" -- a concrete data path against a query whose
// element names may be the wildcard "*" (PathMatchesQuery only; ComparePaths has no name wildcard).
func runPathQuery(line string, res *rep.Result) {
	f := strings.Split(line, "|")
	if len(f) != 3 || len(f[2]) != 1 {
		res.InfraErr("bad QRY line %q", line)
		return
	}
	a, b := prParsePath(f[0], ""), prParsePath(f[1], "")
	want := f[2] == "1"
	pc := &PRCase{Sub: "pathrel", Line: "QRY " + line}
	ac, bc := proto.Clone(a).(*gpb.Path), proto.Clone(b).(*gpb.Path)
	res.Eval(1)
	starNames, keyed := 0, 0
	for _, e := range b.Elem {
		if e.Name == "*" {
			starNames++
			if len(e.Key) > 0 {
				keyed++
			}
		}
	}
	res.Count("query-star-names", starNames)
	got := map[bool]bool{}
	for i := 0; i < 4; i++ {
		var g bool
		_, pan := guard(func() error { g = util.PathMatchesQuery(a, b); return nil })
		if pan != "" {
			res.Violate("C20", map[string]string{"fn": "PathMatchesQuery", "conjunct": "panic"}, "PathMatchesQuery panicked on "+line, pc)
			return
		}
		got[g] = true
	}
	for g := range got {
		if g != want {
			res.Violate("C09", map[string]string{"fn": "PathMatchesQuery", "conjunct": "query-wildcard-name", "want": fmt.Sprint(want), "got": fmt.Sprint(g),
				"starnames": fmt.Sprint(starNames), "keyedstar": fmt.Sprint(keyed)},
				fmt.Sprintf("PathMatchesQuery(path %s, query %s) = %v, the query's denotation says %v", f[0], f[1], g, want), pc)
		}
	}
	if !proto.Equal(a, ac) || !proto.Equal(b, bc) {
		res.Violate("C11", map[string]string{"fn": "PathMatchesQuery", "conjunct": "input-mutated"}, "PathMatchesQuery modified its argument: "+line, pc)
	}
}

func pathrelCmd(args []string) *rep.Result {
	fs := flag.NewFlagSet("pathrel", flag.ExitOnError)
	var c common
	c.register(fs)
	fs.Parse(args)
	res := rep.New()
	defer func() { res.Write(c.out) }()
	if c.caseFile != "" {
		var pc PRCase
		if err := readJSONFile(c.caseFile, &pc); err != nil {
			res.InfraErr("case: %v", err)
			return res
		}
		if strings.HasPrefix(pc.Line, "QRY ") {
			runPathQuery(strings.TrimPrefix(pc.Line, "QRY "), res)
		} else {
			runPathRel(pc.Line, res)
		}
		return res
	}
	for _, in := range strings.Split(c.in, ",") {
		lines, err := readLines(in, "REL")
		qlines, qerr := readLines(in, "QRY")
		if qerr == nil {
			res.Distinct += len(qlines)
			for _, l := range qlines {
				runPathQuery(l, res)
			}
		}
		if (err != nil || len(lines) == 0) && len(qlines) > 0 {
			continue
		}
		if err != nil || len(lines) == 0 {
			res.InfraErr("pathrel: no cases in %s (%v)", in, err)
			return res
		}
		res.Distinct += len(lines)
		for _, l := range lines {
			runPathRel(l, res)
		}
	}
	return res
}
