package main

import (
	"encoding/json"
	"flag"
	"fmt"
	"math/rand"
	"os"
	"reflect"
	"sort"
	"strings"
	"sync"

	"github.com/openconfig/ygot/ygot"

	"verif/harness/internal/abs"
	"verif/harness/internal/conc"
	"verif/harness/internal/reg"
	"verif/harness/internal/rep"
)

// Replay of the OrderedMap (C15) and KeyedList (C34) state machines on the generated
// helper methods: every path of bounded length through the TLC-emitted state graph is
// executed on the real code, comparing return values and the internal state (read through
// the independent projector) after every call.

func init() { subcmds["helpers"] = helpersCmd }

type HEnt struct {
	K  string `json:"k"`
	Kl string `json:"kl"`
	V  string `json:"v"`
}

type HState struct {
	Alloc bool     `json:"alloc"`
	Keys  []string `json:"keys,omitempty"`
	Ents  []HEnt   `json:"ents"`
}

type HAct struct {
	Op  string          `json:"op"`
	Via string          `json:"via,omitempty"`
	K   string          `json:"k,omitempty"`
	N   string          `json:"n,omitempty"`
	V   string          `json:"v,omitempty"`
	Ret json.RawMessage `json:"ret,omitempty"`
}

func (a HAct) retString() string {
	var s string
	if json.Unmarshal(a.Ret, &s) == nil {
		return s
	}
	return string(a.Ret)
}

func (a HAct) retList() []string {
	var s []string
	json.Unmarshal(a.Ret, &s)
	return s
}

type HEdge struct {
	Pre  HState `json:"pre"`
	Act  HAct   `json:"act"`
	Post HState `json:"post"`
}

func (s HState) key(ordered bool) string {
	es := append([]HEnt{}, s.Ents...)
	if !ordered {
		sort.Slice(es, func(i, j int) bool { return es[i].K < es[j].K })
	}
	b, _ := json.Marshal(struct {
		A bool
		E []HEnt
	}{s.Alloc, es})
	return string(b)
}

// HCase is the replayable case: a path of edges.
type HCase struct {
	Sub     string   `json:"sub"`
	Kind    string   `json:"kind"`
	List    string   `json:"list"`
	Path    []*HEdge `json:"path"`
	Pkg     string   `json:"pkg"`
	Variant string   `json:"variant"`
	Seed    int64    `json:"seed"`
}

var hReadOnly = map[string]bool{"Get": true, "Keys": true, "Values": true, "Len": true}

type hRunner struct {
	kind    string // omap | klist
	list    string // ol | om | l | m
	ordered bool
	pkg     *reg.Pkg
	x       *conc.Ctx
	res     *rep.Result
	graph   map[string][]*HEdge
	visited map[string]bool
	prop    string
	kn      []string
	nilable bool
	rt      bool

	keyAtom, payAtom   map[string]string
	keyAtoms, payAtoms []string
}

// key atom -> key step
func (r *hRunner) keyStep(atom string) (string, []string, error) {
	parts := strings.Split(atom, ".")
	if len(parts) != len(r.kn) {
		return "", nil, fmt.Errorf("key atom %q for list %s", atom, r.list)
	}
	var cs []string
	for j, a := range parts {
		c, err := r.x.Value(r.list+"/"+r.kn[j], a)
		if err != nil {
			return "", nil, err
		}
		cs = append(cs, c)
	}
	return "=" + strings.Join(cs, abs.KSep), cs, nil
}

func (r *hRunner) pay(atom string) (string, error) {
	if atom == "none" || atom == "" {
		return "", nil
	}
	return r.x.Value(r.list+"/v", atom)
}

// concretisable reports whether every atom the edge mentions has a concrete value.
func (r *hRunner) concretisable(e *HEdge) bool {
	for _, k := range []string{e.Act.K, e.Act.N} {
		if k == "" || k == "nil" {
			continue
		}
		if _, _, err := r.keyStep(k); err != nil {
			return false
		}
	}
	if e.Act.V != "" {
		if _, err := r.pay(e.Act.V); err != nil {
			return false
		}
	}
	if e.Act.K == "nil" && !r.nilable {
		return false
	}
	return true
}

type hLive struct {
	root   ygot.GoStruct
	parent reflect.Value // pointer to the variant container struct
	field  reflect.Value
	sf     reflect.StructField
	entT   reflect.Type // pointer to entry struct
}

func (r *hRunner) fresh() (*hLive, error) {
	root := r.pkg.NewRoot()
	parent, err := abs.Ensure(reflect.ValueOf(root), abs.Path(r.x.V.Prefix()), r.pkg)
	if err != nil {
		return nil, err
	}
	f, sf, ok := abs.FieldInfoByStep(parent.Elem(), r.list)
	if !ok {
		return nil, fmt.Errorf("no field for list %s in %s", r.list, parent.Elem().Type())
	}
	l := &hLive{root: root, parent: parent, field: f, sf: sf}
	switch {
	case abs.IsOrderedMapPtr(sf.Type):
		vmf, _ := sf.Type.Elem().FieldByName("valueMap")
		l.entT = vmf.Type.Elem()
	case sf.Type.Kind() == reflect.Map:
		l.entT = sf.Type.Elem()
	default:
		return nil, fmt.Errorf("field %s is not a list", sf.Name)
	}
	return l, nil
}

func (r *hRunner) listPath() abs.Path {
	return append(abs.Path(append([]string{}, r.x.V.Prefix()...)), r.list)
}

func (r *hRunner) observed(l *hLive) *abs.Tree {
	full := abs.Project(l.root, r.pkg)
	pre := r.listPath().String()
	o := abs.NewTree()
	for k, v := range full.Leaves {
		if strings.HasPrefix(k, pre+abs.Sep) {
			o.Leaves[k] = v
		}
	}
	for k, v := range full.Ents {
		if k == pre && len(v) > 0 {
			o.Ents[k] = v
			if full.Ordered[k] {
				o.Ordered[k] = true
			}
		}
	}
	return o
}

func (r *hRunner) newEntry(l *hLive, katom, patom string) (reflect.Value, error) {
	ev := reflect.New(l.entT.Elem())
	if katom != "nil" {
		_, cs, err := r.keyStep(katom)
		if err != nil {
			return ev, err
		}
		for j, n := range r.kn {
			f, sf, ok := abs.FieldInfoByStep(ev.Elem(), n)
			if !ok {
				return ev, fmt.Errorf("no key leaf %s", n)
			}
			v, err := abs.FromCanon(cs[j], sf.Type, r.pkg)
			if err != nil {
				return ev, err
			}
			f.Set(v)
		}
	}
	p, err := r.pay(patom)
	if err != nil {
		return ev, err
	}
	if p != "" {
		f, sf, ok := abs.FieldInfoByStep(ev.Elem(), "v")
		if !ok {
			return ev, fmt.Errorf("no leaf v")
		}
		v, err := abs.FromCanon(p, sf.Type, r.pkg)
		if err != nil {
			return ev, err
		}
		f.Set(v)
	}
	return ev, nil
}

// keyArgs converts key atoms to the arguments of method m (key parts or key structs).
func (r *hRunner) keyArgs(m reflect.Value, atoms ...string) ([]reflect.Value, error) {
	mt := m.Type()
	var args []reflect.Value
	if mt.NumIn() == len(atoms) {
		// one argument per key atom: scalar key or key struct
		for i, a := range atoms {
			st, cs, err := r.keyStep(a)
			if err != nil {
				return nil, err
			}
			if len(cs) == 1 {
				v, err := abs.FromCanon(cs[0], mt.In(i), r.pkg)
				if err != nil {
					return nil, err
				}
				args = append(args, v)
			} else {
				v, err := abs.KeyFromStep(st, mt.In(i), r.pkg)
				if err != nil {
					return nil, err
				}
				args = append(args, v)
			}
		}
		return args, nil
	}
	if len(atoms) == 1 {
		_, cs, err := r.keyStep(atoms[0])
		if err != nil {
			return nil, err
		}
		if mt.NumIn() != len(cs) {
			return nil, fmt.Errorf("method takes %d arguments, key has %d parts", mt.NumIn(), len(cs))
		}
		for i, c := range cs {
			v, err := abs.FromCanon(c, mt.In(i), r.pkg)
			if err != nil {
				return nil, err
			}
			args = append(args, v)
		}
		return args, nil
	}
	return nil, fmt.Errorf("cannot map %d key atoms onto %d parameters", len(atoms), mt.NumIn())
}

func (r *hRunner) payOf(ev reflect.Value) string {
	if !ev.IsValid() || ev.IsNil() {
		return "nil"
	}
	f, _, ok := abs.FieldInfoByStep(ev.Elem(), "v")
	if !ok {
		return "?"
	}
	s, ok := abs.CanonScalar(f, r.pkg)
	if !ok {
		return ""
	}
	return s
}

func errOf(v reflect.Value) bool { return !v.IsNil() }

// atoms: reverse concretisation (canonical -> atom) for the atoms of the model instance.
func (r *hRunner) initAtoms(keys, pays []string) {
	r.keyAtom = map[string]string{}
	r.payAtom = map[string]string{"": "none"}
	r.keyAtoms, r.payAtoms = nil, nil
	for _, k := range keys {
		if st, _, err := r.keyStep(k); err == nil {
			r.keyAtom[st] = k
			r.keyAtoms = append(r.keyAtoms, k)
		}
	}
	for _, p := range pays {
		if c, err := r.pay(p); err == nil {
			r.payAtom[c] = p
			r.payAtoms = append(r.payAtoms, p)
		}
	}
}

func (r *hRunner) atomOfStep(st string) string {
	if a, ok := r.keyAtom[st]; ok {
		return a
	}
	return "?" + st
}

func (r *hRunner) atomOfPay(c string) string {
	if c == "nil" {
		return "nil"
	}
	if a, ok := r.payAtom[c]; ok {
		return a
	}
	return "?" + c
}

// realState reads the list back through the projector, in the vocabulary of the model.
func (r *hRunner) realState(l *hLive) HState {
	t := r.observed(l)
	lp := r.listPath()
	s := HState{Ents: []HEnt{}}
	cur := l.parent.Elem().FieldByIndex(l.sf.Index)
	s.Alloc = !cur.IsNil()
	for _, st := range t.Ents[lp.String()] {
		e := HEnt{K: r.atomOfStep(st)}
		var kl []string
		unset := 0
		for _, n := range r.kn {
			c, ok := t.Leaves[append(append(abs.Path{}, lp...), st, n).String()]
			if !ok {
				unset++
				c = "unset"
			}
			kl = append(kl, c)
		}
		if unset == len(r.kn) {
			e.Kl = "nil"
		} else {
			e.Kl = r.atomOfStep("=" + strings.Join(kl, abs.KSep))
		}
		e.V = r.atomOfPay(t.Leaves[append(append(abs.Path{}, lp...), st, "v").String()])
		s.Ents = append(s.Ents, e)
		if r.ordered {
			s.Keys = append(s.Keys, e.K)
		}
	}
	// anything else below the list (unexpected leaves) shows up as a pseudo entry
	n := len(r.kn) + 1
	for p := range t.Leaves {
		rel := strings.Split(strings.TrimPrefix(p, lp.String()+abs.Sep), abs.Sep)
		if len(rel) != 2 || (rel[1] != "v" && !contains(r.kn, rel[1])) {
			s.Ents = append(s.Ents, HEnt{K: "?extra:" + abs.Pretty(p)})
		}
	}
	_ = n
	return s
}

func contains(xs []string, x string) bool {
	for _, y := range xs {
		if y == x {
			return true
		}
	}
	return false
}

// call performs the call described by a on l and returns what the real code returned, in the
// vocabulary of the model (ret for scalars, retl for Keys/Values).
func (r *hRunner) call(l *hLive, a HAct) (ret string, retl []string, infra error) {
	defer func() {
		if p := recover(); p != nil {
			ret = fmt.Sprintf("panic: %v", p)
		}
	}()
	suffix := l.sf.Name
	om := l.parent.Elem().FieldByIndex(l.sf.Index) // current field value
	recv := func(name string) (reflect.Value, error) {
		var m reflect.Value
		if r.kind == "omap" && a.Via != "parent" {
			m = om.MethodByName(name)
		} else {
			m = l.parent.MethodByName(name + suffix)
		}
		if !m.IsValid() {
			return m, fmt.Errorf("no method %s (via %q) for %s", name, a.Via, suffix)
		}
		return m, nil
	}
	okErr := func(v reflect.Value) string {
		if errOf(v) {
			return "err"
		}
		return "ok"
	}
	switch a.Op {
	case "Append":
		m, err := recv("Append")
		if err != nil {
			return "", nil, err
		}
		ev, err := r.newEntry(l, a.K, a.V)
		if err != nil {
			return "", nil, err
		}
		return okErr(m.Call([]reflect.Value{ev})[0]), nil, nil
	case "AppendNilEntry":
		m, err := recv("Append")
		if err != nil {
			return "", nil, err
		}
		return okErr(m.Call([]reflect.Value{reflect.Zero(l.entT)})[0]), nil, nil
	case "AppendNew", "New":
		m, err := recv(a.Op)
		if err != nil {
			return "", nil, err
		}
		args, err := r.keyArgs(m, a.K)
		if err != nil {
			return "", nil, err
		}
		out := m.Call(args)
		s := okErr(out[1])
		if s == "ok" && out[0].IsNil() {
			s = "ok-but-nil-entry"
		}
		return s, nil, nil
	case "GetOrCreate", "Get":
		m, err := recv(a.Op)
		if err != nil {
			return "", nil, err
		}
		args, err := r.keyArgs(m, a.K)
		if err != nil {
			return "", nil, err
		}
		return r.atomOfPay(r.payOf(m.Call(args)[0])), nil, nil
	case "GetOrCreateMap":
		m := l.parent.MethodByName("GetOrCreate" + suffix + "Map")
		if !m.IsValid() {
			return "", nil, fmt.Errorf("no GetOrCreate%sMap", suffix)
		}
		if m.Call(nil)[0].IsNil() {
			return "nil", nil, nil
		}
		return "ok", nil, nil
	case "Delete":
		m, err := recv("Delete")
		if err != nil {
			return "", nil, err
		}
		args, err := r.keyArgs(m, a.K)
		if err != nil {
			return "", nil, err
		}
		out := m.Call(args)
		if r.kind == "omap" {
			return fmt.Sprint(out[0].Bool()), nil, nil
		}
		return "ok", nil, nil
	case "Rename":
		m, err := recv("Rename")
		if err != nil {
			return "", nil, err
		}
		args, err := r.keyArgs(m, a.K, a.N)
		if err != nil {
			return "", nil, err
		}
		return okErr(m.Call(args)[0]), nil, nil
	case "Keys":
		out := om.MethodByName("Keys").Call(nil)[0]
		retl = []string{}
		for i := 0; i < out.Len(); i++ {
			retl = append(retl, r.atomOfStep(abs.KeyStep(out.Index(i), r.pkg)))
		}
		// scribble over the returned slice: it must be a copy
		for i := 0; i < out.Len(); i++ {
			out.Index(i).Set(out.Index(out.Len() - 1 - i))
		}
		if out.Len() > 0 {
			_ = reflect.Append(out, out.Index(0))
		}
		return "", retl, nil
	case "Values":
		out := om.MethodByName("Values").Call(nil)[0]
		retl = []string{}
		for i := 0; i < out.Len(); i++ {
			retl = append(retl, r.atomOfPay(r.payOf(out.Index(i))))
		}
		for i := 0; i < out.Len(); i++ {
			out.Index(i).Set(reflect.Zero(out.Type().Elem()))
		}
		return "", retl, nil
	case "Len":
		return fmt.Sprint(om.MethodByName("Len").Call(nil)[0].Int()), nil, nil
	}
	return "", nil, fmt.Errorf("unknown op %q", a.Op)
}

func stateString(s HState, ordered bool) string {
	es := append([]HEnt{}, s.Ents...)
	if !ordered {
		sort.Slice(es, func(i, j int) bool { return es[i].K < es[j].K })
	}
	var parts []string
	for _, e := range es {
		parts = append(parts, fmt.Sprintf("%s{keyleaves=%s,v=%s}", e.K, e.Kl, e.V))
	}
	return "[" + strings.Join(parts, " ") + "]"
}

// exec performs the call of edge e on l. With check it compares return value and state with
// the model and returns a list of (conjunct, detail) disagreements.
func (r *hRunner) exec(l *hLive, e *HEdge, check bool) (bad [][2]string, infra error) {
	a := e.Act
	ret, retl, err := r.call(l, a)
	if err != nil {
		return nil, err
	}
	if !check {
		return nil, nil
	}
	add := func(c, d string) { bad = append(bad, [2]string{c, d}) }
	if strings.HasPrefix(ret, "panic:") {
		add("panic", fmt.Sprintf("%s %s", a.Op, ret))
		return bad, nil
	}
	lower := strings.ToLower(a.Op)
	switch a.Op {
	case "Keys", "Values":
		if want := a.retList(); strings.Join(retl, "|") != strings.Join(want, "|") {
			add(lower+"-result", fmt.Sprintf("%s() = %q, model says %q", a.Op, retl, want))
		}
	case "Delete":
		if r.kind == "omap" && ret != a.retString() {
			add("delete-result", fmt.Sprintf("Delete(%s) returned %s, model says %s", a.K, ret, a.retString()))
		}
	default:
		if ret != a.retString() {
			add(lower+"-result", fmt.Sprintf("%s(%s%s) returned %s, model says %s", a.Op, a.K, a.N, ret, a.retString()))
		}
	}
	got := r.realState(l)
	if gs, ws := stateString(got, r.ordered), stateString(e.Post, r.ordered); gs != ws {
		c := "state"
		if hReadOnly[a.Op] {
			c = "readonly-stutter"
		} else if a.retString() == "err" {
			c = "rejected-call-changed-map"
		}
		add(c, fmt.Sprintf("after %s(%s%s) the list is %s, model says %s", a.Op, a.K, a.N, gs, ws))
	}
	if got.Alloc != e.Post.Alloc {
		// allocation of the empty container is not stated by the property
		r.res.DriftNote(fmt.Sprintf("%s/%s: after %s via %q field non-nil=%v, model alloc=%v", r.kind, r.list, a.Op, a.Via, got.Alloc, e.Post.Alloc))
	}
	return bad, nil
}

func (r *hRunner) sig(conjunct string, e *HEdge) map[string]string {
	s := map[string]string{"conjunct": conjunct, "kind": r.kind, "list": r.list, "op": e.Act.Op}
	var kts []string
	for _, n := range r.kn {
		kts = append(kts, r.x.TypeAt(r.list+"/"+n))
	}
	s["keytype"] = strings.Join(kts, "+")
	if !r.pkg.SimpleUnion && strings.Contains(s["keytype"], "u-") {
		s["wrapper_union_key"] = "true"
	}
	if strings.Contains(s["keytype"], "u-") {
		s["union_key"] = "true"
	}
	if e.Act.K == "nil" {
		s["nilkey"] = "true"
	}
	return s
}

func (r *hRunner) violate(conjunct, detail string, path []*HEdge) {
	e := path[len(path)-1]
	var ops []string
	for _, p := range path {
		ops = append(ops, fmt.Sprintf("%s(%s%s%s)", p.Act.Op, p.Act.Via, p.Act.K, p.Act.N))
	}
	r.res.Violate(r.prop, r.sig(conjunct, e), fmt.Sprintf("[%s/%s %s] %s: %s", r.pkg.Name, r.x.V.Name, r.list, strings.Join(ops, " ; "), detail),
		&HCase{Sub: "helpers", Kind: r.kind, List: r.list, Path: path, Pkg: r.pkg.Name, Variant: r.x.V.Name, Seed: r.x.Seed})
}

// runPath replays path from a fresh struct, checking only the last step (all = every step).
func (r *hRunner) runPath(path []*HEdge, all bool) (*hLive, bool) {
	l, err := r.fresh()
	if err != nil {
		r.res.InfraErr("fresh: %v", err)
		return nil, false
	}
	for i, e := range path {
		check := all || i == len(path)-1
		bad, err := r.exec(l, e, check)
		if err != nil {
			r.res.InfraErr("exec %s on %s/%s/%s: %v", e.Act.Op, r.pkg.Name, r.x.V.Name, r.list, err)
			return l, false
		}
		if check {
			r.res.Eval(1)
			r.res.Count("op_"+e.Act.Op, 1)
		}
		if len(bad) > 0 {
			for _, b := range bad {
				r.violate(b[0], b[1], path[:i+1])
			}
			return l, false
		}
	}
	return l, true
}

func (r *hRunner) dfs(path []*HEdge, st string, depth int) {
	if !r.visited[st] {
		r.visited[st] = true
		r.res.Count("states_visited", 1)
		// observers: every read-only edge of this state, on the live struct
		for _, e := range r.graph[st] {
			if hReadOnly[e.Act.Op] && r.concretisable(e) {
				r.runPath(append(append([]*HEdge{}, path...), e), false)
			}
		}
		if r.rt && r.kind == "omap" {
			if l, ok := r.runPath(path, false); ok && l != nil {
				r.roundTrips(l, path)
			}
		}
	}
	if depth == 0 {
		return
	}
	for _, e := range r.graph[st] {
		if hReadOnly[e.Act.Op] || !r.concretisable(e) {
			continue
		}
		p := append(append([]*HEdge{}, path...), e)
		if _, ok := r.runPath(p, false); ok {
			r.dfs(p, e.Post.key(r.ordered), depth-1)
		}
	}
}

// roundTrips: the order of the ordered list must survive JSON, gNMI and DeepCopy.
func (r *hRunner) roundTrips(l *hLive, path []*HEdge) {
	if len(path) == 0 {
		return
	}
	want := r.observed(l)
	lp := r.listPath().String()
	if len(want.Ents[lp]) < 2 {
		return
	}
	cmp := func(name string, other ygot.GoStruct) {
		got := r.observed(&hLive{root: other})
		if strings.Join(got.Ents[lp], "|") != strings.Join(want.Ents[lp], "|") {
			r.violate("order-"+name, fmt.Sprintf("order after %s round trip: %q, want %q", name, got.Ents[lp], want.Ents[lp]), path)
		}
	}
	// DeepCopy
	var dc ygot.GoStruct
	if err, pan := guard(func() error {
		var err error
		dc, err = ygot.DeepCopy(l.root)
		return err
	}); err != nil || pan != "" {
		r.violate("order-deepcopy-error", fmt.Sprintf("DeepCopy failed: %v %s", err, firstLine(pan)), path)
	} else {
		cmp("deepcopy", dc)
	}
	// JSON
	var js []byte
	if err, pan := guard(func() error {
		var err error
		js, err = ygot.Marshal7951(l.root, &ygot.RFC7951JSONConfig{AppendModuleName: true})
		return err
	}); err != nil || pan != "" {
		r.violate("order-json-error", fmt.Sprintf("Marshal7951 failed: %v %s", err, firstLine(pan)), path)
	} else {
		nr := r.pkg.NewRoot()
		if err, pan := guard(func() error { return r.pkg.Unmarshal(js, nr) }); err != nil || pan != "" {
			r.violate("order-json-error", fmt.Sprintf("Unmarshal of %s failed: %v %s", js, err, firstLine(pan)), path)
		} else {
			cmp("json", nr)
		}
	}
	// gNMI
	ns, err := ygot.TogNMINotifications(l.root, 1, ygot.GNMINotificationsConfig{UsePathElem: true})
	if err != nil {
		r.violate("order-gnmi-error", fmt.Sprintf("TogNMINotifications failed: %v", err), path)
		return
	}
	nr := r.pkg.NewRoot()
	if err, pan := applyNotifs(nr, r.pkg, ns); err != nil || pan != "" {
		r.violate("order-gnmi-error", fmt.Sprintf("UnmarshalNotifications failed: %v %s", err, firstLine(pan)), path)
	} else {
		cmp("gnmi", nr)
	}
	r.res.Count("roundtrips", 1)
}

func helpersCmd(args []string) *rep.Result {
	fs := flag.NewFlagSet("helpers", flag.ExitOnError)
	var c common
	c.register(fs)
	kind := fs.String("kind", "omap", "omap | klist")
	depth := fs.Int("depth", 3, "path length bound")
	walks := fs.Int("walks", 0, "additional random walks per (package, variant)")
	walklen := fs.Int("walklen", 25, "length of random walks")
	record := fs.String("record", "", "write traces of a model-independent random driver as ndjson for TLC trace validation")
	lists := fs.String("lists", "", "comma separated corpus lists to run (default: by kind and key arity)")
	traces := fs.Int("traces", 0, "number of recorded traces per (package, variant)")
	fs.Parse(args)
	res := rep.New()
	defer func() { res.Write(c.out) }()
	cp, err := conc.Load(c.corpus)
	if err != nil {
		res.InfraErr("corpus: %v", err)
		return res
	}
	if c.caseFile != "" {
		b, err := os.ReadFile(c.caseFile)
		if err != nil {
			res.InfraErr("case: %v", err)
			return res
		}
		var hc HCase
		if err := json.Unmarshal(b, &hc); err != nil {
			res.InfraErr("case: %v", err)
			return res
		}
		r := newHRunner(hc.Kind, hc.List, hc.Path[0], reg.Get(hc.Pkg), &conc.Ctx{C: cp, V: cp.Variants[hc.Variant], Seed: hc.Seed}, c.prop, res)
		r.initAtoms(atomsOf(hc.Path))
		r.runPath(hc.Path, true)
		return res
	}
	lines, err := readLines(c.in, "EDGE")
	if err != nil || len(lines) == 0 {
		res.InfraErr("helpers: no edges in %s (%v)", c.in, err)
		return res
	}
	var edges []*HEdge
	for _, l := range lines {
		e := &HEdge{}
		if err := json.Unmarshal([]byte(l), e); err != nil {
			res.InfraErr("edge: %v", err)
			return res
		}
		edges = append(edges, e)
	}
	res.Distinct = len(edges)
	type job struct {
		pkg  *reg.Pkg
		v    string
		list string
	}
	var recMu sync.Mutex
	var recF *os.File
	if *record != "" {
		recF, err = os.Create(*record)
		if err != nil {
			res.InfraErr("record: %v", err)
			return res
		}
		defer recF.Close()
	}
	jobs := make(chan job, 256)
	var wg sync.WaitGroup
	for i := 0; i < c.workers; i++ {
		wg.Add(1)
		go func() {
			defer wg.Done()
			for j := range jobs {
				x := &conc.Ctx{C: cp, V: cp.Variants[j.v], Seed: c.seed}
				r := newHRunner(*kind, j.list, edges[0], j.pkg, x, c.prop, res)
				r.rt = true
				r.initAtoms(atomsOf(edges))
				ordered := r.ordered
				r.graph = map[string][]*HEdge{}
				for _, e := range edges {
					k := e.Pre.key(ordered)
					r.graph[k] = append(r.graph[k], e)
				}
				init := HState{}.key(ordered)
				if len(r.graph[init]) == 0 {
					res.InfraErr("initial state has no edges")
					return
				}
				r.dfs(nil, init, *depth)
				rng := rand.New(rand.NewSource(c.seed*7919 + int64(len(j.v))*31 + int64(j.v[len(j.v)-1])))
				for w := 0; w < *walks; w++ {
					r.walk(init, *walklen, rng)
				}
				if recF != nil {
					for w := 0; w < *traces; w++ {
						tr := r.record(*walklen, rng)
						if tr == nil {
							continue
						}
						recMu.Lock()
						for _, ev := range tr {
							b, _ := json.Marshal(ev)
							recF.Write(append(b, '\n'))
						}
						recMu.Unlock()
					}
				}
			}
		}()
	}
	n := 0
	for _, pkg := range c.packages() {
		for vi, v := range c.variantsFor(cp, pkg) {
			if c.limit > 0 && (vi+int(c.seed))%c.limit != 0 {
				continue
			}
			for _, l := range strings.Split(*lists, ",") {
				jobs <- job{pkg, v, l}
				n++
			}
		}
	}
	close(jobs)
	wg.Wait()
	if n == 0 {
		res.InfraErr("no (package, variant) selected")
	}
	return res
}

// atomsOf collects the key and payload atoms the edges mention.
func atomsOf(edges []*HEdge) (keys, pays []string) {
	ks, ps := map[string]bool{}, map[string]bool{}
	for _, e := range edges {
		for _, k := range []string{e.Act.K, e.Act.N} {
			if k != "" && k != "nil" {
				ks[k] = true
			}
		}
		if e.Act.V != "" && e.Act.V != "none" {
			ps[e.Act.V] = true
		}
	}
	for k := range ks {
		keys = append(keys, k)
	}
	for p := range ps {
		pays = append(pays, p)
	}
	sort.Strings(keys)
	sort.Strings(pays)
	return
}

func newHRunner(kind, list string, sample *HEdge, pkg *reg.Pkg, x *conc.Ctx, prop string, res *rep.Result) *hRunner {
	r := &hRunner{kind: kind, pkg: pkg, x: x, res: res, prop: prop, visited: map[string]bool{}}
	multi := false
	for _, k := range []string{sample.Act.K, sample.Post.key(true)} {
		if strings.Contains(k, ".") {
			multi = true
		}
	}
	switch {
	case kind == "omap" && !multi:
		r.list = "ol"
	case kind == "omap":
		r.list = "om"
	case !multi:
		r.list = "l"
	default:
		r.list = "m"
	}
	if list != "" {
		r.list = list
	}
	r.ordered = kind == "omap"
	r.kn = x.C.Lists[r.list]
	// a nil key is expressible (and rejected, says the property) when every key leaf is a
	// pointer or an interface; enumeration keys are plain values without a nil
	r.nilable = true
	if l, err := r.fresh(); err == nil {
		for _, n := range r.kn {
			_, sf, ok := abs.FieldInfoByStep(reflect.New(l.entT.Elem()).Elem(), n)
			if !ok || (sf.Type.Kind() != reflect.Ptr && sf.Type.Kind() != reflect.Interface && sf.Type.Kind() != reflect.Slice) {
				r.nilable = false
			}
		}
	}
	return r
}

// HEvent is one recorded call of a random driver on the real code, for TLC trace validation:
// the call, what the real code returned and the real state afterwards (read through the
// projector), all in the vocabulary of the specification.
type HEvent struct {
	Tr    string   `json:"tr"`
	Op    string   `json:"op"`
	Via   string   `json:"via"`
	K     string   `json:"k"`
	N     string   `json:"n"`
	V     string   `json:"v"`
	Ret   string   `json:"ret"`
	RetL  []string `json:"retl"`
	Alloc bool     `json:"alloc"`
	Keys  []string `json:"keys"`
	Ents  []HEnt   `json:"ents"`
	// Meta (reset lines only) identifies the trace for the classification of a rejection.
	Meta map[string]string `json:"meta,omitempty"`
}

var walkSeq int64
var walkMu sync.Mutex

// walk runs a random walk of n calls through the model graph on one live struct; every step
// is checked like a path step (spec -> code, long histories).
func (r *hRunner) walk(init string, n int, rng *rand.Rand) {
	l, err := r.fresh()
	if err != nil {
		r.res.InfraErr("fresh: %v", err)
		return
	}
	st := init
	var path []*HEdge
	for i := 0; i < n; i++ {
		var cand []*HEdge
		for _, e := range r.graph[st] {
			if r.concretisable(e) {
				cand = append(cand, e)
			}
		}
		if len(cand) == 0 {
			break
		}
		e := cand[rng.Intn(len(cand))]
		path = append(path, e)
		bad, err := r.exec(l, e, true)
		if err != nil {
			r.res.InfraErr("walk exec: %v", err)
			return
		}
		r.res.Eval(1)
		r.res.Count("walk_steps", 1)
		if len(bad) > 0 {
			for _, b := range bad {
				r.violate(b[0], b[1], path)
			}
			return
		}
		st = e.Post.key(r.ordered)
	}
	r.res.Count("walks", 1)
}

// record drives the real code with n random calls chosen WITHOUT consulting the model and
// logs what the code did (code -> spec); TLC decides whether the trace is a behaviour of the
// specification.
func (r *hRunner) record(n int, rng *rand.Rand) []*HEvent {
	l, err := r.fresh()
	if err != nil {
		r.res.InfraErr("fresh: %v", err)
		return nil
	}
	walkMu.Lock()
	walkSeq++
	id := fmt.Sprintf("%s/%s/%s#%d", r.pkg.Name, r.x.V.Name, r.list, walkSeq)
	walkMu.Unlock()
	meta := r.sig("trace-rejected", &HEdge{})
	delete(meta, "op")
	meta["pkg"], meta["variant"] = r.pkg.Name, r.x.V.Name
	out := []*HEvent{{Tr: id, Op: "reset", Keys: []string{}, Ents: []HEnt{}, RetL: []string{}, Meta: meta}}
	if len(r.keyAtoms) == 0 {
		return nil
	}
	var ops []string
	if r.kind == "omap" {
		ops = []string{"Append", "Append", "AppendNew", "AppendNew", "Delete", "Delete", "Get", "Keys", "Values", "Len", "AppendNilEntry"}
	} else {
		ops = []string{"New", "GetOrCreate", "Get", "Delete", "Append", "Append", "Rename", "Rename", "GetOrCreateMap"}
	}
	pick := func(xs []string) string { return xs[rng.Intn(len(xs))] }
	for i := 0; i < n; i++ {
		a := HAct{Op: pick(ops)}
		if r.kind == "omap" {
			a.Via = pick([]string{"map", "parent"})
		}
		switch a.Op {
		case "Append":
			a.K = pick(r.keyAtoms)
			if r.nilable && rng.Intn(8) == 0 {
				a.K = "nil"
			}
			if len(r.payAtoms) > 0 {
				a.V = pick(r.payAtoms)
			} else {
				a.V = "none"
			}
		case "AppendNew", "New", "GetOrCreate", "Get", "Delete":
			a.K = pick(r.keyAtoms)
		case "Rename":
			a.K, a.N = pick(r.keyAtoms), pick(r.keyAtoms)
		case "Keys", "Values", "Len":
			a.Via = ""
		}
		ret, retl, err := r.call(l, a)
		if err != nil {
			r.res.InfraErr("record %s: %v", a.Op, err)
			return nil
		}
		st := r.realState(l)
		ev := &HEvent{Tr: id, Op: a.Op, Via: a.Via, K: a.K, N: a.N, V: a.V, Ret: ret, RetL: retl, Alloc: st.Alloc, Keys: st.Keys, Ents: st.Ents}
		if ev.RetL == nil {
			ev.RetL = []string{}
		}
		if ev.Keys == nil {
			ev.Keys = []string{}
		}
		out = append(out, ev)
		r.res.Count("recorded_events", 1)
	}
	r.res.Count("recorded_traces", 1)
	return out
}
