package main

import (
	"encoding/hex"
	"encoding/json"
	"flag"
	"fmt"
	"sort"
	"strconv"
	"strings"

	gpb "github.com/openconfig/gnmi/proto/gnmi"
	"github.com/openconfig/ygot/proto/yext"
	"github.com/openconfig/ygot/proto/ywrapper"
	"github.com/openconfig/ygot/protomap"
	epb "github.com/openconfig/ygot/protomap/testdata/exschemapath"
	"github.com/openconfig/ygot/ygot"
	"google.golang.org/protobuf/proto"
	"google.golang.org/protobuf/reflect/protoreflect"
	"google.golang.org/protobuf/types/descriptorpb"

	"verif/harness/internal/rep"
)

// Replay of the Protomap cases (C24): every abstract message of the model is built as the
// repository's annotated test proto, flattened with PathsFromProto and rebuilt with
// ProtoFromPaths into a new message.

func init() { subcmds["protomap"] = protomapCmd }

type PMCase struct {
	Sub    string `json:"sub"`
	Family string `json:"family"`
	// Root
	Hostname string              `json:"hostname,omitempty"`
	Ifs      []string            `json:"ifs,omitempty"`
	Ifdesc   map[string]string   `json:"ifdesc,omitempty"`
	Subs     map[string][]string `json:"subs,omitempty"`
	Subdesc  string              `json:"subdesc,omitempty"`
	// ExampleMessage
	Str      string   `json:"str,omitempty"`
	Ui       string   `json:"ui,omitempty"`
	By       string   `json:"by,omitempty"`
	En       string   `json:"en,omitempty"`
	Compress string   `json:"compress,omitempty"`
	Lls      []string `json:"lls,omitempty"`
	Llu      []string `json:"llu,omitempty"`
	Llb      []string `json:"llb,omitempty"`
	Llun     []string `json:"llun,omitempty"`
	Llunb    []string `json:"llunb,omitempty"`
	// Canonical is false when a union element sits in a member YANG would not choose for its
	// value (an enum in a union that has a string member): such a message shares its flattening
	// with another message and the round trip is not decidable for it.
	Canonical *bool    `json:"canonical,omitempty"`
	Em        []string `json:"em,omitempty"`
	Emstr     string   `json:"emstr,omitempty"`
	Child     []string `json:"child,omitempty"`

	Paths []string `json:"paths"`
}

func set(s string) bool { return s != "" && s != "-" }

var pmEnum = map[string]epb.ExampleEnum{"VAL_ONE": epb.ExampleEnum_ENUM_VALONE, "VAL_TWO": epb.ExampleEnum_ENUM_VALTWO, "VAL_FORTYTWO": epb.ExampleEnum_ENUM_VALFORTYTWO}

func mustU64(s string) uint64 {
	u, err := strconv.ParseUint(s, 10, 64)
	if err != nil {
		panic(err)
	}
	return u
}

func (c *PMCase) build() proto.Message {
	if c.Family == "root" {
		m := &epb.Root{}
		if set(c.Hostname) {
			m.System = &epb.System{Hostname: &ywrapper.StringValue{Value: c.Hostname}}
		}
		ifs := append([]string(nil), c.Ifs...)
		sort.Strings(ifs)
		for _, i := range ifs {
			ifc := &epb.Interface{}
			if set(c.Ifdesc[i]) {
				ifc.Description = &ywrapper.StringValue{Value: c.Ifdesc[i]}
			}
			subs := append([]string(nil), c.Subs[i]...)
			sort.Slice(subs, func(a, b int) bool { return mustU64(subs[a]) < mustU64(subs[b]) })
			for _, s := range subs {
				sub := &epb.Subinterface{}
				if set(c.Subdesc) {
					sub.Description = &ywrapper.StringValue{Value: c.Subdesc}
				}
				ifc.Subinterface = append(ifc.Subinterface, &epb.Interface_SubinterfaceKey{Index: mustU64(s), Subinterface: sub})
			}
			m.Interface = append(m.Interface, &epb.Root_InterfaceKey{Name: i, Interface: ifc})
		}
		return m
	}
	m := &epb.ExampleMessage{}
	if set(c.Str) {
		m.Str = &ywrapper.StringValue{Value: c.Str}
	}
	if set(c.Ui) {
		m.Ui = &ywrapper.UintValue{Value: mustU64(c.Ui)}
	}
	if set(c.By) {
		b, _ := hex.DecodeString(c.By)
		m.By = &ywrapper.BytesValue{Value: b}
	}
	if set(c.En) {
		m.En = pmEnum[c.En]
	}
	if set(c.Compress) {
		m.Compress = &ywrapper.StringValue{Value: c.Compress}
	}
	for _, s := range c.Lls {
		m.LeaflistString = append(m.LeaflistString, &ywrapper.StringValue{Value: s})
	}
	for _, s := range c.Llu {
		m.LeaflistUint = append(m.LeaflistUint, &ywrapper.UintValue{Value: mustU64(s)})
	}
	for _, s := range c.Llb {
		b, _ := hex.DecodeString(s)
		m.LeaflistBytes = append(m.LeaflistBytes, &ywrapper.BytesValue{Value: b})
	}
	for _, s := range c.Llun {
		k, v, _ := strings.Cut(s, ":")
		u := &epb.ExampleUnion{}
		switch k {
		case "s":
			u.Str = v
		case "u":
			u.Uint = mustU64(v)
		case "e":
			u.Enum = pmEnum[v]
		}
		m.LeaflistUnion = append(m.LeaflistUnion, u)
	}
	for _, s := range c.Llunb {
		k, v, _ := strings.Cut(s, ":")
		u := &epb.ExampleUnionUnambiguous{}
		switch k {
		case "u":
			u.Uint = mustU64(v)
		case "e":
			u.Enum = pmEnum[v]
		}
		m.LeaflistUnionB = append(m.LeaflistUnionB, u)
	}
	em := append([]string(nil), c.Em...)
	sort.Strings(em)
	for _, k := range em {
		mem := &epb.ExampleMessageListMember{}
		if set(c.Emstr) {
			mem.Str = &ywrapper.StringValue{Value: c.Emstr}
		}
		for _, n := range c.Child {
			mem.ChildList = append(mem.ChildList, &epb.NestedListKey{KeyOne: n, Field: &epb.NestedListMember{}})
		}
		m.Em = append(m.Em, &epb.ExampleMessageKey{SingleKey: k, Member: mem})
	}
	return m
}

// annotations collects every schema path annotated on a field reachable from the message.
func annotations(md protoreflect.MessageDescriptor, out map[string]bool, seen map[protoreflect.FullName]bool) {
	if seen[md.FullName()] {
		return
	}
	seen[md.FullName()] = true
	for i := 0; i < md.Fields().Len(); i++ {
		fd := md.Fields().Get(i)
		if o, ok := fd.Options().(*descriptorpb.FieldOptions); ok && o != nil {
			if s, ok := proto.GetExtension(o, yext.E_Schemapath).(string); ok && s != "" {
				for _, p := range strings.Split(s, "|") {
					out[p] = true
				}
			}
		}
		if fd.Message() != nil {
			annotations(fd.Message(), out, seen)
		}
	}
}

func stripKeys(p *gpb.Path) string {
	var sb strings.Builder
	for _, e := range p.GetElem() {
		sb.WriteString("/" + e.GetName())
	}
	return sb.String()
}

// sortRepeated orders keyed-list entries (the order of entries of a YANG "ordered-by system"
// list carries no information; the harness builds them sorted and compares them sorted).
func sortRepeated(m proto.Message) {
	switch v := m.(type) {
	case *epb.Root:
		sort.SliceStable(v.Interface, func(a, b int) bool { return v.Interface[a].GetName() < v.Interface[b].GetName() })
		for _, i := range v.Interface {
			s := i.GetInterface().GetSubinterface()
			sort.SliceStable(s, func(a, b int) bool { return s[a].GetIndex() < s[b].GetIndex() })
		}
	case *epb.ExampleMessage:
		sort.SliceStable(v.Em, func(a, b int) bool { return v.Em[a].GetSingleKey() < v.Em[b].GetSingleKey() })
		for _, e := range v.Em {
			c := e.GetMember().GetChildList()
			sort.SliceStable(c, func(a, b int) bool { return c[a].GetKeyOne() < c[b].GetKeyOne() })
		}
	}
}

func runPM(c *PMCase, res *rep.Result) {
	c.Sub = "protomap"
	m := c.build()
	var fresh proto.Message
	if c.Family == "root" {
		fresh = &epb.Root{}
	} else {
		fresh = &epb.ExampleMessage{}
	}
	ann := map[string]bool{}
	annotations(m.ProtoReflect().Descriptor(), ann, map[protoreflect.FullName]bool{})
	violate := func(conj, detail string) {
		res.Violate("C24", map[string]string{"conjunct": conj, "family": c.Family}, detail, c)
	}
	var paths map[*gpb.Path]interface{}
	pan, err := guardErr(func() error {
		var e error
		paths, e = protomap.PathsFromProto(m)
		return e
	})
	res.Eval(1)
	if pan != "" {
		violate("paths_panic", "PathsFromProto panicked: "+firstLine(pan))
		return
	}
	if err != nil {
		violate("paths_error", fmt.Sprintf("PathsFromProto(%v): %v", m, err))
		return
	}
	want := map[string]bool{}
	for _, p := range c.Paths {
		want[p] = true
	}
	got := map[string]bool{}
	for p := range paths {
		s, err := ygot.PathToString(p)
		if err != nil {
			violate("paths_invalid", fmt.Sprintf("emitted path %v: %v", p, err))
			return
		}
		got[s] = true
		if !ann[stripKeys(p)] {
			violate("not_annotated", fmt.Sprintf("PathsFromProto emitted %s whose schema path %s is annotated on no field of the message", s, stripKeys(p)))
		} else if !want[s] {
			violate("not_data_path", fmt.Sprintf("PathsFromProto emitted %s, which is not a data-tree path of a populated field of %v (model: %v)", s, m, c.Paths))
		}
	}
	for p := range want {
		if !got[p] {
			res.DriftNote("model path not emitted by PathsFromProto: " + stripKeysStr(p))
		}
	}
	pan, err = guardErr(func() error { return protomap.ProtoFromPaths(fresh, paths) })
	if pan != "" {
		violate("unmap_panic", "ProtoFromPaths panicked on PathsFromProto's output: "+firstLine(pan))
		return
	}
	if err != nil {
		violate("unmap_error", fmt.Sprintf("ProtoFromPaths(new, PathsFromProto(m)) failed for m=%v: %v", m, err))
		return
	}
	sortRepeated(fresh)
	if c.Canonical != nil && !*c.Canonical {
		res.Count("non_canonical_union_messages", 1)
		if !proto.Equal(m, fresh) {
			res.DriftNote("a message with an enum element in a string|uint64|enum union is rebuilt with the string member (the flattened form cannot tell them apart)")
		}
		return
	}
	if !proto.Equal(m, fresh) {
		violate("not_equal", fmt.Sprintf("round trip changed the message:\n  m    = %v\n  back = %v", m, fresh))
	}
}

func stripKeysStr(p string) string {
	var sb strings.Builder
	depth := 0
	for _, r := range p {
		switch {
		case r == '[':
			depth++
		case r == ']':
			depth--
		case depth == 0:
			sb.WriteRune(r)
		}
	}
	return sb.String()
}

func guardErr(f func() error) (pan string, err error) {
	defer func() {
		if r := recover(); r != nil {
			pan = fmt.Sprint(r)
		}
	}()
	return "", f()
}

func protomapCmd(args []string) *rep.Result {
	fs := flag.NewFlagSet("protomap", flag.ExitOnError)
	var c common
	c.register(fs)
	fs.Parse(args)
	res := rep.New()
	defer func() { res.Write(c.out) }()
	if c.caseFile != "" {
		var pc PMCase
		if err := readJSONFile(c.caseFile, &pc); err != nil {
			res.InfraErr("%v", err)
			return res
		}
		runPM(&pc, res)
		return res
	}
	n := 0
	for _, tag := range []string{"PMROOT", "PMEX"} {
		var lines []string
		for _, in := range strings.Split(c.in, ",") {
			ls, err := readLines(in, tag)
			if err != nil {
				res.InfraErr("%v", err)
				return res
			}
			lines = append(lines, ls...)
		}
		for _, l := range lines {
			var pc PMCase
			if err := json.Unmarshal([]byte(l), &pc); err != nil {
				res.InfraErr("bad %s line: %v", tag, err)
				return res
			}
			pc.Family = map[string]string{"PMROOT": "root", "PMEX": "example"}[tag]
			runPM(&pc, res)
			n++
		}
	}
	res.Distinct = n
	if n == 0 {
		res.InfraErr("no protomap cases in %s", c.in)
	}
	return res
}
