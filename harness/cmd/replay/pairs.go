package main

import (
	"encoding/json"
	"flag"
	"fmt"
	"os"
	"strings"
	"sync"

	gpb "github.com/openconfig/gnmi/proto/gnmi"
	"github.com/openconfig/ygot/ygot"
	"github.com/openconfig/ygot/ytypes"
	"google.golang.org/protobuf/proto"

	"verif/harness/internal/abs"
	"verif/harness/internal/conc"
	"verif/harness/internal/reg"
	"verif/harness/internal/rep"
)

func init() { subcmds["pairs"] = pairsCmd }

// PairLine is one PAIR line of PairLaws.EmitPair.
type PairLine struct {
	A        conc.ATree `json:"a"`
	B        conc.ATree `json:"b"`
	Compat   bool       `json:"compat"`
	CompatOw bool       `json:"compatow"`
	Merged   conc.ATree `json:"merged"`
	Applied  conc.ATree `json:"applied"`
}

// PairCase is the replayable case.
type PairCase struct {
	Sub     string    `json:"sub"`
	Line    *PairLine `json:"line"`
	Pkg     string    `json:"pkg"`
	Variant string    `json:"variant"`
	Seed    int64     `json:"seed"`
	Mode    string    `json:"mode"`
}

// pairsProp is the property the current run decides (C04 runs add an unkeyed list to input a).
var pairsProp string

func pairsCmd(args []string) *rep.Result {
	fs := flag.NewFlagSet("pairs", flag.ExitOnError)
	var c common
	c.register(fs)
	modes := fs.String("modes", "c03", "replay modes: c03,c05")
	fs.Parse(args)
	pairsProp = c.prop
	res := rep.New()
	defer func() { res.Write(c.out) }()
	cp, err := conc.Load(c.corpus)
	if err != nil {
		res.InfraErr("corpus: %v", err)
		return res
	}
	if c.caseFile != "" {
		b, err := os.ReadFile(c.caseFile)
		if err != nil {
			res.InfraErr("case: %v", err)
			return res
		}
		var pc PairCase
		if err := json.Unmarshal(b, &pc); err != nil {
			res.InfraErr("case: %v", err)
			return res
		}
		runPair(pc.Line, reg.Get(pc.Pkg), &conc.Ctx{C: cp, V: cp.Variants[pc.Variant], Seed: pc.Seed}, pc.Mode, res)
		return res
	}
	lines, err := readLines(c.in, "PAIR")
	if err != nil {
		res.InfraErr("pairs: %v", err)
		return res
	}
	if len(lines) == 0 {
		res.InfraErr("no pairs in %s", c.in)
		return res
	}
	type job struct {
		s    int64 // concretisation seed of the case
		l    *PairLine
		pkg  *reg.Pkg
		v    string
		mode string
	}
	jobs := make(chan job, 1024)
	var wg sync.WaitGroup
	for i := 0; i < c.workers; i++ {
		wg.Add(1)
		go func() {
			defer wg.Done()
			for j := range jobs {
				safely(res, "pairs", &PairCase{Sub: "pairs", Line: j.l, Pkg: j.pkg.Name, Variant: j.v, Seed: j.s, Mode: j.mode}, func() {
					runPair(j.l, j.pkg, &conc.Ctx{C: cp, V: cp.Variants[j.v], Seed: j.s}, j.mode, res)
				})
			}
		}()
	}
	for i, l := range lines {
		pl := &PairLine{}
		if err := json.Unmarshal([]byte(l), pl); err != nil {
			res.InfraErr("pair: %v", err)
			break
		}
		res.Distinct++
		for _, pkg := range c.packages() {
			for vi, v := range c.variantsFor(cp, pkg) {
				if c.limit > 0 && (i+vi+int(c.seed))%c.limit != 0 {
					continue
				}
				for _, m := range strings.Split(*modes, ",") {
					jobs <- job{s: c.seed + int64(i%13), l: pl, pkg: pkg, v: v, mode: m}
				}
			}
		}
	}
	close(jobs)
	wg.Wait()
	return res
}

func buildRoot(a *conc.ATree, pkg *reg.Pkg, x *conc.Ctx) (ygot.GoStruct, *abs.Tree, error) {
	t, err := x.Tree(a)
	if err != nil {
		return nil, nil, err
	}
	root := pkg.NewRoot()
	if err := abs.Build(t, root, pkg); err != nil {
		return nil, nil, fmt.Errorf("build: %v", err)
	}
	return root, conc.Restrict(t, x.V), nil
}

// dataOf is the property-level view: leaves, non-empty leaf-lists, entries.
func dataOf(root ygot.GoStruct, pkg *reg.Pkg, x *conc.Ctx) *abs.Tree {
	return observable(conc.Restrict(abs.Project(root, pkg), x.V), x, false)
}

func applyNotifs(root ygot.GoStruct, pkg *reg.Pkg, ns []*gpb.Notification) (error, string) {
	st, err := schemaTree(pkg)
	if err != nil {
		return err, ""
	}
	return guard(func() error { return ytypes.UnmarshalNotifications(&ytypes.Schema{Root: root, SchemaTree: st}, ns) })
}

func runPair(l *PairLine, pkg *reg.Pkg, x *conc.Ctx, mode string, res *rep.Result) {
	pc := &PairCase{Sub: "pairs", Line: l, Pkg: pkg.Name, Variant: x.V.Name, Seed: x.Seed, Mode: mode}
	ra, ta, err := buildRoot(&l.A, pkg, x)
	var rb ygot.GoStruct
	var tb *abs.Tree
	if err == nil {
		rb, tb, err = buildRoot(&l.B, pkg, x)
	}
	if err != nil {
		if _, ok := err.(conc.ErrNoValue); ok {
			res.Skip(1)
			return
		}
		res.InfraErr("%v", err)
		return
	}
	sig := func(conjunct string) map[string]string {
		s := map[string]string{"conjunct": conjunct, "mode": mode, "shape": x.V.Shape}
		if len(l.A.Oe) > 0 || len(l.B.Oe) > 0 {
			s["ordered"] = "true"
			if strings.HasPrefix(x.TypeAt("ol/k"), "u-") {
				s["union_key_ordered"] = "true"
			}
		}
		if !pkg.SimpleUnion && (touchesUnionKeyedList(&ReqEdge{Pre: l.A}, x) || touchesUnionKeyedList(&ReqEdge{Pre: l.B}, x)) {
			s["wrapper_union_key"] = "true"
		}
		for _, t := range [][]json.RawMessage{l.A.Ll, l.B.Ll} {
			for _, r := range t {
				if strings.HasSuffix(string(r), ",[]]") {
					s["empty_leaflist"] = "true"
				}
			}
		}
		types := map[string]bool{}
		for _, a := range []*conc.ATree{&l.A, &l.B} {
			for _, t := range typesIn(a, x) {
				types[t] = true
			}
		}
		if !pkg.SimpleUnion {
			for t := range types {
				if strings.HasPrefix(t, "u-") {
					s["wrapper_union"] = "true"
				}
			}
		}
		for _, t := range []string{"binary", "empty"} {
			if types[t] {
				s["has_"+t] = "true"
			}
		}
		return s
	}
	res.Eval(1)
	res.Count("mode_"+mode, 1)
	inputsUnchanged := func(api string) {
		if after := conc.Restrict(abs.Project(ra, pkg), x.V); !abs.Equal(after, ta, true) {
			res.Violate("C11", sig(api+"-mutates-a"), api+" changed its first argument: "+strings.Join(abs.Diff(after, ta, true), "; "), pc)
		}
		if after := conc.Restrict(abs.Project(rb, pkg), x.V); !abs.Equal(after, tb, true) {
			res.Violate("C11", sig(api+"-mutates-b"), api+" changed its second argument: "+strings.Join(abs.Diff(after, tb, true), "; "), pc)
		}
	}
	fresh := func(a *conc.ATree) ygot.GoStruct {
		r, _, _ := buildRoot(a, pkg, x)
		return r
	}
	wantB := observable(tb, x, false)
	wantA := observable(ta, x, false)
	switch mode {
	case "c03":
		var n *gpb.Notification
		derr, pan := guard(func() error {
			var err error
			n, err = ygot.Diff(ra, rb)
			return err
		})
		if pan != "" {
			res.Violate("C20", sig("panic"), "panic in Diff: "+firstLine(pan), pc)
			return
		}
		inputsUnchanged("Diff")
		if derr != nil {
			res.Violate("C03", sig("diff-error"), fmt.Sprintf("Diff failed on schema-conforming trees: %v; a=%v b=%v", derr, ta.Lines(), tb.Lines()), pc)
			return
		}
		if res.Evaluated%499 == 0 {
			res.Sample(map[string]interface{}{"pkg": pkg.Name, "variant": x.V.Name, "a": ta.Lines(), "b": tb.Lines(), "diff": fmt.Sprint(n)})
		}
		// sound and complete: applying the diff to a copy of a gives b's leaf set
		ca := fresh(&l.A)
		aerr, pan := applyNotifs(ca, pkg, []*gpb.Notification{n})
		if pan != "" {
			res.Violate("C20", sig("panic"), "panic applying a diff: "+firstLine(pan), pc)
			return
		}
		if aerr != nil {
			res.Violate("C03", sig("apply-error"), fmt.Sprintf("the notification from Diff cannot be applied: %v; diff %v", aerr, n), pc)
			return
		}
		if d := abs.Diff(dataOf(ca, pkg, x), wantB, false); len(d) > 0 && !(len(l.B.Oe) > 0 || len(l.A.Oe) > 0) {
			res.Violate("C03", sig("sound-complete"), fmt.Sprintf("applying Diff(a,b) to a does not give b's leaves: %s; diff %v", strings.Join(d, "; "), n), pc)
			return
		} else if len(d) > 0 {
			// with ordered lists the plain Diff is documented as granular: only the leaf set counts
			ga, gb := dataOf(ca, pkg, x), wantB
			ga.Ordered, gb.Ordered = map[string]bool{}, map[string]bool{}
			if dd := diffIgnoringOrder(ga, gb); len(dd) > 0 {
				res.Violate("C03", sig("sound-complete"), fmt.Sprintf("applying Diff(a,b) to a does not give b's leaves: %s; diff %v", strings.Join(dd, "; "), n), pc)
				return
			}
		}
		// minimal: every update changes a; every delete names data of a that b lacks
		for _, u := range n.Update {
			one := fresh(&l.A)
			applyNotifs(one, pkg, []*gpb.Notification{{Update: []*gpb.Update{u}}})
			if abs.Equal(dataOf(one, pkg, x), wantA, false) {
				s := sig("update-not-minimal")
				res.Violate("C03", s, fmt.Sprintf("Diff update %v names a leaf that already has this value in a=%v", u, ta.Lines()), pc)
				break
			}
		}
		for _, d := range n.Delete {
			one := fresh(&l.A)
			applyNotifs(one, pkg, []*gpb.Notification{{Delete: []*gpb.Path{d}}})
			if abs.Equal(dataOf(one, pkg, x), wantA, false) {
				res.Violate("C03", sig("delete-not-in-a"), fmt.Sprintf("Diff delete %v names no data of a=%v", d, ta.Lines()), pc)
				break
			}
			oneB := fresh(&l.B)
			applyNotifs(oneB, pkg, []*gpb.Notification{{Delete: []*gpb.Path{d}}})
			if !abs.Equal(dataOf(oneB, pkg, x), wantB, false) {
				res.Violate("C03", sig("delete-present-in-b"), fmt.Sprintf("Diff delete %v names data that b still has: b=%v", d, tb.Lines()), pc)
				break
			}
		}
		// Diff(a, a) is empty
		if same, err := ygot.Diff(ra, fresh(&l.A)); err == nil && len(same.Update)+len(same.Delete) > 0 {
			res.Violate("C03", sig("self-diff"), fmt.Sprintf("Diff(a, a) is not empty: %v", same), pc)
		}
		// the path options: the diff names one path per leaf (MapToSinglePath) and / or the shadow
		// paths (PreferShadowPath, for structs that carry shadow-path tags); applied with the
		// matching unmarshalling option it must still turn a into b
		if pkg.ShadowTags {
			for _, po := range []*ygot.DiffPathOpt{{MapToSinglePath: true}, {PreferShadowPath: true}, {MapToSinglePath: true, PreferShadowPath: true}} {
				var on *gpb.Notification
				oerr, pan := guard(func() error {
					var err error
					on, err = ygot.Diff(ra, rb, po)
					return err
				})
				name := fmt.Sprintf("single=%v,shadow=%v", po.MapToSinglePath, po.PreferShadowPath)
				if pan != "" {
					res.Violate("C20", sig("panic"), "panic in Diff("+name+"): "+firstLine(pan), pc)
					continue
				}
				if oerr != nil {
					res.Violate("C03", sig("diff-error-opts"), fmt.Sprintf("Diff(%s) failed: %v", name, oerr), pc)
					continue
				}
				ca := fresh(&l.A)
				st, _ := schemaTree(pkg)
				var uo []ytypes.UnmarshalOpt
				if po.PreferShadowPath {
					uo = append(uo, &ytypes.PreferShadowPath{})
				}
				aerr, apan := guard(func() error {
					return ytypes.UnmarshalNotifications(&ytypes.Schema{Root: ca, SchemaTree: st}, []*gpb.Notification{on}, uo...)
				})
				if apan != "" {
					res.Violate("C20", sig("panic"), "panic applying Diff("+name+"): "+firstLine(apan), pc)
					continue
				}
				res.Count("diff_path_options", 1)
				if aerr != nil {
					res.Violate("C03", sig("apply-error-opts"), fmt.Sprintf("the notification from Diff(%s) cannot be applied: %v; diff %v", name, aerr, on), pc)
					continue
				}
				ga, gb := dataOf(ca, pkg, x), wantB
				if len(l.B.Oe) > 0 || len(l.A.Oe) > 0 {
					ga.Ordered, gb.Ordered = map[string]bool{}, map[string]bool{}
				}
				if dd := diffIgnoringOrder(ga, gb); len(dd) > 0 {
					s := sig("sound-complete-opts")
					s["opts"] = name
					res.Violate("C03", s, fmt.Sprintf("applying Diff(a,b,%s) to a does not give b's leaves: %s; diff %v", name, strings.Join(dd, "; "), on), pc)
				}
			}
		}
		// IgnoreAdditions omits exactly the leaves new in b
		ign, ierr := ygot.Diff(ra, rb, &ygot.IgnoreAdditions{})
		if ierr == nil {
			inIgn := map[string]bool{}
			for _, u := range ign.Update {
				inIgn[pathString(u.Path)] = true
			}
			for _, u := range n.Update {
				one := fresh(&l.A)
				applyNotifs(one, pkg, []*gpb.Notification{{Delete: []*gpb.Path{u.Path}}})
				presentInA := !abs.Equal(dataOf(one, pkg, x), wantA, false)
				if presentInA != inIgn[pathString(u.Path)] {
					res.Violate("C03", sig("ignore-additions"), fmt.Sprintf("IgnoreAdditions: update %v present-in-a=%v but kept=%v", u.Path, presentInA, inIgn[pathString(u.Path)]), pc)
					break
				}
			}
			if len(ign.Delete) != len(n.Delete) {
				res.Violate("C03", sig("ignore-additions"), "IgnoreAdditions changed the deletes", pc)
			}
		}
		// DiffWithAtomic: also the order of ordered lists
		var ns []*gpb.Notification
		werr, pan := guard(func() error {
			var err error
			ns, err = ygot.DiffWithAtomic(ra, rb)
			return err
		})
		if pan != "" {
			res.Violate("C20", sig("panic"), "panic in DiffWithAtomic: "+firstLine(pan), pc)
			return
		}
		inputsUnchanged("DiffWithAtomic")
		if werr != nil {
			res.Violate("C03", sig("diff-error"), fmt.Sprintf("DiffWithAtomic failed: %v", werr), pc)
			return
		}
		ca2 := fresh(&l.A)
		aerr, pan = applyNotifs(ca2, pkg, ns)
		if pan != "" {
			res.Violate("C20", sig("panic"), "panic applying an atomic diff: "+firstLine(pan), pc)
			return
		}
		if aerr != nil {
			res.Violate("C03", sig("atomic-apply-error"), fmt.Sprintf("the notifications from DiffWithAtomic cannot be applied: %v; %v", aerr, ns), pc)
			return
		}
		if d := abs.Diff(dataOf(ca2, pkg, x), wantB, false); len(d) > 0 {
			res.Violate("C03", sig("atomic-sound-complete"), fmt.Sprintf("applying DiffWithAtomic(a,b) to a does not give b (leaves and order): %s; notifications %v", strings.Join(d, "; "), ns), pc)
		}
	case "c05":
		prop04 := pairsProp == "C04"
		augmented := false
		for _, variant := range []string{"plain", "overwrite", "emptymaps"} {
			ow := variant == "overwrite"
			var opts []ygot.MergeOpt
			want := l.Compat
			name := "MergeStructs"
			if variant == "emptymaps" {
				// keyed lists without entries held as empty non-nil maps, merged with MergeEmptyMaps
				ra, rb = fresh(&l.A), fresh(&l.B)
				ta = conc.Restrict(abs.Project(ra, pkg), x.V)
				if abs.AllocEmptyMaps(ra)+abs.AllocEmptyMaps(rb) == 0 {
					continue
				}
				opts = append(opts, &ygot.MergeEmptyMaps{})
				name = "MergeStructs(emptymaps)"
			}
			if ow {
				opts = append(opts, &ygot.MergeOverwriteExistingFields{})
				want = l.CompatOw
				name = "MergeStructs(overwrite)"
				// fresh inputs: where the first result aliases an input (a C04 matter), the
				// Scramble below has changed ra/rb, which must not leak into this C05 verdict
				ra, rb = fresh(&l.A), fresh(&l.B)
				ta = conc.Restrict(abs.Project(ra, pkg), x.V)
			}
			if mode == "c05" && prop04 && variant == "plain" {
				// C04 runs: input a also carries an unkeyed list with two elements
				ra, rb = fresh(&l.A), fresh(&l.B)
				if augmentUnkeyed(ra, pkg, x) > 0 {
					ta = conc.Restrict(abs.Project(ra, pkg), x.V)
					augmented = true
				}
			}
			var m ygot.GoStruct
			merr, pan := guard(func() error {
				var err error
				m, err = ygot.MergeStructs(ra, rb, opts...)
				return err
			})
			if pan != "" {
				res.Violate("C20", sig("panic"), "panic in "+name+": "+firstLine(pan), pc)
				return
			}
			inputsUnchanged(name)
			s := sig("")
			s["overwrite"] = fmt.Sprint(ow)
			if (merr == nil) != want {
				s["conjunct"] = "success-iff-compatible"
				res.Violate("C05", s, fmt.Sprintf("%s: err=%v but the model says compatible=%v; a=%v b=%v", name, merr, want, ta.Lines(), tb.Lines()), pc)
				continue
			}
			if merr != nil {
				continue
			}
			exp, err := x.Tree(&l.Merged)
			if err != nil {
				continue
			}
			got := conc.Restrict(abs.Project(m, pkg), x.V)
			if d := abs.Diff(observable(got, x, false), observable(conc.Restrict(exp, x.V), x, false), false); len(d) > 0 && !augmented {
				s["conjunct"] = "union"
				res.Violate("C05", s, fmt.Sprintf("%s result is not the union: %s; a=%v b=%v", name, strings.Join(d, "; "), ta.Lines(), tb.Lines()), pc)
				continue
			}
			if res.Evaluated%499 == 0 {
				res.Sample(map[string]interface{}{"pkg": pkg.Name, "variant": x.V.Name, "a": ta.Lines(), "b": tb.Lines(), "merged": got.Lines()})
			}
			// C04: the result shares no mutable memory with either input
			for i, in := range []ygot.GoStruct{ra, rb} {
				if sh := abs.SharedCells(m, in); len(sh) > 0 {
					s4 := sig("merge-shared-cell")
					s4["input"] = []string{"a", "b"}[i]
					s4["cell"] = cellKind(sh[0])
					res.Violate("C04", s4, fmt.Sprintf("MergeStructs result shares mutable memory with input %s: %s", s4["input"], strings.Join(sh, ", ")), pc)
				}
			}
			abs.Scramble(m)
			if after := conc.Restrict(abs.Project(ra, pkg), x.V); !abs.Equal(after, ta, true) {
				res.Violate("C04", sig("merge-mutation-visible"), "mutating the MergeStructs result changed input a: "+strings.Join(abs.Diff(after, ta, true), "; "), pc)
			}
			if after := conc.Restrict(abs.Project(rb, pkg), x.V); !abs.Equal(after, tb, true) {
				res.Violate("C04", sig("merge-mutation-visible"), "mutating the MergeStructs result changed input b: "+strings.Join(abs.Diff(after, tb, true), "; "), pc)
			}
		}
	default:
		res.InfraErr("mode %q", mode)
	}
	_ = proto.Equal
}

func cellKind(s string) string {
	if i := strings.LastIndex(s, "("); i >= 0 {
		return s[i:]
	}
	return s
}

// diffIgnoringOrder compares two trees treating every list as unordered.
func diffIgnoringOrder(a, b *abs.Tree) []string {
	norm := func(t *abs.Tree) *abs.Tree {
		o := abs.NewTree()
		o.Leaves, o.LL = t.Leaves, t.LL
		for k, v := range t.Ents {
			c := append([]string{}, v...)
			sortStrings(c)
			o.Ents[k] = c
		}
		return o
	}
	return abs.Diff(norm(a), norm(b), false)
}

func sortStrings(s []string) {
	for i := 1; i < len(s); i++ {
		for j := i; j > 0 && s[j] < s[j-1]; j-- {
			s[j], s[j-1] = s[j-1], s[j]
		}
	}
}
