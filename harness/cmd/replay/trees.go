package main

import (
	"bytes"
	"encoding/json"
	"flag"
	"fmt"
	"os"
	"reflect"
	"regexp"
	"sort"
	"strings"
	"sync"

	gpb "github.com/openconfig/gnmi/proto/gnmi"
	"github.com/openconfig/goyang/pkg/yang"
	"github.com/openconfig/ygot/util"
	"github.com/openconfig/ygot/ygot"
	"github.com/openconfig/ygot/ygot/pathtranslate"
	"github.com/openconfig/ygot/ytypes"
	"google.golang.org/protobuf/proto"

	"verif/harness/internal/abs"
	"verif/harness/internal/conc"
	"verif/harness/internal/reg"
	"verif/harness/internal/rep"
)

func init() { subcmds["trees"] = treesCmd }

// TreeLine is one TREE line of TreeLaws.EmitTree.
type TreeLine struct {
	T      conc.ATree `json:"t"`
	Pruned conc.ATree `json:"pruned"`
	Built  conc.ATree `json:"built"`
	Pcf    conc.ATree `json:"pcf"`
	// Q: the wildcard queries of the tree with the data paths each must select (mode query)
	Q []TreeQuery `json:"q,omitempty"`
}

type TreeQuery struct {
	Q []string   `json:"q"`
	M [][]string `json:"m"`
}

// TreesCase is the replayable case.
type TreesCase struct {
	Sub     string    `json:"sub"`
	Line    *TreeLine `json:"line"`
	Pkg     string    `json:"pkg"`
	Variant string    `json:"variant"`
	Seed    int64     `json:"seed"`
	Mode    string    `json:"mode"`
}

func treesCmd(args []string) *rep.Result {
	fs := flag.NewFlagSet("trees", flag.ExitOnError)
	var c common
	c.register(fs)
	modes := fs.String("modes", "c01", "replay modes: c01,c02,c14,c04")
	fs.Parse(args)
	c.allVariants = c.prop == "C01"
	res := rep.New()
	defer func() { res.Write(c.out) }()
	cp, err := conc.Load(c.corpus)
	if err != nil {
		res.InfraErr("corpus: %v", err)
		return res
	}
	if c.caseFile != "" {
		b, err := os.ReadFile(c.caseFile)
		if err != nil {
			res.InfraErr("case: %v", err)
			return res
		}
		var tc TreesCase
		if err := json.Unmarshal(b, &tc); err != nil {
			res.InfraErr("case: %v", err)
			return res
		}
		runTreeLaw(tc.Line, reg.Get(tc.Pkg), &conc.Ctx{C: cp, V: cp.Variants[tc.Variant], Seed: tc.Seed}, tc.Mode, res)
		return res
	}
	lines, err := readLines(c.in, "TREE")
	if err != nil {
		res.InfraErr("trees: %v", err)
		return res
	}
	if len(lines) == 0 {
		res.InfraErr("no trees in %s", c.in)
		return res
	}
	type job struct {
		s    int64 // concretisation seed of the case
		l    *TreeLine
		pkg  *reg.Pkg
		v    string
		mode string
	}
	jobs := make(chan job, 1024)
	var wg sync.WaitGroup
	for i := 0; i < c.workers; i++ {
		wg.Add(1)
		go func() {
			defer wg.Done()
			for j := range jobs {
				safely(res, "trees", &TreesCase{Sub: "trees", Line: j.l, Pkg: j.pkg.Name, Variant: j.v, Seed: j.s, Mode: j.mode}, func() {
					runTreeLaw(j.l, j.pkg, &conc.Ctx{C: cp, V: cp.Variants[j.v], Seed: j.s}, j.mode, res)
				})
			}
		}()
	}
	for i, l := range lines {
		tl := &TreeLine{}
		if err := json.Unmarshal([]byte(l), tl); err != nil {
			res.InfraErr("tree: %v", err)
			break
		}
		res.Distinct++
		for _, pkg := range c.packages() {
			for vi, v := range c.variantsFor(cp, pkg) {
				if c.limit > 0 && (i+vi+int(c.seed))%c.limit != 0 {
					continue
				}
				for _, m := range strings.Split(*modes, ",") {
					jobs <- job{s: c.seed + int64(i%13), l: tl, pkg: pkg, v: v, mode: m}
				}
			}
		}
	}
	close(jobs)
	wg.Wait()
	return res
}

// findBelow finds the data node named name below a choice / case entry.
func findBelow(c *yang.Entry, name string) *yang.Entry {
	if e, ok := c.Dir[name]; ok && e.Kind != yang.ChoiceEntry && e.Kind != yang.CaseEntry {
		return e
	}
	for _, d := range c.Dir {
		if d.Kind == yang.ChoiceEntry || d.Kind == yang.CaseEntry {
			if e := findBelow(d, name); e != nil {
				return e
			}
		}
	}
	return nil
}

// abstractQuery renders a query path for drift notes (abstract, so that notes de-duplicate).
func abstractQuery(q []string) string { return "/" + strings.Join(q, "/") }

// typesIn lists the corpus types of the leaves present in the abstract tree (for signatures).
func typesIn(a *conc.ATree, x *conc.Ctx) []string {
	set := map[string]bool{}
	for _, rs := range [][]json.RawMessage{a.Lv, a.Ll} {
		for _, r := range rs {
			var raw []json.RawMessage
			var p []string
			if json.Unmarshal(r, &raw) == nil && len(raw) == 2 && json.Unmarshal(raw[0], &p) == nil {
				if steps, err := x.Resolve(p); err == nil && len(steps) > 0 {
					set[x.TypeAt(steps[len(steps)-1].Pos)] = true
				}
			}
		}
	}
	var out []string
	for t := range set {
		out = append(out, t)
	}
	sort.Strings(out)
	return out
}

// observable drops what C01/C02 do not observe: non-presence containers and empty leaf-lists.
func observable(t *abs.Tree, x *conc.Ctx, keepPresence bool) *abs.Tree {
	o := abs.NewTree()
	for k, v := range t.Leaves {
		o.Leaves[k] = v
	}
	for k, v := range t.LL {
		if len(v) > 0 {
			o.LL[k] = v
		}
	}
	for k, v := range t.Ents {
		if len(v) > 0 {
			o.Ents[k] = v
		}
	}
	for k, v := range t.Ordered {
		o.Ordered[k] = v
	}
	if keepPresence {
		for c := range t.Conts {
			p := abs.Path(strings.Split(c, abs.Sep))
			if len(p) > len(x.V.Prefix()) && x.IsPresence(x.PosOf(p)) {
				o.Conts[c] = true
			}
		}
	}
	return o
}

var decimalLex = regexp.MustCompile(`^[-+]?[0-9]+(\.[0-9]+)?$`)

// diffJSON compares a decoded real document with the reference document. Strings that the
// reference marks as decimal64 are compared by lexical class and numeric value.
func diffJSON(got, want interface{}, path string, out *[]string) {
	switch w := want.(type) {
	case map[string]interface{}:
		g, ok := got.(map[string]interface{})
		if !ok {
			*out = append(*out, fmt.Sprintf("%s: got %T, want object", path, got))
			return
		}
		for k, wv := range w {
			gv, ok := g[k]
			if !ok {
				*out = append(*out, fmt.Sprintf("%s: member %q missing", path, k))
				continue
			}
			diffJSON(gv, wv, path+"/"+k, out)
		}
		for k := range g {
			if _, ok := w[k]; !ok {
				*out = append(*out, fmt.Sprintf("%s: unexpected member %q", path, k))
			}
		}
	case []interface{}:
		g, ok := got.([]interface{})
		if !ok || len(g) != len(w) {
			*out = append(*out, fmt.Sprintf("%s: got %v, want array %v", path, got, want))
			return
		}
		for i := range w {
			diffJSON(g[i], w[i], fmt.Sprintf("%s[%d]", path, i), out)
		}
	case conc.Unordered:
		g, ok := got.([]interface{})
		if !ok || len(g) != len(w) {
			*out = append(*out, fmt.Sprintf("%s: got %v, want array of %d entries", path, got, len(w)))
			return
		}
		// match entries irrespective of order: greedy on the first exact match
		used := make([]bool, len(g))
		for i, we := range w {
			found := -1
			for j, ge := range g {
				if used[j] {
					continue
				}
				var d []string
				diffJSON(ge, we, "", &d)
				if len(d) == 0 {
					found = j
					break
				}
			}
			if found < 0 {
				*out = append(*out, fmt.Sprintf("%s: no entry rendered like reference entry %d: %v (got %v)", path, i, we, got))
				return
			}
			used[found] = true
		}
	case conc.Decimal:
		g, ok := got.(string)
		if !ok {
			*out = append(*out, fmt.Sprintf("%s: decimal64 rendered as %T %v, want a string", path, got, got))
			return
		}
		if !decimalLex.MatchString(g) {
			*out = append(*out, fmt.Sprintf("%s: decimal64 rendered as %q, not the RFC 7950 lexical form (want e.g. %q)", path, g, string(w)))
			return
		}
		if !conc.SameDecimal(g, string(w)) {
			*out = append(*out, fmt.Sprintf("%s: decimal64 %q != %q", path, g, string(w)))
		}
	default:
		if !reflect.DeepEqual(got, want) {
			*out = append(*out, fmt.Sprintf("%s: got %T %v, want %T %v", path, got, got, want, want))
		}
	}
}

func decodeJSON(b []byte) (interface{}, error) {
	d := json.NewDecoder(bytes.NewReader(b))
	d.UseNumber()
	var v interface{}
	err := d.Decode(&v)
	return v, err
}

func runTreeLaw(l *TreeLine, pkg *reg.Pkg, x *conc.Ctx, mode string, res *rep.Result) {
	tc := &TreesCase{Sub: "trees", Line: l, Pkg: pkg.Name, Variant: x.V.Name, Seed: x.Seed, Mode: mode}
	t, err := x.Tree(&l.T)
	if err != nil {
		if _, ok := err.(conc.ErrNoValue); ok {
			res.Skip(1)
			return
		}
		res.InfraErr("concretise: %v", err)
		return
	}
	root := pkg.NewRoot()
	if err := abs.Build(t, root, pkg); err != nil {
		res.InfraErr("build: %v", err)
		return
	}
	orig := conc.Restrict(t, x.V)
	if back := conc.Restrict(abs.Project(root, pkg), x.V); !abs.Equal(back, orig, true) {
		res.InfraErr("binding self-test failed %s/%s: %v", pkg.Name, x.V.Name, abs.Diff(back, orig, true))
		return
	}
	sig := func(prop, conjunct string) map[string]string {
		s := map[string]string{"conjunct": conjunct, "mode": mode}
		if len(l.T.Oe) > 0 {
			s["ordered"] = "true"
		}
		for _, r := range l.T.Ll {
			if strings.HasSuffix(string(r), ",[]]") {
				s["empty_leaflist"] = "true"
			}
		}
		if !pkg.SimpleUnion && touchesUnionKeyedList(&ReqEdge{Pre: l.T}, x) {
			s["wrapper_union_key"] = "true"
		}
		if pkg.Compressed {
			s["compressed"] = "true"
		}
		if !pkg.SimpleUnion && x.V.HasType("u-bu") {
			for _, t := range typesIn(&l.T, x) {
				if t == "u-bu" {
					s["wrapper_union_binary"] = "true"
				}
			}
		}
		s["shape"] = x.V.Shape
		if !pkg.SimpleUnion {
			for _, t := range typesIn(&l.T, x) {
				if strings.HasPrefix(t, "u-") {
					s["wrapper_union"] = "true"
				}
			}
		}
		if len(l.T.Oe) > 0 && strings.HasPrefix(x.TypeAt("ol/k"), "u-") {
			s["union_key_ordered"] = "true"
		}
		return s
	}
	res.Eval(1)
	res.Count("mode_"+mode, 1)
	unchanged := func(prop, api string) {
		if after := conc.Restrict(abs.Project(root, pkg), x.V); !abs.Equal(after, orig, true) {
			res.Violate("C11", sig("C11", api+"-mutates-input"), api+" changed its input tree: "+strings.Join(abs.Diff(after, orig, true), "; "), tc)
		}
	}
	switch mode {
	case "c01":
		for _, prefix := range []bool{false, true} {
			cfg := &ygot.RFC7951JSONConfig{AppendModuleName: prefix}
			cfgBefore := *cfg
			var out []byte
			cerr, pan := guard(func() error {
				var err error
				out, err = ygot.Marshal7951(root, cfg)
				return err
			})
			if pan != "" {
				res.Violate("C20", sig("C20", "panic"), "panic in Marshal7951: "+firstLine(pan), tc)
				return
			}
			if !reflect.DeepEqual(cfgBefore, *cfg) {
				res.Violate("C11", sig("C11", "config-mutated"), "Marshal7951 modified its RFC7951JSONConfig", tc)
			}
			unchanged("C11", "Marshal7951")
			if cerr != nil {
				res.Violate("C01", sig("C01", "render-error"), fmt.Sprintf("Marshal7951 failed on a schema-conforming tree: %v; tree %v", cerr, orig.Lines()), tc)
				return
			}
			if res.Evaluated%211 == 0 {
				res.Sample(map[string]interface{}{"pkg": pkg.Name, "variant": x.V.Name, "mode": mode, "tree": orig.Lines(), "json": string(out)})
			}
			// C19: token-level comparison with the reference encoder
			gotDoc, derr := decodeJSON(out)
			if derr != nil {
				res.Violate("C19", sig("C19", "not-json"), "Marshal7951 output is not JSON: "+derr.Error(), tc)
				return
			}
			want := x.RenderJSON(t, nil, pkg, conc.JSONOpts{ModulePrefix: prefix, IdentityPrefix: prefix, MarkDecimals: true})
			var d []string
			diffJSON(gotDoc, want, "", &d)
			if len(d) > 0 {
				s := sig("C19", "encoding")
				s["prefix"] = fmt.Sprint(prefix)
				s["class"] = classOf(d[0])
				s["types"] = strings.Join(typesIn(&l.T, x), ",")
				res.Violate("C19", s, fmt.Sprintf("RFC 7951 encoding differs from the reference (AppendModuleName=%v): %s; output %s", prefix, strings.Join(d, "; "), out), tc)
			}
			// EmitJSON must produce the same document
			var es string
			eerr, pan := guard(func() error {
				var err error
				es, err = ygot.EmitJSON(root, &ygot.EmitJSONConfig{Format: ygot.RFC7951, RFC7951Config: cfg, SkipValidation: true, Indent: ""})
				return err
			})
			if pan != "" {
				res.Violate("C20", sig("C20", "panic"), "panic in EmitJSON: "+firstLine(pan), tc)
				return
			}
			if eerr == nil {
				if ed, err := decodeJSON([]byte(es)); err != nil || !reflect.DeepEqual(ed, gotDoc) {
					res.Violate("C19", sig("C19", "emitjson-differs"), "EmitJSON and Marshal7951 render different documents: "+es+" vs "+string(out), tc)
				}
			}
			// C01: unmarshal into an empty root
			nr := pkg.NewRoot()
			uerr, pan := guard(func() error { return pkg.Unmarshal(out, nr) })
			if pan != "" {
				res.Violate("C20", sig("C20", "panic"), "panic in Unmarshal of ygot's own output: "+firstLine(pan)+" doc "+string(out), tc)
				return
			}
			if uerr != nil {
				s := sig("C01", "unmarshal-rejects")
				s["prefix"] = fmt.Sprint(prefix)
				res.Violate("C01", s, fmt.Sprintf("Unmarshal rejected ygot's own RFC7951 output %s: %v", out, uerr), tc)
				continue
			}
			got := observable(conc.Restrict(abs.Project(nr, pkg), x.V), x, true)
			want2 := observable(orig, x, true)
			if dd := abs.Diff(got, want2, true); len(dd) > 0 {
				s := sig("C01", "roundtrip")
				s["prefix"] = fmt.Sprint(prefix)
				res.Violate("C01", s, fmt.Sprintf("JSON round trip lost or changed data: %s; document %s", strings.Join(dd, "; "), out), tc)
				continue
			}
			var out2 []byte
			rerr, _ := guard(func() error {
				var err error
				out2, err = ygot.Marshal7951(nr, cfg)
				return err
			})
			if rerr != nil || !bytes.Equal(out, out2) {
				s := sig("C01", "rerender")
				res.Violate("C01", s, fmt.Sprintf("re-rendering the unmarshalled tree is not byte-identical: %s vs %s (err %v)", out, out2, rerr), tc)
			}
		}
	case "c02":
		st, err := schemaTree(pkg)
		if err != nil {
			res.InfraErr("schema: %v", err)
			return
		}
		var ns []*gpb.Notification
		cerr, pan := guard(func() error {
			var err error
			ns, err = ygot.TogNMINotifications(root, 42, ygot.GNMINotificationsConfig{UsePathElem: true})
			return err
		})
		if pan != "" {
			res.Violate("C20", sig("C20", "panic"), "panic in TogNMINotifications: "+firstLine(pan), tc)
			return
		}
		unchanged("C11", "TogNMINotifications")
		if cerr != nil {
			res.Violate("C02", sig("C02", "render-error"), fmt.Sprintf("TogNMINotifications failed on a schema-conforming tree: %v; tree %v", cerr, orig.Lines()), tc)
			return
		}
		// second producer: rendering the variant container with its path as prefix
		sub, subPrefix := subStruct(root, x)
		if sub != nil {
			var ns2 []*gpb.Notification
			cerr2, pan2 := guard(func() error {
				var err error
				ns2, err = ygot.TogNMINotifications(sub, 42, ygot.GNMINotificationsConfig{UsePathElem: true, PathElemPrefix: subPrefix})
				return err
			})
			if pan2 != "" {
				res.Violate("C20", sig("C20", "panic"), "panic in TogNMINotifications with prefix: "+firstLine(pan2), tc)
				return
			}
			if cerr2 == nil && x.Seed%2 == 0 {
				ns = ns2 // alternate between the two producers by seed
			}
		}
		if res.Evaluated%211 == 0 {
			res.Sample(map[string]interface{}{"pkg": pkg.Name, "variant": x.V.Name, "mode": mode, "tree": orig.Lines(), "notifications": fmt.Sprint(ns)})
		}
		nr := pkg.NewRoot()
		sch := &ytypes.Schema{Root: nr, SchemaTree: st}
		var before []proto.Message
		for _, n := range ns {
			before = append(before, proto.Clone(n))
		}
		uerr, pan := guard(func() error { return ytypes.UnmarshalNotifications(sch, ns) })
		if pan != "" {
			res.Violate("C20", sig("C20", "panic"), "panic in UnmarshalNotifications: "+firstLine(pan), tc)
			return
		}
		for i, n := range ns {
			if !proto.Equal(before[i], n) {
				res.Violate("C11", sig("C11", "notification-mutated"), "UnmarshalNotifications modified its input notification", tc)
				break
			}
		}
		if uerr != nil {
			res.Violate("C02", sig("C02", "rejected"), fmt.Sprintf("UnmarshalNotifications rejected ygot's own notifications: %v; notifications %v", uerr, ns), tc)
			return
		}
		got := observable(conc.Restrict(abs.Project(nr, pkg), x.V), x, false)
		want := observable(orig, x, false)
		if dd := abs.Diff(got, want, false); len(dd) > 0 {
			res.Violate("C02", sig("C02", "roundtrip"), fmt.Sprintf("notification round trip lost or changed data: %s; notifications %v", strings.Join(dd, "; "), ns), tc)
		}
	case "c14":
		if sig("C14", "")["empty_leaflist"] == "true" {
			// an empty (non-nil) leaf-list holds no data: whether it keeps its container alive
			// is not fixed by the property
			res.Count("unspecified_empty_leaflist", 1)
			return
		}
		exp, err := x.Tree(&l.Pruned)
		if err != nil {
			res.Skip(1)
			return
		}
		exp = conc.Restrict(exp, x.V)
		_, pan := guard(func() error { ygot.PruneEmptyBranches(root); return nil })
		if pan != "" {
			res.Violate("C14", sig("C14", "panic"), "PruneEmptyBranches panicked: "+firstLine(pan)+"; tree "+strings.Join(orig.Lines(), "; "), tc)
			return
		}
		got := conc.Restrict(abs.Project(root, pkg), x.V)
		if res.Evaluated%211 == 0 {
			res.Sample(map[string]interface{}{"pkg": pkg.Name, "variant": x.V.Name, "mode": mode, "tree": orig.Lines(), "pruned": got.Lines()})
		}
		if dd := abs.Diff(got, exp, false); len(dd) > 0 {
			res.Violate("C14", sig("C14", "data-lost"), "PruneEmptyBranches changed leaves or entries: "+strings.Join(dd, "; "), tc)
			return
		}
		if dd := abs.Diff(got, exp, true); len(dd) > 0 {
			res.Violate("C14", sig("C14", "containers"), "after PruneEmptyBranches the containers differ from the model: "+strings.Join(dd, "; ")+"; input "+strings.Join(orig.Lines(), "; "), tc)
			return
		}
		_, pan = guard(func() error { ygot.PruneEmptyBranches(root); return nil })
		if pan != "" {
			res.Violate("C14", sig("C14", "panic"), "second PruneEmptyBranches panicked: "+firstLine(pan), tc)
			return
		}
		if again := conc.Restrict(abs.Project(root, pkg), x.V); !abs.Equal(again, got, true) {
			res.Violate("C14", sig("C14", "idempotent"), "a second PruneEmptyBranches changed the tree: "+strings.Join(abs.Diff(again, got, true), "; "), tc)
		}
		// BuildEmptyTree then PruneEmptyBranches gives back the original leaf set
		r2 := pkg.NewRoot()
		abs.Build(t, r2, pkg)
		_, pan = guard(func() error { ygot.BuildEmptyTree(r2); ygot.PruneEmptyBranches(r2); return nil })
		if pan != "" {
			res.Violate("C14", sig("C14", "panic"), "BuildEmptyTree+PruneEmptyBranches panicked: "+firstLine(pan), tc)
			return
		}
		if b := conc.Restrict(abs.Project(r2, pkg), x.V); len(abs.Diff(b, orig, false)) > 0 {
			res.Violate("C14", sig("C14", "build-prune"), "BuildEmptyTree+PruneEmptyBranches changed the leaf set: "+strings.Join(abs.Diff(b, orig, false), "; "), tc)
		}
	case "c11":
		runC11(root, orig, pkg, x, res, tc, sig)
	case "ptrans":
		// Extension: pathtranslate.PathTranslator turns a path given as names interleaved with key
		// values (in the order of the list's key statement) back into the structured path.
		tree, err := pkg.Unzip()
		if err != nil {
			res.InfraErr("unzip: %v", err)
			return
		}
		var entries []*yang.Entry
		for _, e := range tree {
			entries = append(entries, e)
		}
		pt, err := pathtranslate.NewPathTranslator(entries)
		if err != nil {
			res.DriftNote("EXT ptrans: NewPathTranslator fails on the generated schema tree: " + firstLine(err.Error()))
			return
		}
		sch, err := rootSchema(pkg)
		if err != nil {
			res.InfraErr("schema: %v", err)
			return
		}
		ns, err := ygot.TogNMINotifications(root, 1, ygot.GNMINotificationsConfig{UsePathElem: true})
		if err != nil {
			return
		}
		for _, n := range ns {
			for _, u := range n.Update {
				full := append(append([]*gpb.PathElem{}, n.GetPrefix().GetElem()...), u.Path.GetElem()...)
				// flatten with the key order of the schema
				var flat []string
				cur := sch
				ok := true
				for _, e := range full {
					nxt := cur.Dir[e.Name]
					for nxt == nil && ok {
						// choice / case nodes are not part of data paths
						found := false
						for _, c := range cur.Dir {
							if (c.Kind == yang.ChoiceEntry || c.Kind == yang.CaseEntry) && findBelow(c, e.Name) != nil {
								nxt = findBelow(c, e.Name)
								found = true
							}
						}
						if !found {
							ok = false
						}
					}
					if !ok {
						break
					}
					flat = append(flat, e.Name)
					for _, k := range strings.Fields(nxt.Key) {
						flat = append(flat, e.Key[k])
					}
					cur = nxt
				}
				if !ok {
					res.Skip(1)
					continue
				}
				got, err := pt.PathElem(flat)
				res.Count("ptrans_paths", 1)
				if err != nil || !proto.Equal(&gpb.Path{Elem: got}, &gpb.Path{Elem: full}) {
					res.Count("ptrans_disagree", 1)
					res.DriftNote(fmt.Sprintf("EXT ptrans: PathElem(%d names and keys) of a %d-element path gives err=%v / a different path (%s)", len(flat), len(full), err != nil, map[bool]string{true: "compressed", false: "uncompressed"}[pkg.Compressed]))
				}
			}
		}
	case "query":
		// Extension beyond the listed properties: GetNode with wildcard keys selects exactly
		// Match(t, q).  Disagreements are reported as EXT drift notes, never as violations.
		sch, err := rootSchema(pkg)
		if err != nil {
			res.InfraErr("schema: %v", err)
			return
		}
		for _, q := range l.Q {
			gp, err := x.GNMIPath(q.Q, pkg)
			if err != nil {
				res.Skip(1)
				continue
			}
			// a concrete key whose value is literally "*" cannot be told from a wildcard: unspecified
			literalStar := false
			if steps, err := x.Resolve(q.Q); err == nil {
				for _, st := range steps {
					for j, k := range st.Keys {
						wild := false
						for _, w := range st.Wild {
							wild = wild || w == j
						}
						if !wild && conc.KeyString(k) == "*" {
							literalStar = true
						}
					}
				}
			}
			if literalStar {
				res.Skip(1)
				continue
			}
			want := map[string]bool{}
			ok := true
			for _, m := range q.M {
				mp, err := x.GNMIPath(m, pkg)
				if err != nil {
					ok = false
					break
				}
				want[pathString(mp)] = true
			}
			if !ok {
				res.Skip(1)
				continue
			}
			var nodes []*ytypes.TreeNode
			gerr, pan := guard(func() error {
				var err error
				nodes, err = ytypes.GetNode(sch, root, gp, &ytypes.GetHandleWildcards{})
				return err
			})
			res.Count("queries", 1)
			if pan != "" {
				res.Violate("C20", sig("C20", "panic"), "panic in GetNode(wildcards) "+pathString(gp)+": "+firstLine(pan), tc)
				continue
			}
			got := map[string]bool{}
			for _, n := range nodes {
				// a node without data (an unset leaf of a matching entry) selects nothing
				if n.Data == nil || util.IsValueNil(n.Data) {
					continue
				}
				if e, ok := n.Data.(ygot.GoEnum); ok && reflect.ValueOf(e).Int() == 0 {
					continue // an enumeration at UNSET
				}
				if rv := reflect.ValueOf(n.Data); rv.Kind() == reflect.Bool && rv.Type().Name() == "YANGEmpty" && !rv.Bool() {
					continue // an unset leaf of type empty
				}
				got[pathString(n.Path)] = true
			}
			if gerr != nil && len(want) == 0 {
				res.Count("queries_empty_error", 1) // nothing selected: NotFound is the documented answer
				continue
			}
			if gerr != nil || !reflect.DeepEqual(got, want) {
				kind := "leaf"
				if len(q.Q) > 0 && strings.Contains(q.Q[len(q.Q)-1], "*") {
					kind = "entry"
				}
				res.DriftNote(fmt.Sprintf("EXT query: GetNode(%s, wildcards) in %s selects %d of the %d expected nodes (error: %v) [%s target]", abstractQuery(q.Q), map[bool]string{true: "compressed", false: "uncompressed"}[pkg.Compressed], len(got), len(want), gerr != nil, kind))
				res.Sample(map[string]interface{}{"query": pathString(gp), "got": keysOf(got), "want": keysOf(want), "err": fmt.Sprint(gerr), "variant": x.V.Name})
				res.Count("queries_disagree", 1)
			} else {
				res.Count("queries_agree", 1)
			}
		}
		if after := conc.Restrict(abs.Project(root, pkg), x.V); !abs.Equal(after, orig, true) {
			res.Violate("C11", sig("C11", "getnode-wildcards-mutates"), "GetNode with wildcards changed the tree: "+strings.Join(abs.Diff(after, orig, true), "; "), tc)
		}
	case "c32":
		// the plain shape also carries the unkeyed state list st/ul (derived state as well)
		if len(l.T.Ct) > 0 || len(l.T.Lv) > 0 {
			for _, ct := range l.T.Ct {
				if len(ct) == 1 && ct[0] == "st" {
					augmentUnkeyed(root, pkg, x)
				}
			}
		}
		sch, err := rootSchema(pkg)
		if err != nil {
			res.InfraErr("schema: %v", err)
			return
		}
		perr, pan := guard(func() error { return ygot.PruneConfigFalse(sch, root) })
		if pan != "" {
			res.Violate("C20", sig("C20", "panic"), "panic in PruneConfigFalse: "+firstLine(pan), tc)
			return
		}
		if perr != nil {
			res.Violate("C32", sig("C32", "error"), fmt.Sprintf("PruneConfigFalse failed: %v", perr), tc)
			return
		}
		want, err := x.Tree(&l.Pcf)
		if err != nil {
			res.Skip(1)
			return
		}
		want = conc.Restrict(want, x.V)
		got := conc.Restrict(abs.Project(root, pkg), x.V)
		if d := abs.Diff(observable(got, x, false), observable(want, x, false), false); len(d) > 0 {
			s := sig("C32", "config-false")
			for _, dl := range d {
				if strings.HasPrefix(dl, "unexpected") {
					s["conjunct"] = "derived-state-remains"
				} else if s["conjunct"] == "config-false" {
					s["conjunct"] = "config-value-lost"
				}
			}
			res.Violate("C32", s, fmt.Sprintf("after PruneConfigFalse: %s (tree before: %v)", strings.Join(d, "; "), orig.LeafLines()), tc)
			return
		}
		if d := abs.Diff(got, want, true); len(d) > 0 {
			res.DriftNote("containers after PruneConfigFalse differ from the model: " + strings.Join(d, "; "))
		}
	case "c04":
		// every tree also carries an unkeyed list (config false st/ul) with two elements and,
		// in the variants that have one, the binary / union leaf-list values of the slice
		if n := augmentUnkeyed(root, pkg, x); n > 0 {
			orig = conc.Restrict(abs.Project(root, pkg), x.V)
			res.Count("augmented_unkeyed", 1)
		}
		var cpy ygot.GoStruct
		cerr, pan := guard(func() error {
			var err error
			cpy, err = ygot.DeepCopy(root)
			return err
		})
		if pan != "" {
			res.Violate("C20", sig("C20", "panic"), "panic in DeepCopy: "+firstLine(pan), tc)
			return
		}
		unchanged("C11", "DeepCopy")
		if cerr != nil {
			res.Violate("C04", sig("C04", "copy-error"), fmt.Sprintf("DeepCopy failed: %v", cerr), tc)
			return
		}
		ct := conc.Restrict(abs.Project(cpy, pkg), x.V)
		dropEmptyLL := func(t *abs.Tree) *abs.Tree {
			o := *t
			o.LL = map[string][]string{}
			for k, v := range t.LL {
				if len(v) > 0 {
					o.LL[k] = v
				}
			}
			return &o
		}
		// an empty non-nil leaf-list holds no data; the copy may drop it
		if dd := abs.Diff(dropEmptyLL(ct), dropEmptyLL(orig), true); len(dd) > 0 {
			res.Violate("C04", sig("C04", "copy-differs"), "DeepCopy result differs from its input: "+strings.Join(dd, "; "), tc)
			return
		}
		if sh := abs.SharedCells(root, cpy); len(sh) > 0 {
			s := sig("C04", "shared-cell")
			s["cell"] = sh[0]
			res.Violate("C04", s, "DeepCopy result shares mutable memory with its input: "+strings.Join(sh, ", "), tc)
			return
		}
		// mutate everything reachable from the copy; the original must not change
		abs.Scramble(cpy)
		if after := conc.Restrict(abs.Project(root, pkg), x.V); !abs.Equal(after, orig, true) {
			res.Violate("C04", sig("C04", "mutation-visible"), "mutating the copy changed the original: "+strings.Join(abs.Diff(after, orig, true), "; "), tc)
			return
		}
		cpy2, _ := ygot.DeepCopy(root)
		abs.Scramble(root)
		if after := conc.Restrict(abs.Project(cpy2, pkg), x.V); !abs.Equal(dropEmptyLL(after), dropEmptyLL(orig), true) {
			res.Violate("C04", sig("C04", "mutation-visible"), "mutating the original changed the copy: "+strings.Join(abs.Diff(after, orig, true), "; "), tc)
		}
		if res.Evaluated%211 == 0 {
			res.Sample(map[string]interface{}{"pkg": pkg.Name, "variant": x.V.Name, "mode": mode, "tree": orig.Lines()})
		}
	default:
		res.InfraErr("mode %q", mode)
	}
}

func classOf(d string) string {
	switch {
	case strings.Contains(d, "decimal64"):
		return "decimal64"
	case strings.Contains(d, "member"):
		return "member-name"
	}
	return "value"
}

// subStruct returns the variant container struct and its path as prefix.
func subStruct(root ygot.GoStruct, x *conc.Ctx) (ygot.GoStruct, []*gpb.PathElem) {
	v := reflect.ValueOf(root)
	var pre []*gpb.PathElem
	for _, n := range x.V.Prefix() {
		f, ok := abs.FieldByStep(v.Elem(), n)
		if !ok || f.Kind() != reflect.Ptr || f.IsNil() {
			return nil, nil
		}
		v = f
		pre = append(pre, &gpb.PathElem{Name: n})
	}
	gs, ok := v.Interface().(ygot.GoStruct)
	if !ok {
		return nil, nil
	}
	return gs, pre
}

// augmentUnkeyed adds two elements to the unkeyed list st/ul of the variant (uncompressed
// shape only; the compressed packages have no such list) and returns how many it added.
func augmentUnkeyed(root ygot.GoStruct, pkg *reg.Pkg, x *conc.Ctx) int {
	if x.V.Shape != "T" {
		return 0
	}
	n := 0
	for i, atom := range []string{"v1", "v2"} {
		val, err := x.Value("st/ul/u", atom)
		if err != nil {
			continue
		}
		p := append(abs.Path(append([]string{}, x.V.Prefix()...)), "st", "ul", fmt.Sprintf("=#%d", n), "u")
		if err := abs.SetLeaf(reflect.ValueOf(root), p, val, pkg); err != nil {
			continue
		}
		_ = i
		n++
	}
	return n
}

// runC11 calls the read-only and encoding APIs with every kind of option value and checks that
// neither the tree nor any option / payload object passed in is modified (C11).
func runC11(root ygot.GoStruct, orig *abs.Tree, pkg *reg.Pkg, x *conc.Ctx, res *rep.Result, tc *TreesCase, sig func(string, string) map[string]string) {
	same := func(api string) {
		if after := conc.Restrict(abs.Project(root, pkg), x.V); !abs.Equal(after, orig, true) {
			res.Violate("C11", sig("C11", api+"-mutates-input"), api+" changed its input tree: "+strings.Join(abs.Diff(after, orig, true), "; "), tc)
		}
	}
	opt := func(api string, before, after interface{}) {
		if !reflect.DeepEqual(before, after) {
			res.Violate("C11", sig("C11", api+"-mutates-option"), fmt.Sprintf("%s modified an option value: before %+v after %+v", api, before, after), tc)
		}
	}
	call := func(api string, f func() error) {
		if _, pan := guard(f); pan != "" {
			res.Violate("C20", sig("C20", "panic"), "panic in "+api+": "+firstLine(pan), tc)
		}
	}
	for _, prefix := range []bool{false, true} {
		mk := func() *ygot.RFC7951JSONConfig {
			return &ygot.RFC7951JSONConfig{AppendModuleName: prefix, PrependModuleNameIdentityref: prefix, PreferShadowPath: prefix,
				RewriteModuleNames: map[string]string{x.V.Module: "renamed-" + x.V.Module}}
		}
		cfg, ref := mk(), mk()
		call("EmitJSON", func() error {
			ej := &ygot.EmitJSONConfig{Format: ygot.RFC7951, RFC7951Config: cfg, Indent: "  ", SkipValidation: true,
				ValidationOpts: []ygot.ValidationOption{&ytypes.LeafrefOptions{IgnoreMissingData: true}}}
			ejRef := *ej
			_, err := ygot.EmitJSON(root, ej)
			if ej.Format != ejRef.Format || ej.RFC7951Config != ejRef.RFC7951Config || ej.Indent != ejRef.Indent || ej.SkipValidation != ejRef.SkipValidation || len(ej.ValidationOpts) != 1 {
				res.Violate("C11", sig("C11", "EmitJSON-mutates-option"), "EmitJSON modified its EmitJSONConfig", tc)
			}
			return err
		})
		opt("EmitJSON", ref, cfg)
		same("EmitJSON")
		call("ConstructIETFJSON", func() error { _, err := ygot.ConstructIETFJSON(root, cfg); return err })
		opt("ConstructIETFJSON", ref, cfg)
		same("ConstructIETFJSON")
		call("ConstructInternalJSON", func() error { _, err := ygot.ConstructInternalJSON(root); return err })
		same("ConstructInternalJSON")
		// EncodeTypedValue of the variant's struct, as JSON_IETF with a configuration
		if sub, _ := subStruct(root, x); sub != nil {
			call("EncodeTypedValue", func() error { _, err := ygot.EncodeTypedValue(sub, gpb.Encoding_JSON_IETF, cfg); return err })
			opt("EncodeTypedValue", ref, cfg)
			same("EncodeTypedValue")
		}
	}
	// notifications with both prefix forms
	ss := []string{"pre", "fix"}
	nc := ygot.GNMINotificationsConfig{UsePathElem: false, StringSlicePrefix: ss}
	call("TogNMINotifications", func() error { _, err := ygot.TogNMINotifications(root, 7, nc); return err })
	opt("TogNMINotifications", []string{"pre", "fix"}, ss)
	pe := []*gpb.PathElem{{Name: "pre", Key: map[string]string{"k": "v"}}}
	peRef := []*gpb.PathElem{{Name: "pre", Key: map[string]string{"k": "v"}}}
	call("TogNMINotifications", func() error {
		_, err := ygot.TogNMINotifications(root, 7, ygot.GNMINotificationsConfig{UsePathElem: true, PathElemPrefix: pe})
		return err
	})
	if len(pe) != 1 || !proto.Equal(pe[0], peRef[0]) {
		res.Violate("C11", sig("C11", "TogNMINotifications-mutates-option"), "TogNMINotifications modified its PathElemPrefix", tc)
	}
	same("TogNMINotifications")
	// Diff against an empty root, with and without options
	other := pkg.NewRoot()
	dpo := &ygot.DiffPathOpt{MapToSinglePath: true, PreferShadowPath: true}
	call("Diff", func() error { _, err := ygot.Diff(root, other, dpo, &ygot.IgnoreAdditions{}); return err })
	opt("Diff", &ygot.DiffPathOpt{MapToSinglePath: true, PreferShadowPath: true}, dpo)
	call("DiffWithAtomic", func() error { _, err := ygot.DiffWithAtomic(other, root, dpo); return err })
	same("Diff")
	if after := abs.Project(other, pkg); len(after.Lines()) != 0 {
		res.Violate("C11", sig("C11", "Diff-mutates-input"), "Diff changed its (empty) second argument: "+strings.Join(after.Lines(), "; "), tc)
	}
	// GetNode at every prefix of every data path of the tree (in the compressed packages these
	// include the surrounding containers that have no field of their own), with and without the
	// keys of the last element, under every option
	if sch, err := rootSchema(pkg); err == nil {
		if ns, err := ygot.TogNMINotifications(root, 1, ygot.GNMINotificationsConfig{UsePathElem: true}); err == nil {
			seen := map[string]bool{}
			var paths []*gpb.Path
			for _, n := range ns {
				for _, u := range n.Update {
					full := append(append([]*gpb.PathElem{}, n.GetPrefix().GetElem()...), u.Path.GetElem()...)
					for i := 1; i <= len(full); i++ {
						pre := &gpb.Path{Elem: full[:i]}
						cands := []*gpb.Path{pre}
						if len(pre.Elem[i-1].Key) > 0 {
							nk := proto.Clone(pre).(*gpb.Path)
							nk.Elem[i-1].Key = nil
							cands = append(cands, nk)
						}
						for _, c := range cands {
							if k := pathString(c); !seen[k] {
								seen[k] = true
								paths = append(paths, proto.Clone(c).(*gpb.Path))
							}
						}
					}
				}
			}
			for _, opts := range [][]ytypes.GetNodeOpt{nil, {&ytypes.GetPartialKeyMatch{}}, {&ytypes.GetHandleWildcards{}}, {&ytypes.GetTolerateNil{}}, {&ytypes.PreferShadowPath{}}} {
				for _, gp := range paths {
					ref := proto.Clone(gp)
					call("GetNode", func() error { _, err := ytypes.GetNode(sch, root, gp, opts...); return err })
					if !proto.Equal(ref, gp) {
						res.Violate("C11", sig("C11", "GetNode-mutates-path"), "GetNode modified the path it was given: "+pathString(ref.(*gpb.Path)), tc)
					}
				}
				if after := conc.Restrict(abs.Project(root, pkg), x.V); !abs.Equal(after, orig, true) {
					var ps []string
					for _, gp := range paths {
						ps = append(ps, pathString(gp))
					}
					res.Violate("C11", sig("C11", "GetNode-mutates-input"), fmt.Sprintf("GetNode (options %T) over the prefixes %v changed the tree: %s", opts, ps, strings.Join(abs.Diff(after, orig, true), "; ")), tc)
					return
				}
			}
			res.Count("getnode_prefix_calls", len(paths)*5)
		}
	}
	// Validate with options
	lo := &ytypes.LeafrefOptions{IgnoreMissingData: true, Log: false}
	validate(root, lo)
	opt("Validate", &ytypes.LeafrefOptions{IgnoreMissingData: true, Log: false}, lo)
	same("Validate")
	// MergeStructs with itself-like input and options
	mo := &ygot.MergeOverwriteExistingFields{}
	cpy, _ := ygot.DeepCopy(root)
	call("MergeStructs", func() error { _, err := ygot.MergeStructs(root, cpy, mo, &ygot.MergeEmptyMaps{}); return err })
	same("MergeStructs")
	// Unmarshal of a decoded JSON value: the value is not modified
	if js, err := ygot.Marshal7951(root, &ygot.RFC7951JSONConfig{AppendModuleName: true}); err == nil {
		var v1, v2 interface{}
		json.Unmarshal(js, &v1)
		json.Unmarshal(js, &v2)
		if sch, err := rootSchema(pkg); err == nil {
			for _, opts := range [][]ytypes.UnmarshalOpt{nil, {&ytypes.IgnoreExtraFields{}}, {&ytypes.PreferShadowPath{}}} {
				nr := pkg.NewRoot()
				call("ytypes.Unmarshal", func() error { return ytypes.Unmarshal(sch, nr, v1, opts...) })
				if !reflect.DeepEqual(v1, v2) {
					res.Violate("C11", sig("C11", "Unmarshal-mutates-json"), fmt.Sprintf("ytypes.Unmarshal modified the decoded JSON value it was given: %v -> %v", v2, v1), tc)
					json.Unmarshal(js, &v1)
				}
			}
		}
	}
}
