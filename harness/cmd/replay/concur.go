//go:build verif

package main

import (
	"encoding/json"
	"flag"
	"fmt"
	"math/rand"
	"reflect"
	"runtime"
	"sync"
	"time"

	gpb "github.com/openconfig/gnmi/proto/gnmi"
	"github.com/openconfig/goyang/pkg/yang"
	"github.com/openconfig/ygot/ygot"
	"github.com/openconfig/ygot/ytypes"
	"google.golang.org/protobuf/proto"

	"verif/harness/internal/abs"
	"verif/harness/internal/conc"
	"verif/harness/internal/reg"
	"verif/harness/internal/rep"
)

// C21: (1) replay of the regexp-cache schedules of Conc.tla with the gate hooks of
// ytypes.compilePattern; (2) the readers / writers scenarios with real goroutines (run this
// binary built with -race: a data race makes the process exit with the race detector's code).

func init() { subcmds["concur"] = concurCmd }

type gateCtl struct {
	mu      sync.Mutex
	waiting map[int64]map[string]chan struct{} // goroutine tag -> point -> release channel
	arrived chan [2]interface{}
}

var gctl *gateCtl
var gidOf sync.Map // goroutine-local tag via a pattern-specific key: pattern -> proc

// the gate identifies the calling proc through a goroutine-local value passed in a map keyed by
// the goroutine's own channel: each proc installs its id in procOf before calling.
var procOf sync.Map // *int (address of a stack variable per goroutine) is not available: use a per-proc pattern instead

type schedRun struct {
	procs   []string
	events  [][3]string
	pattern string
}

// runSchedule executes one cache schedule: every proc validates a string against the same
// fresh pattern; the gates make lookups and stores happen in the scheduled order.
func runSchedule(s [][3]string, n int, res *rep.Result, id int) {
	procs := map[string]bool{}
	for _, e := range s {
		procs[e[0]] = true
	}
	pattern := fmt.Sprintf("v%d-%d-[a-z]+", id, n)
	// the flavour each proc uses: RE2 (pattern) or POSIX (posix-pattern); the two have a cache each
	flavour := map[string]string{}
	for _, e := range s {
		flavour[e[0]] = e[2]
	}
	ytOf := func(p string) *yang.YangType {
		if flavour[p] == "posix" {
			return &yang.YangType{Kind: yang.Ystring, POSIXPattern: []string{"^" + pattern + "$"}}
		}
		return &yang.YangType{Kind: yang.Ystring, Pattern: []string{pattern}}
	}
	value := fmt.Sprintf("v%d-%d-abc", id, n)
	type gate struct{ reached, release chan string }
	gates := map[string]*gate{}
	results := map[string]chan error{}
	start := map[string]chan struct{}{}
	var cur sync.Map // goroutine id is not available: the gate finds its proc through this
	for p := range procs {
		gates[p] = &gate{reached: make(chan string, 4), release: make(chan string, 4)}
		results[p] = make(chan error, 1)
		start[p] = make(chan struct{})
	}
	// one gate function for the whole schedule: the proc is recognised by goroutine-local storage
	// emulated with a lock-step protocol: only one proc runs between two scheduler decisions.
	var active string
	var amu sync.Mutex
	ytypes.VerifGate = func(point string) {
		amu.Lock()
		p := active
		amu.Unlock()
		g := gates[p]
		if g == nil {
			return
		}
		g.reached <- point
		<-g.release
	}
	defer func() { ytypes.VerifGate = nil }()
	_ = cur
	for p := range procs {
		p := p
		go func() {
			<-start[p]
			results[p] <- ytypes.ValidateStringRestrictions(ytOf(p), value)
		}()
	}
	// which procs miss according to the model: those with a "lock" event
	missModel := map[string]bool{}
	for _, e := range s {
		if e[1] == "lock" {
			missModel[e[0]] = true
		}
	}
	missReal := map[string]bool{}
	done := map[string]bool{}
	setActive := func(p string) { amu.Lock(); active = p; amu.Unlock() }
	waitPoint := func(p string) string {
		select {
		case pt := <-gates[p].reached:
			return pt
		case err := <-results[p]:
			done[p] = true
			if err != nil {
				res.Violate("C21", map[string]string{"conjunct": "cache-result", "schedule": fmt.Sprint(s)}, fmt.Sprintf("compilePattern schedule %v: proc %s got error %v for a matching value", s, p, err), s)
			}
			return "done"
		case <-time.After(120 * time.Second):
			return "timeout"
		}
	}
	for _, e := range s {
		p, k := e[0], e[1]
		switch k {
		case "rlock":
			setActive(p)
			close(start[p])
			pt := waitPoint(p)
			switch pt {
			case "recache.miss":
				missReal[p] = true
				// let it compile and stop before the store
				gates[p].release <- "go"
				if pt2 := waitPoint(p); pt2 != "recache.store" {
					res.InfraErr("schedule %v: proc %s expected at the store gate, got %s", s, p, pt2)
					return
				}
			case "done":
			default:
				res.InfraErr("schedule %v: proc %s after lookup: %s", s, p, pt)
				return
			}
		case "lock":
			if !missReal[p] {
				continue
			}
			setActive(p)
			gates[p].release <- "go"
			if pt := waitPoint(p); pt != "done" {
				res.InfraErr("schedule %v: proc %s did not finish after its store: %s", s, p, pt)
				return
			}
		}
	}
	for p := range procs {
		if !done[p] {
			if pt := waitPoint(p); pt != "done" {
				res.InfraErr("schedule %v: proc %s never finished (%s)", s, p, pt)
				return
			}
		}
		if missReal[p] != missModel[p] {
			res.Violate("C21", map[string]string{"conjunct": "cache-protocol"}, fmt.Sprintf("schedule %v: proc %s miss=%v in the code, miss=%v in the model", s, p, missReal[p], missModel[p]), s)
		}
	}
	res.Eval(1)
	res.Count("schedules", 1)
}

// cacheStress: goroutines validate strings against fresh patterns of both flavours at the same
// time (cold caches, so lookups and stores of the same map overlap unless the mutexes exclude
// them); run under the race detector, every call must succeed.
func cacheStress(seed int64, rounds int, res *rep.Result) {
	rng := rand.New(rand.NewSource(seed))
	for round := 0; round < rounds*4; round++ {
		runtime.GOMAXPROCS(2 + rng.Intn(15))
		n := 4 + rng.Intn(12)
		var wg sync.WaitGroup
		errs := make([]error, n)
		for i := 0; i < n; i++ {
			wg.Add(1)
			go func(i int) {
				defer wg.Done()
				for k := 0; k < 20; k++ {
					pat := fmt.Sprintf("s%d-%d-%d-[a-z]+", seed, round, k/2) // pairs of goroutines share a fresh pattern
					yt := &yang.YangType{Kind: yang.Ystring, Pattern: []string{pat}}
					if (i+k)%2 == 0 {
						yt = &yang.YangType{Kind: yang.Ystring, POSIXPattern: []string{"^" + pat + "$"}}
					}
					if err := ytypes.ValidateStringRestrictions(yt, fmt.Sprintf("s%d-%d-%d-abc", seed, round, k/2)); err != nil {
						errs[i] = err
					}
				}
			}(i)
		}
		wg.Wait()
		for _, err := range errs {
			if err != nil {
				res.Violate("C21", map[string]string{"conjunct": "cache-result", "scenario": "cache-stress"}, fmt.Sprintf("concurrent validation against a fresh pattern failed: %v", err), nil)
			}
		}
		res.Eval(n)
		res.Count("cache_stress_goroutines", n)
	}
	runtime.GOMAXPROCS(runtime.NumCPU())
}

// stress runs the readers and writers scenarios with real goroutines and compares every result
// with the sequential one.
func stress(pkg *reg.Pkg, cp *conc.Corpus, seed int64, rounds int, res *rep.Result) {
	rng := rand.New(rand.NewSource(seed))
	st, err := schemaTree(pkg)
	if err != nil {
		res.InfraErr("schema: %v", err)
		return
	}
	variants := cp.VariantNames(pkg)
	for round := 0; round < rounds; round++ {
		runtime.GOMAXPROCS(1 + rng.Intn(16))
		vn := variants[rng.Intn(len(variants))]
		x := &conc.Ctx{C: cp, V: cp.Variants[vn], Seed: seed + int64(round)}
		// a populated tree of the variant
		t := abs.NewTree()
		root := pkg.NewRoot()
		add := func(ap []string, atom string) {
			p, err := x.AbsPath(ap)
			if err != nil {
				return
			}
			steps, _ := x.Resolve(ap)
			v, err := x.Value(steps[len(steps)-1].Pos, atom)
			if err != nil {
				return
			}
			t.Leaves[p.String()] = v
		}
		add([]string{"c", "a"}, "v1")
		add([]string{"l", "K1", "k"}, "K1")
		add([]string{"l", "K1", "v"}, "v2")
		add([]string{"l", "K2", "k"}, "K2")
		add([]string{"ol", "K1", "k"}, "K1")
		add([]string{"ol", "K1", "v"}, "v1")
		for p := range t.Leaves {
			parts := abs.Path(splitSep(p))
			for i := 1; i < len(parts); i++ {
				if len(parts[i]) > 0 && parts[i][0] == '=' {
					lp := parts[:i].String()
					found := false
					for _, k := range t.Ents[lp] {
						if k == parts[i] {
							found = true
						}
					}
					if !found {
						t.Ents[lp] = append(t.Ents[lp], parts[i])
					}
				}
			}
		}
		for lp := range t.Ents {
			if x.PosOf(abs.Path(splitSep(lp))) == "ol" {
				t.Ordered[lp] = true
			}
		}
		if err := abs.Build(t, root, pkg); err != nil {
			res.InfraErr("stress build: %v", err)
			return
		}
		sch := st[reflectName(root)]
		other := pkg.NewRoot()
		// sequential results
		type outs struct {
			json   string
			notifs string
			diff   string
			valid  string
			copyEq bool
		}
		cfg := &ygot.RFC7951JSONConfig{AppendModuleName: true}
		run := func() outs {
			var o outs
			js, err := ygot.Marshal7951(root, cfg)
			o.json = string(js) + fmt.Sprint(err)
			ns, err := ygot.TogNMINotifications(root, 1, ygot.GNMINotificationsConfig{UsePathElem: true})
			cnt := 0
			for _, n := range ns {
				cnt += len(n.Update)
			}
			o.notifs = fmt.Sprint(cnt, err)
			d, err := ygot.Diff(other, root)
			if d != nil {
				o.diff = fmt.Sprint(len(d.Update), len(d.Delete), err)
			}
			verr, _ := validate(root)
			o.valid = fmt.Sprint(verr == nil)
			c, _ := ygot.DeepCopy(root)
			o.copyEq = abs.Equal(abs.Project(c, pkg), abs.Project(root, pkg), true)
			gp, _ := x.GNMIPath([]string{"c", "a"}, pkg)
			ytypes.GetNode(sch, root, gp)
			if sub, _ := subStruct(root, x); sub != nil {
				tv, err := ygot.EncodeTypedValue(sub, gpb.Encoding_JSON_IETF, cfg)
				o.diff += fmt.Sprint(len(tv.GetJsonIetfVal()), err)
			}
			return o
		}
		want := run()
		n := 2 + rng.Intn(6)
		got := make([]outs, n)
		var wg sync.WaitGroup
		for i := 0; i < n; i++ {
			wg.Add(1)
			go func(i int) {
				defer wg.Done()
				got[i] = run()
			}(i)
		}
		wg.Wait()
		for i := range got {
			if !reflect.DeepEqual(got[i], want) {
				res.Violate("C21", map[string]string{"conjunct": "reader-result", "scenario": "readers"}, fmt.Sprintf("concurrent read-only operations on %s/%s gave %+v, sequentially %+v", pkg.Name, vn, got[i], want), nil)
			}
		}
		res.Eval(n)
		res.Count("reader_goroutines", n)
		// writers: distinct trees, shared schema and shared input messages
		js, _ := ygot.Marshal7951(root, cfg)
		ns, _ := ygot.TogNMINotifications(root, 1, ygot.GNMINotificationsConfig{UsePathElem: true})
		gp, _ := x.GNMIPath([]string{"c", "a"}, pkg)
		av, _ := x.Value("c/a", "v2")
		tv := conc.TypedValue(av, x.TypeAt("c/a"))
		req := &gpb.SetRequest{}
		for _, nn := range ns {
			for _, u := range nn.Update {
				req.Update = append(req.Update, &gpb.Update{Path: &gpb.Path{Elem: append(append([]*gpb.PathElem{}, nn.GetPrefix().GetElem()...), u.Path.Elem...)}, Val: u.Val})
			}
		}
		// a JSON document addressed to a list entry (SetNode and SetRequest forms)
		var entryPath *gpb.Path
		var entryVal *gpb.TypedValue
		if ep, err := x.GNMIPath([]string{"l", "K1"}, pkg); err == nil {
			if nodes, err := ytypes.GetNode(sch, root, ep); err == nil && len(nodes) == 1 {
				if gs, ok := nodes[0].Data.(ygot.GoStruct); ok {
					if ej, err := ygot.Marshal7951(gs, cfg); err == nil {
						entryPath, entryVal = ep, &gpb.TypedValue{Value: &gpb.TypedValue_JsonIetfVal{JsonIetfVal: ej}}
						req.Update = append(req.Update, &gpb.Update{Path: ep, Val: entryVal})
					}
				}
			}
		}
		if entryPath != nil {
			res.Count("writer_rounds_with_entry_json", 1)
		}
		reqRef := proto.Clone(req)
		write := func() string {
			r1, r2, r3 := pkg.NewRoot(), pkg.NewRoot(), pkg.NewRoot()
			if entryPath != nil {
				r4 := pkg.NewRoot()
				e4 := ytypes.SetNode(st[reflectName(r4)], r4, entryPath, entryVal, &ytypes.InitMissingElements{})
				defer func() { _ = e4 }()
				if e4 != nil {
					res.Count("entry_json_setnode_errors", 1)
					res.DriftNote("SetNode of a list entry's own JSON failed: " + e4.Error())
				}
			}
			e1 := pkg.Unmarshal(js, r1)
			e2 := ytypes.SetNode(st[reflectName(r2)], r2, gp, tv, &ytypes.InitMissingElements{})
			e3 := ytypes.UnmarshalSetRequest(&ytypes.Schema{Root: r3, SchemaTree: st}, req)
			b, _ := json.Marshal([]interface{}{abs.Project(r1, pkg).Lines(), abs.Project(r2, pkg).Lines(), abs.Project(r3, pkg).Lines(), fmt.Sprint(e1, e2, e3)})
			return string(b)
		}
		wantW := write()
		gotW := make([]string, n)
		for i := 0; i < n; i++ {
			wg.Add(1)
			go func(i int) {
				defer wg.Done()
				gotW[i] = write()
			}(i)
		}
		wg.Wait()
		for i := range gotW {
			if gotW[i] != wantW {
				res.Violate("C21", map[string]string{"conjunct": "writer-result", "scenario": "writers"}, fmt.Sprintf("concurrent writers into distinct trees (%s/%s) gave %.300s, sequentially %.300s", pkg.Name, vn, gotW[i], wantW), nil)
			}
		}
		if !proto.Equal(req, reqRef) {
			res.Violate("C21", map[string]string{"conjunct": "shared-message-written", "scenario": "writers"}, "the shared SetRequest was modified by concurrent UnmarshalSetRequest calls", nil)
		}
		res.Eval(n)
		res.Count("writer_goroutines", n)
	}
	runtime.GOMAXPROCS(runtime.NumCPU())
}

func splitSep(s string) []string {
	var out []string
	cur := ""
	for _, r := range s {
		if string(r) == abs.Sep {
			out = append(out, cur)
			cur = ""
			continue
		}
		cur += string(r)
	}
	return append(out, cur)
}

func concurCmd(args []string) *rep.Result {
	fs := flag.NewFlagSet("concur", flag.ExitOnError)
	var c common
	c.register(fs)
	rounds := fs.Int("rounds", 20, "stress rounds per package")
	fs.Parse(args)
	res := rep.New()
	defer func() { res.Write(c.out) }()
	cp, err := conc.Load(c.corpus)
	if err != nil {
		res.InfraErr("corpus: %v", err)
		return res
	}
	if c.in != "" {
		lines, err := readLines(c.in, "SCHED")
		if err != nil || len(lines) == 0 {
			res.InfraErr("no schedules in %s (%v)", c.in, err)
			return res
		}
		for i, l := range lines {
			var s [][3]string
			if err := json.Unmarshal([]byte(l), &s); err != nil {
				res.InfraErr("schedule: %v", err)
				return res
			}
			res.Distinct++
			for rep := 0; rep < 3; rep++ {
				runSchedule(s, rep, res, int(c.seed)*1000+i)
			}
		}
	}
	cacheStress(c.seed, *rounds, res)
	for _, pkg := range c.packages() {
		stress(pkg, cp, c.seed, *rounds, res)
	}
	return res
}
