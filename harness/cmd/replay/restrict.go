package main

import (
	"encoding/json"
	"flag"
	"fmt"
	"math"
	"strings"

	"github.com/openconfig/goyang/pkg/yang"
	"github.com/openconfig/ygot/ytypes"

	"verif/harness/internal/rep"
)

// Replay of the Restrict cases (C06): range / length restrictions over symbolic positions
// concretised per base type, and regular-expression patterns with their bounded languages.

func init() { subcmds["restrict"] = restrictCmd }

type RangeCase struct {
	Sub   string  `json:"sub"`
	Parts [][]int `json:"parts"`
	V     int     `json:"v"`
	OK    bool    `json:"ok"`
	Type  string  `json:"type,omitempty"`
}

type PatCase struct {
	Sub     string   `json:"sub"`
	Pat     string   `json:"pat"`
	Flagged bool     `json:"flagged"`
	Acc     []string `json:"acc"`
	Unspec  []string `json:"unspec"`
	Base    string   `json:"base"`
	Plain   []string `json:"plain"`
}

// positions 1..8 of every ordered base domain
var intPos = map[string][]int64{
	"int8":  {math.MinInt8, math.MinInt8 + 1, -1, 0, 1, 63, math.MaxInt8 - 1, math.MaxInt8},
	"int16": {math.MinInt16, math.MinInt16 + 1, -1, 0, 1, 255, math.MaxInt16 - 1, math.MaxInt16},
	"int32": {math.MinInt32, math.MinInt32 + 1, -1, 0, 1, 65536, math.MaxInt32 - 1, math.MaxInt32},
	"int64": {math.MinInt64, math.MinInt64 + 1, -1, 0, 1, 1 << 53, math.MaxInt64 - 1, math.MaxInt64},
}
var uintPos = map[string][]uint64{
	"uint8":  {0, 1, 2, 127, 128, 129, math.MaxUint8 - 1, math.MaxUint8},
	"uint16": {0, 1, 2, 32767, 32768, 32769, math.MaxUint16 - 1, math.MaxUint16},
	"uint32": {0, 1, 2, math.MaxInt32, math.MaxInt32 + 1, math.MaxInt32 + 2, math.MaxUint32 - 1, math.MaxUint32},
	"uint64": {0, 1, 2, math.MaxInt64, math.MaxInt64 + 1, math.MaxInt64 + 2, math.MaxUint64 - 1, math.MaxUint64},
}
var kinds = map[string]yang.TypeKind{"int8": yang.Yint8, "int16": yang.Yint16, "int32": yang.Yint32, "int64": yang.Yint64,
	"uint8": yang.Yuint8, "uint16": yang.Yuint16, "uint32": yang.Yuint32, "uint64": yang.Yuint64}

// decimal64 with fraction-digits 2
var decPos = []string{"-1000000.01", "-1.25", "-0.01", "0", "0.01", "3.5", "99.99", "1000000.01"}
var decF = []float64{-1000000.01, -1.25, -0.01, 0, 0.01, 3.5, 99.99, 1000000.01}

// lengths
var lenPos = []int{0, 1, 2, 3, 5, 8, 13, 21}

func strOfLen(n int) string {
	// multi-byte characters: the length restriction counts characters, not bytes
	letters := []string{"é", "日", "x", "😀"}
	var b strings.Builder
	for i := 0; i < n; i++ {
		b.WriteString(letters[i%len(letters)])
	}
	return b.String()
}

func runRange(rc *RangeCase, res *rep.Result) {
	check := func(typ string, err error, pan string) {
		res.Eval(1)
		c := *rc
		c.Type = typ
		sig := map[string]string{"kind": "range", "type": typ, "parts": fmt.Sprint(len(rc.Parts)), "conjunct": "range"}
		if pan != "" {
			res.Violate("C20", sig, "panic in restriction validator: "+firstLine(pan), &c)
			return
		}
		if (err == nil) != rc.OK {
			sig["want"] = fmt.Sprint(rc.OK)
			res.Violate("C06", sig, fmt.Sprintf("%s: position %d against parts %v: validator says accept=%v (err=%v), value space says accept=%v", typ, rc.V, rc.Parts, err == nil, err, rc.OK), &c)
		}
	}
	for typ, pos := range intPos {
		var yr yang.YangRange
		for _, p := range rc.Parts {
			yr = append(yr, yang.YRange{Min: yang.FromInt(pos[p[0]-1]), Max: yang.FromInt(pos[p[1]-1])})
		}
		err, pan := guard(func() error {
			return ytypes.ValidateIntRestrictions(&yang.YangType{Kind: kinds[typ], Range: yr}, pos[rc.V-1])
		})
		check(typ, err, pan)
	}
	for typ, pos := range uintPos {
		var yr yang.YangRange
		for _, p := range rc.Parts {
			yr = append(yr, yang.YRange{Min: yang.FromUint(pos[p[0]-1]), Max: yang.FromUint(pos[p[1]-1])})
		}
		err, pan := guard(func() error {
			return ytypes.ValidateUintRestrictions(&yang.YangType{Kind: kinds[typ], Range: yr}, pos[rc.V-1])
		})
		check(typ, err, pan)
	}
	{
		var yr yang.YangRange
		for _, p := range rc.Parts {
			lo, err1 := yang.ParseDecimal(decPos[p[0]-1], 2)
			hi, err2 := yang.ParseDecimal(decPos[p[1]-1], 2)
			if err1 != nil || err2 != nil {
				res.InfraErr("ParseDecimal: %v %v", err1, err2)
				return
			}
			yr = append(yr, yang.YRange{Min: lo, Max: hi})
		}
		err, pan := guard(func() error {
			return ytypes.ValidateDecimalRestrictions(&yang.YangType{Kind: yang.Ydecimal64, FractionDigits: 2, Range: yr}, decF[rc.V-1])
		})
		check("decimal64", err, pan)
	}
	var lr yang.YangRange
	for _, p := range rc.Parts {
		lr = append(lr, yang.YRange{Min: yang.FromUint(uint64(lenPos[p[0]-1])), Max: yang.FromUint(uint64(lenPos[p[1]-1]))})
	}
	err, pan := guard(func() error {
		return ytypes.ValidateStringRestrictions(&yang.YangType{Kind: yang.Ystring, Length: lr}, strOfLen(lenPos[rc.V-1]))
	})
	check("string-length", err, pan)
	err, pan = guard(func() error {
		return ytypes.ValidateBinaryRestrictions(&yang.YangType{Kind: yang.Ybinary, Length: lr}, make([]byte, lenPos[rc.V-1]))
	})
	check("binary-length", err, pan)
}

func psU(s string) string { return strings.ReplaceAll(s, "U", "é") }

var patCandidates []string

func init() {
	sym := []string{"a", "b", "é", "^", "$"}
	cur := []string{""}
	patCandidates = append(patCandidates, "")
	for n := 1; n <= 3; n++ {
		var next []string
		for _, p := range cur {
			for _, s := range sym {
				next = append(next, p+s)
			}
		}
		patCandidates = append(patCandidates, next...)
		cur = next
	}
}

func runPat(pc *PatCase, res *rep.Result) {
	pat := psU(pc.Pat)
	acc, unspec, plain := map[string]bool{}, map[string]bool{}, map[string]bool{}
	for _, s := range pc.Acc {
		acc[psU(s)] = true
	}
	for _, s := range pc.Unspec {
		unspec[psU(s)] = true
	}
	for _, s := range pc.Plain {
		plain[psU(s)] = true
	}
	sig := func(conj string) map[string]string {
		s := map[string]string{"kind": "pattern", "conjunct": conj}
		if strings.HasPrefix(pc.Pat, "^") {
			s["leading_caret"] = "true"
		}
		if strings.HasSuffix(pc.Pat, "\\$") {
			s["escaped_dollar_tail"] = "true"
		} else if strings.HasSuffix(pc.Pat, "$") {
			s["trailing_dollar"] = "true"
		}
		body := strings.TrimRight(strings.TrimSuffix(strings.TrimSuffix(pc.Pat, "$"), "\\"), ")*?")
		if strings.HasSuffix(body, "U") {
			s["nonascii_tail"] = "true"
		}
		if strings.Contains(pc.Pat, "|") {
			s["alternation"] = "true"
		}
		return s
	}
	yt := &yang.YangType{Kind: yang.Ystring, Pattern: []string{pat}}
	anyAccepted := false
	var firstErr error
	for _, s := range patCandidates {
		err, pan := guard(func() error { return ytypes.ValidateStringRestrictions(yt, s) })
		res.Eval(1)
		if pan != "" {
			res.Violate("C20", sig("panic"), fmt.Sprintf("ValidateStringRestrictions panicked on pattern %q value %q: %s", pat, s, firstLine(pan)), pc)
			return
		}
		if err == nil {
			anyAccepted = true
		} else if firstErr == nil {
			firstErr = err
		}
		switch {
		case unspec[s]:
		case acc[s] && err != nil:
			res.Violate("C06", sig("rejects-member"), fmt.Sprintf("pattern %q rejects %q, which it matches: %v", pat, s, err), pc)
		case !acc[s] && err == nil:
			res.Violate("C06", sig("accepts-nonmember"), fmt.Sprintf("pattern %q accepts %q, which it does not match as a whole", pat, s), pc)
		}
	}
	if len(acc)+len(unspec) > 0 && !anyAccepted {
		res.Violate("C06", sig("every-value-fails"), fmt.Sprintf("pattern %q makes every value fail (e.g. %v)", pat, firstErr), pc)
	}
	if pc.Flagged || strings.HasSuffix(pc.Pat, "$") {
		return
	}
	// several patterns: all must match
	both := &yang.YangType{Kind: yang.Ystring, Pattern: []string{pat, "[abé]*"}}
	none := &yang.YangType{Kind: yang.Ystring, Pattern: []string{pat, "zzz"}}
	// posix-pattern takes precedence over pattern and is used as written
	posix := &yang.YangType{Kind: yang.Ystring, Pattern: []string{"zzz"}, POSIXPattern: []string{"^(" + psU(pc.Base) + ")$"}}
	for _, s := range patCandidates {
		if strings.ContainsAny(s, "^$") {
			continue
		}
		res.Eval(1)
		if err := ytypes.ValidateStringRestrictions(both, s); (err == nil) != plain[s] {
			res.Violate("C06", sig("two-patterns"), fmt.Sprintf("patterns %q and [abé]* on %q: accept=%v, want %v", pat, s, err == nil, plain[s]), pc)
		}
		if err := ytypes.ValidateStringRestrictions(none, s); err == nil {
			res.Violate("C06", sig("two-patterns"), fmt.Sprintf("patterns %q and zzz accept %q", pat, s), pc)
		}
		if err := ytypes.ValidateStringRestrictions(posix, s); (err == nil) != plain[s] {
			res.Violate("C06", sig("posix-pattern"), fmt.Sprintf("posix-pattern %q on %q: accept=%v (%v), want %v", posix.POSIXPattern[0], s, err == nil, err, plain[s]), pc)
		}
	}
}

func restrictCmd(args []string) *rep.Result {
	fs := flag.NewFlagSet("restrict", flag.ExitOnError)
	var c common
	c.register(fs)
	fs.Parse(args)
	res := rep.New()
	defer func() { res.Write(c.out) }()
	if c.caseFile != "" {
		var probe struct {
			Sub string `json:"sub"`
		}
		if err := readJSONFile(c.caseFile, &probe); err != nil {
			res.InfraErr("case: %v", err)
			return res
		}
		if probe.Sub == "restrict-range" {
			rc := &RangeCase{}
			readJSONFile(c.caseFile, rc)
			runRange(rc, res)
		} else {
			pc := &PatCase{}
			readJSONFile(c.caseFile, pc)
			runPat(pc, res)
		}
		return res
	}
	for _, in := range strings.Split(c.in, ",") {
		rl, err := readLines(in, "RANGE")
		if err != nil {
			res.InfraErr("restrict: %v", err)
			return res
		}
		for _, l := range rl {
			rc := &RangeCase{Sub: "restrict-range"}
			if err := json.Unmarshal([]byte(l), rc); err != nil {
				res.InfraErr("range case: %v", err)
				return res
			}
			res.Distinct++
			runRange(rc, res)
		}
		pl, _ := readLines(in, "PAT")
		for _, l := range pl {
			pc := &PatCase{Sub: "restrict-pattern"}
			if err := json.Unmarshal([]byte(l), pc); err != nil {
				res.InfraErr("pattern case: %v", err)
				return res
			}
			res.Distinct++
			runPat(pc, res)
		}
	}
	if res.Distinct == 0 {
		res.InfraErr("restrict: no cases in %s", c.in)
	}
	return res
}
