package main

import (
	"encoding/json"
	"flag"
	"fmt"
	"math"
	"math/big"
	"sort"
	"strings"

	gpb "github.com/openconfig/gnmi/proto/gnmi"
	"github.com/openconfig/ygot/ygot"
	"github.com/openconfig/ygot/ytypes"
	"google.golang.org/protobuf/types/known/anypb"

	"verif/harness/internal/abs"
	"verif/harness/internal/conc"
	"verif/harness/internal/reg"
	"verif/harness/internal/rep"
)

// Replay of the Codec cases: C18 (decoding of JSON scalars and TypedValues into a leaf of
// every type) and C16 (list keys of every type through gNMI paths).

func init() { subcmds["codec"] = codecCmd }

// DecCase is a DEC line of Codec.tla plus its binding.
type DecCase struct {
	Sub     string `json:"sub"`
	Mode    string `json:"mode"`
	T       string `json:"t"`
	K       string `json:"k"`
	X       string `json:"x"`
	Verdict string `json:"verdict"`
	V       string `json:"v"`
	Canon   bool   `json:"canon"`
	Pkg     string `json:"pkg,omitempty"`
	Variant string `json:"variant,omitempty"`
	Pos     string `json:"pos,omitempty"`
}

var intBits = map[string]int{"int8": 8, "int16": 16, "int32": 32, "int64": 64, "uint8": 8, "uint16": 16, "uint32": 32, "uint64": 64}

// intClass gives the number a value class stands for in integer type t.
func intClass(t, cls string) (*big.Int, bool) {
	bits, ok := intBits[t]
	if !ok {
		bits, t = 32, "int32" // classes offered to non-integer types: some plausible number
	}
	signed := strings.HasPrefix(t, "int")
	one := big.NewInt(1)
	min, max := big.NewInt(0), new(big.Int).Sub(new(big.Int).Lsh(one, uint(bits)), one)
	if signed {
		min = new(big.Int).Neg(new(big.Int).Lsh(one, uint(bits-1)))
		max = new(big.Int).Sub(new(big.Int).Lsh(one, uint(bits-1)), one)
	}
	switch cls {
	case "MIN":
		if !signed {
			return big.NewInt(-128), true // a negative number offered to an unsigned leaf
		}
		return min, true
	case "MIN1":
		if !signed {
			return big.NewInt(-127), true
		}
		return new(big.Int).Add(min, one), true
	case "NEG1":
		return big.NewInt(-1), true
	case "ZERO":
		return big.NewInt(0), true
	case "ONE":
		return big.NewInt(1), true
	case "MID":
		return new(big.Int).Lsh(one, uint(bits-1)), true
	case "MAX1":
		return new(big.Int).Sub(max, one), true
	case "MAX":
		return max, true
	case "BIG53":
		return big.NewInt(9007199254740993), true
	case "BELOW":
		return new(big.Int).Sub(min, one), true
	case "ABOVE":
		return new(big.Int).Add(max, one), true
	}
	return nil, false
}

var decClass = map[string]string{"DNEG": "-1.25", "DZERO": "0.0", "DSMALL": "0.01", "DINT": "3.0", "DBIG": "1000000.01"}
var decCanon = map[string]string{"DNEG": "dec:-1.25", "DZERO": "dec:0", "DSMALL": "dec:0.01", "DINT": "dec:3", "DBIG": "dec:1000000.01"}

func nameFor(t string, n int) string {
	switch t {
	case "idref":
		return []string{"CIRCLE", "SQUARE"}[n]
	case "u-eu":
		return []string{"E1", "E2"}[n]
	}
	return []string{"RED", "GREEN"}[n]
}

// strClass gives the text of a JSON / TypedValue string class.
func strClass(t, x, module string) (string, bool) {
	if strings.HasPrefix(x, "C:") {
		c := x[2:]
		if d, ok := decClass[c]; ok {
			return d, true
		}
		if n, ok := intClass(t, c); ok {
			return n.String(), true
		}
		return "", false
	}
	switch x {
	case "PLUS":
		return "+5", true
	case "PADDED":
		return " 5 ", true
	case "HEX":
		return "0x10", true
	case "EMPTY", "B64EMPTY":
		return "", true
	case "EXP":
		return "1e3", true
	case "FRACSTR":
		return "1.5", true
	case "EXCESSFRAC":
		return "1.234", true
	case "ALPHA":
		return "é", true
	case "ABOVE", "BELOW":
		n, _ := intClass(t, x)
		return n.String(), true
	case "NAME1":
		return nameFor(t, 0), true
	case "NAME2":
		return nameFor(t, 1), true
	case "MODNAME1":
		if t == "idref" {
			return conc.IdentityModule + ":" + nameFor(t, 0), true
		}
		return module + ":" + nameFor(t, 0), true
	case "UNKNOWNNAME":
		return "PURPLE", true
	case "COLONS":
		return "x:y:" + nameFor(t, 0), true
	case "B64":
		return "AP8Q", true
	case "BADB64":
		return "%%%", true
	case "LOWER":
		return "abc", true
	case "TRUESTR":
		return "true", true
	}
	return "", false
}

// canonOf gives the canonical (abs) form of value class v of type t; in is the input text for
// strings outside the named classes.
func canonOf(t, v, in string) string {
	switch t {
	case "dec2":
		return decCanon[v]
	case "string":
		switch v {
		case "SPLAIN":
			return "str:abc"
		case "SDIGITS":
			return "str:1"
		case "SEMPTY":
			return "str:"
		case "SSPACE":
			return "str: 5 "
		case "SNONASCII":
			return "str:é"
		}
		return "str:" + in
	case "boolean":
		return "bool:" + strings.ToLower(v)
	case "enum":
		return "enum:" + map[string]string{"E1": "RED", "E2": "GREEN"}[v]
	case "idref":
		return "enum:" + map[string]string{"I1": "CIRCLE", "I2": "SQUARE"}[v]
	case "u-is":
		return map[string]string{"UINT": "int32:-1", "USTR": "str:abc"}[v]
	case "u-eu":
		return map[string]string{"UENUM": "enum:E1", "UUINT": "uint32:1"}[v]
	case "u-bu":
		return map[string]string{"UBIN": "bin:00ff10", "UU16": "uint16:1"}[v]
	case "binary":
		return map[string]string{"BBYTES": "bin:00ff10", "BEMPTY": "bin:"}[v]
	case "empty":
		return "empty"
	}
	if n, ok := intClass(t, v); ok {
		return t + ":" + n.String()
	}
	return "?"
}

// jsonText renders a JSON input class as raw JSON text.
func jsonText(c *DecCase, module string) (string, bool) {
	switch c.K {
	case "num":
		switch c.X {
		case "FRAC":
			return "1.5", true
		case "NEGFRAC":
			return "-0.5", true
		case "HUGE":
			return "1e300", true
		}
		n, ok := intClass(c.T, c.X)
		if !ok {
			return "", false
		}
		return n.String(), true
	case "str":
		s, ok := strClass(c.T, c.X, module)
		if !ok {
			return "", false
		}
		b, _ := json.Marshal(s)
		return string(b), true
	case "bool":
		return strings.ToLower(c.X), true
	case "null":
		return "null", true
	case "arrnull":
		return "[null]", true
	case "arrempty":
		return "[]", true
	case "arrnum":
		return "[1]", true
	case "arrnullnull":
		return "[null,null]", true
	case "arrnullnum":
		return "[null,1]", true
	case "obj":
		return "{}", true
	}
	return "", false
}

// typedValue renders a TypedValue input class; ok=false when the class cannot be expressed.
func typedValue(c *DecCase, module string) (*gpb.TypedValue, bool) {
	switch c.K {
	case "nil_value":
		return nil, true
	case "nil_oneof":
		return &gpb.TypedValue{}, true
	case "any_val":
		return &gpb.TypedValue{Value: &gpb.TypedValue_AnyVal{AnyVal: &anypb.Any{TypeUrl: "x", Value: []byte{1}}}}, true
	case "ascii_val":
		return &gpb.TypedValue{Value: &gpb.TypedValue_AsciiVal{AsciiVal: "abc"}}, true
	case "float_val":
		return &gpb.TypedValue{Value: &gpb.TypedValue_FloatVal{FloatVal: 1.5}}, true
	case "decimal_val":
		return &gpb.TypedValue{Value: &gpb.TypedValue_DecimalVal{DecimalVal: &gpb.Decimal64{Digits: 150, Precision: 2}}}, true
	case "leaflist_val":
		return &gpb.TypedValue{Value: &gpb.TypedValue_LeaflistVal{LeaflistVal: &gpb.ScalarArray{Element: []*gpb.TypedValue{{Value: &gpb.TypedValue_UintVal{UintVal: 1}}}}}}, true
	case "int_val":
		n, ok := intClass(c.T, c.X)
		if !ok || !n.IsInt64() {
			return nil, false
		}
		return &gpb.TypedValue{Value: &gpb.TypedValue_IntVal{IntVal: n.Int64()}}, true
	case "uint_val":
		n, ok := intClass(c.T, c.X)
		if !ok || !n.IsUint64() {
			return nil, false
		}
		return &gpb.TypedValue{Value: &gpb.TypedValue_UintVal{UintVal: n.Uint64()}}, true
	case "string_val":
		s, ok := strClass(c.T, c.X, module)
		if !ok {
			return nil, false
		}
		return &gpb.TypedValue{Value: &gpb.TypedValue_StringVal{StringVal: s}}, true
	case "bool_val":
		return &gpb.TypedValue{Value: &gpb.TypedValue_BoolVal{BoolVal: c.X == "TRUE"}}, true
	case "double_val":
		f := map[string]float64{"DNEG": -1.25, "DZERO": 0, "DSMALL": 0.01, "DINT": 3, "DBIG": 1000000.01, "ONE": 1}[c.X]
		return &gpb.TypedValue{Value: &gpb.TypedValue_DoubleVal{DoubleVal: f}}, true
	case "bytes_val":
		b := []byte{0x00, 0xff, 0x10}
		if c.X == "BEMPTY" {
			b = []byte{}
		}
		return &gpb.TypedValue{Value: &gpb.TypedValue_BytesVal{BytesVal: b}}, true
	}
	return nil, false
}

// leafSites lists (variant, abstract position) pairs whose leaf has corpus type t.
func leafSites(cp *conc.Corpus, pkg *reg.Pkg, t string) [][2]string {
	var out [][2]string
	for _, vn := range cp.VariantNames(pkg) {
		v := cp.Variants[vn]
		for _, pos := range []string{"c/a", "c/b", "c/p/x"} {
			if v.Roles[cp.Positions[pos]] == t {
				out = append(out, [2]string{vn, pos})
			}
		}
	}
	sort.Slice(out, func(i, j int) bool { return out[i][0]+out[i][1] < out[j][0]+out[j][1] })
	return out
}

func nestJSON(p *gpb.Path, raw string, module string) []byte {
	s := raw
	for i := len(p.Elem) - 1; i >= 0; i-- {
		n := p.Elem[i].Name
		if i == 0 {
			n = module + ":" + n
		}
		k, _ := json.Marshal(n)
		s = "{" + string(k) + ":" + s + "}"
	}
	return []byte(s)
}

func runDec(c *DecCase, cp *conc.Corpus, pkg *reg.Pkg, res *rep.Result) {
	v := cp.Variants[c.Variant]
	x := &conc.Ctx{C: cp, V: v, Seed: 1}
	ap := strings.Split(c.Pos, "/")
	path, err := x.GNMIPath(ap, pkg)
	if err != nil {
		res.InfraErr("path: %v", err)
		return
	}
	lp, _ := x.AbsPath(ap)
	st, err := schemaTree(pkg)
	if err != nil {
		res.InfraErr("schema: %v", err)
		return
	}
	sig := func(conj, api string) map[string]string {
		return map[string]string{"conjunct": conj, "mode": c.Mode, "type": c.T, "kind": c.K, "class": c.X, "api": api}
	}
	type attempt struct {
		api string
		run func(root ygot.GoStruct) error
	}
	var attempts []attempt
	var inputText string
	if c.Mode == "json" {
		raw, ok := jsonText(c, v.Module)
		if !ok {
			res.Skip(1)
			return
		}
		inputText = raw
		doc := nestJSON(path, raw, v.Module)
		attempts = append(attempts, attempt{"Unmarshal", func(root ygot.GoStruct) error { return pkg.Unmarshal(doc, root) }})
		attempts = append(attempts, attempt{"SetNode(json_ietf)", func(root ygot.GoStruct) error {
			sch := st[reflectName(root)]
			return ytypes.SetNode(sch, root, path, &gpb.TypedValue{Value: &gpb.TypedValue_JsonIetfVal{JsonIetfVal: []byte(raw)}}, &ytypes.InitMissingElements{})
		}})
	} else {
		tv, ok := typedValue(c, v.Module)
		if !ok {
			res.Skip(1)
			return
		}
		inputText = fmt.Sprint(tv)
		if c.Mode == "tvtol" {
			attempts = append(attempts, attempt{"SetNode(tolerant)", func(root ygot.GoStruct) error {
				sch := st[reflectName(root)]
				return ytypes.SetNode(sch, root, path, tv, &ytypes.InitMissingElements{}, &ytypes.TolerateJSONInconsistencies{})
			}})
		} else {
			attempts = append(attempts, attempt{"SetNode", func(root ygot.GoStruct) error {
				sch := st[reflectName(root)]
				var val interface{} = tv
				if tv == nil {
					val = (*gpb.TypedValue)(nil)
				}
				return ytypes.SetNode(sch, root, path, val, &ytypes.InitMissingElements{})
			}})
		}
	}
	strIn := ""
	if c.K == "str" || c.K == "string_val" {
		strIn, _ = strClass(c.T, c.X, v.Module)
	}
	for _, a := range attempts {
		root := pkg.NewRoot()
		err, pan := guard(func() error { return a.run(root) })
		res.Eval(1)
		res.Count("verdict_"+c.Verdict, 1)
		cc := *c
		if pan != "" {
			res.Violate("C20", sig("panic", a.api), fmt.Sprintf("%s panicked on %s into %s leaf: %s", a.api, inputText, c.T, firstLine(pan)), &cc)
			continue
		}
		if err != nil {
			if c.Canon {
				res.DriftNote(fmt.Sprintf("%s rejects the canonical encoding %s of a %s value: %v", a.api, inputText, c.T, firstLine(err.Error())))
			}
			continue
		}
		res.Count("accepted", 1)
		stored, has := abs.Project(root, pkg).Leaves[lp.String()]
		switch c.Verdict {
		case "reject":
			res.Violate("C18", sig("accepted-outside-value-space", a.api), fmt.Sprintf("%s accepted %s for a leaf of type %s (stored %q); the input is outside the leaf's value space", a.api, inputText, c.T, stored), &cc)
			continue
		case "denotes":
			want := canonOf(c.T, c.V, strIn)
			if !has || !sameCanon(stored, want) {
				res.Violate("C18", sig("stored-differs", a.api), fmt.Sprintf("%s accepted %s for a leaf of type %s but stored %q, the input denotes %q", a.api, inputText, c.T, stored, want), &cc)
				continue
			}
		}
		if !has {
			continue
		}
		// every accepted scalar re-renders to the same value
		var js []byte
		rerr, pan := guard(func() error {
			var err error
			js, err = ygot.Marshal7951(root, &ygot.RFC7951JSONConfig{AppendModuleName: true})
			return err
		})
		if pan != "" {
			res.Violate("C20", sig("panic", a.api), fmt.Sprintf("Marshal7951 panicked after %s accepted %s into a %s leaf: %s", a.api, inputText, c.T, firstLine(pan)), &cc)
			continue
		}
		if rerr != nil {
			res.Violate("C18", sig("rerender-error", a.api), fmt.Sprintf("%s accepted %s for a %s leaf (stored %q) but the tree cannot be rendered: %v", a.api, inputText, c.T, stored, rerr), &cc)
			continue
		}
		back := pkg.NewRoot()
		if uerr, _ := guard(func() error { return pkg.Unmarshal(js, back) }); uerr != nil {
			res.Violate("C18", sig("rerender-rejected", a.api), fmt.Sprintf("%s accepted %s for a %s leaf (stored %q); re-rendered as %s, which Unmarshal rejects: %v", a.api, inputText, c.T, stored, js, uerr), &cc)
			continue
		}
		if again := abs.Project(back, pkg).Leaves[lp.String()]; again != stored {
			res.Violate("C18", sig("rerender-differs", a.api), fmt.Sprintf("%s accepted %s for a %s leaf: stored %q, re-rendered %s, read back %q", a.api, inputText, c.T, stored, js, again), &cc)
		}
	}
}

func sameCanon(a, b string) bool {
	if a == b {
		return true
	}
	ka, va, _ := strings.Cut(a, ":")
	kb, vb, _ := strings.Cut(b, ":")
	if ka == "dec" && kb == "dec" {
		return conc.SameDecimal(va, vb)
	}
	return false
}

func reflectName(root ygot.GoStruct) string {
	return strings.TrimPrefix(fmt.Sprintf("%T", root), "*")[strings.Index(strings.TrimPrefix(fmt.Sprintf("%T", root), "*"), ".")+1:]
}

// ---------------------------------------------------------------------------------
// C16: list keys through gNMI paths

// KeyCase is a KEY line plus binding.
type KeyCase struct {
	Sub     string `json:"sub"`
	T       string `json:"t"`
	V       string `json:"v"`
	Cls     string `json:"cls"`
	Pkg     string `json:"pkg,omitempty"`
	Variant string `json:"variant,omitempty"`
	List    string `json:"list,omitempty"`
	KeyLeaf string `json:"keyleaf,omitempty"`
	Value   string `json:"value,omitempty"`
}

// keyValues concretises a value class of key type t (several concrete values per class).
func keyValues(cp *conc.Corpus, t, v string) []string {
	if n, ok := intClass(t, v); ok && intBits[t] != 0 {
		return []string{t + ":" + n.String()}
	}
	switch t {
	case "dec2":
		return []string{decCanon[v]}
	case "string":
		return map[string][]string{"SPLAIN": {"str:alpha", "str:Beta-2"}, "SSPACE": {"str:x y", "str: lead"}, "SNONASCII": {"str:é", "str:日本"},
			"SDIGITS": {"str:123", "str:-7"}, "SEMPTY": {"str:*", "str:a/b]c", "str:k=v", "str:[x]", "str:a//b/../c", "str:true"}}[v]
	case "boolean":
		return []string{"bool:" + strings.ToLower(v)}
	case "enum":
		return []string{map[string]string{"E1": "enum:RED", "E2": "enum:BLUE"}[v]}
	case "idref":
		return []string{map[string]string{"I1": "enum:CIRCLE", "I2": "enum:TRI"}[v]}
	case "u-is":
		return map[string][]string{"UINT": {"int32:-5", "int32:0", "int32:2147483647"}, "USTR": {"str:abc", "str:zz"}}[v]
	case "u-eu":
		return map[string][]string{"UENUM": {"enum:E1", "enum:E2"}, "UUINT": {"uint32:9", "uint32:0", "uint32:4294967295"}}[v]
	case "u-bs":
		return map[string][]string{"UBOOL": {"bool:true", "bool:false"}, "USTRBOOLISH": {"str:True", "str:1", "str:t", "str:FALSE", "str:0", "str:abc"}}[v]
	case "u-ul":
		return map[string][]string{"UU64": {"uint64:5", "uint64:0", "uint64:18446744073709551615"}, "UI64NEG": {"int64:-3", "int64:-9223372036854775808"}}[v]
	case "u-lb":
		return map[string][]string{"UI64": {"int64:0", "int64:-7", "int64:9007199254740993"}, "UBOOL": {"bool:true", "bool:false"}}[v]
	}
	return nil
}

type keySite struct {
	variant, list, keyleaf string
}

func keySites(cp *conc.Corpus, pkg *reg.Pkg, t string) []keySite {
	var out []keySite
	for _, vn := range cp.VariantNames(pkg) {
		v := cp.Variants[vn]
		for _, l := range []string{"l", "ol", "m", "om"} {
			for _, kn := range cp.Lists[l] {
				if v.Roles[cp.Positions[l+"/"+kn]] == t {
					out = append(out, keySite{vn, l, kn})
				}
			}
		}
	}
	sort.Slice(out, func(i, j int) bool { return fmt.Sprint(out[i]) < fmt.Sprint(out[j]) })
	return out
}

func runKey(c *KeyCase, cp *conc.Corpus, pkg *reg.Pkg, res *rep.Result) {
	v := cp.Variants[c.Variant]
	x := &conc.Ctx{C: cp, V: v, Seed: 1}
	kn := cp.Lists[c.List]
	// the entry: the key under test takes c.Value, other keys take their first pool value
	var parts []string
	for _, n := range kn {
		if n == c.KeyLeaf {
			parts = append(parts, c.Value)
			continue
		}
		pv, err := x.Value(c.List+"/"+n, "v1")
		if err != nil {
			res.Skip(1)
			return
		}
		parts = append(parts, pv)
	}
	step := "=" + strings.Join(parts, abs.KSep)
	lp := append(abs.Path(append([]string{}, v.Prefix()...)), c.List)
	vleaf, err := x.Value(c.List+"/v", "v1")
	if err != nil {
		res.Skip(1)
		return
	}
	// a decoy entry of the same list that differs only in the key under test: no operation
	// addressed to the target entry may touch it
	var dparts []string
	for i, n := range kn {
		if n != c.KeyLeaf {
			dparts = append(dparts, parts[i])
			continue
		}
		d := ""
		for _, pv := range cp.Pools[c.T] {
			if pv != c.Value {
				d = pv
				break
			}
		}
		if d == "" {
			res.Skip(1)
			return
		}
		dparts = append(dparts, d)
	}
	dstep := "=" + strings.Join(dparts, abs.KSep)
	mk := func(withTarget bool) (ygot.GoStruct, error) {
		t := abs.NewTree()
		for i := 1; i <= len(v.Prefix()); i++ {
			t.Conts[abs.Path(v.Prefix()[:i]).String()] = true
		}
		steps := map[string][]string{dstep: dparts}
		order := []string{dstep}
		if withTarget {
			steps[step] = parts
			order = append(order, step)
		}
		if !cp.IsOrdered(c.List) {
			sort.Strings(order)
		} else {
			t.Ordered[lp.String()] = true
		}
		t.Ents[lp.String()] = order
		for st, ps := range steps {
			for i, n := range kn {
				t.Leaves[append(append(abs.Path{}, lp...), st, n).String()] = ps[i]
			}
			t.Leaves[append(append(abs.Path{}, lp...), st, "v").String()] = vleaf
		}
		r := pkg.NewRoot()
		return r, abs.Build(t, r, pkg)
	}
	root, err := mk(true)
	if err != nil {
		res.InfraErr("build %s/%s %s=%s: %v", pkg.Name, c.Variant, c.KeyLeaf, c.Value, err)
		return
	}
	want := conc.Restrict(abs.Project(root, pkg), v)
	decoyOnly, _ := mk(false)
	wantDecoy := conc.Restrict(abs.Project(decoyOnly, pkg), v)
	st, err := schemaTree(pkg)
	if err != nil {
		res.InfraErr("schema: %v", err)
		return
	}
	sch := st[reflectName(root)]
	sig := func(conj string) map[string]string {
		s := map[string]string{"conjunct": conj, "keytype": c.T, "class": c.V, "list": c.List}
		if !pkg.SimpleUnion && strings.HasPrefix(c.T, "u-") {
			s["wrapper_union_key"] = "true"
		}
		if strings.Contains(c.Value, "\\") {
			s["backslash"] = "true"
		}
		return s
	}
	cc := *c
	res.Eval(1)
	// producers: TogNMINotifications and Diff must write the same key strings
	findKeys := func(ns []*gpb.Notification) (map[string]string, *gpb.Path) {
		for _, n := range ns {
			for _, u := range n.Update {
				full := append(append([]*gpb.PathElem{}, n.GetPrefix().GetElem()...), u.Path.Elem...)
				if len(full) > 0 && full[len(full)-1].Name == "v" {
					for _, e := range full {
						if e.Name == c.List && len(e.Key) > 0 {
							return e.Key, &gpb.Path{Elem: full}
						}
					}
				}
			}
		}
		return nil, nil
	}
	var ns []*gpb.Notification
	if err, pan := guard(func() error {
		var err error
		ns, err = ygot.TogNMINotifications(root, 1, ygot.GNMINotificationsConfig{UsePathElem: true})
		return err
	}); err != nil || pan != "" {
		res.Violate("C16", sig("notifications-error"), fmt.Sprintf("TogNMINotifications failed for %s[%s=%s]: %v %s", c.List, c.KeyLeaf, c.Value, err, firstLine(pan)), &cc)
		return
	}
	tstep := step
	k1, vp := findKeysFor(ns, c.List, kn, parts)
	if k1 == nil {
		res.Violate("C16", sig("notifications-missing"), fmt.Sprintf("TogNMINotifications has no update for %s[%s=%s]/v: %v", c.List, c.KeyLeaf, c.Value, ns), &cc)
		return
	}
	var dn *gpb.Notification
	if err, pan := guard(func() error {
		var err error
		dn, err = ygot.Diff(pkg.NewRoot(), root)
		return err
	}); err != nil || pan != "" {
		res.Violate("C16", sig("diff-error"), fmt.Sprintf("Diff failed for %s[%s=%s]: %v %s", c.List, c.KeyLeaf, c.Value, err, firstLine(pan)), &cc)
		return
	}
	_ = tstep
	_ = findKeys
	if k2, _ := findKeysFor([]*gpb.Notification{dn}, c.List, kn, parts); fmt.Sprint(k2) != fmt.Sprint(k1) {
		res.Violate("C16", sig("producers-differ"), fmt.Sprintf("TogNMINotifications writes keys %v, Diff writes %v for %s[%s=%s]", k1, k2, c.List, c.KeyLeaf, c.Value), &cc)
	}
	// GetNode with the produced path finds the leaf
	nodes, gerr := ytypes.GetNode(sch, root, vp)
	if gerr != nil || len(nodes) != 1 {
		res.Violate("C16", sig("getnode"), fmt.Sprintf("GetNode(%s) does not find the entry the path was produced from: %d nodes, err=%v", pathString(vp), len(nodes), gerr), &cc)
	} else if got := canonData(nodes[0].Data, pkg); got != vleaf {
		res.Violate("C16", sig("getnode"), fmt.Sprintf("GetNode(%s) returned %q, want %q", pathString(vp), got, vleaf), &cc)
	}
	// SetNode with the path on an empty root creates an entry with the original key leaves
	nr, _ := mk(false)
	nsch := st[reflectName(nr)]
	vtype := x.TypeAt(c.List + "/v")
	if serr, pan := guard(func() error {
		return ytypes.SetNode(nsch, nr, vp, conc.TypedValue(vleaf, vtype), &ytypes.InitMissingElements{})
	}); serr != nil || pan != "" {
		res.Violate("C16", sig("setnode-error"), fmt.Sprintf("SetNode(%s) next to another entry fails: %v %s", pathString(vp), serr, firstLine(pan)), &cc)
	} else if got := conc.Restrict(abs.Project(nr, pkg), v); !abs.Equal(observable(got, x, false), observable(want, x, false), false) {
		res.Violate("C16", sig("setnode-keys"), fmt.Sprintf("SetNode(%s) next to another entry of the list: %s", pathString(vp), strings.Join(abs.Diff(observable(got, x, false), observable(want, x, false), false), "; ")), &cc)
	}
	// DeleteNode with the entry path removes the entry
	ep := &gpb.Path{}
	for _, e := range vp.Elem {
		ep.Elem = append(ep.Elem, e)
		if e.Name == c.List && len(e.Key) > 0 {
			break
		}
	}
	if derr, pan := guard(func() error { return ytypes.DeleteNode(sch, root, ep) }); derr != nil || pan != "" {
		res.Violate("C16", sig("deletenode-error"), fmt.Sprintf("DeleteNode(%s) fails: %v %s", pathString(ep), derr, firstLine(pan)), &cc)
	} else if got := conc.Restrict(abs.Project(root, pkg), v); !abs.Equal(observable(got, x, false), observable(wantDecoy, x, false), false) {
		res.Violate("C16", sig("deletenode"), fmt.Sprintf("DeleteNode(%s) did not remove exactly the addressed entry: %s", pathString(ep), strings.Join(abs.Diff(observable(got, x, false), observable(wantDecoy, x, false), false), "; ")), &cc)
	}
}

// findKeysFor returns the key map and full path of the update for leaf v of the entry whose
// keys are the canonical parts (reference key strings), or the first entry's if none matches.
func findKeysFor(ns []*gpb.Notification, list string, kn, parts []string) (map[string]string, *gpb.Path) {
	var firstK map[string]string
	var firstP *gpb.Path
	for _, n := range ns {
		for _, u := range n.Update {
			full := append(append([]*gpb.PathElem{}, n.GetPrefix().GetElem()...), u.Path.Elem...)
			if len(full) == 0 || full[len(full)-1].Name != "v" {
				continue
			}
			for _, e := range full {
				if e.Name != list || len(e.Key) == 0 {
					continue
				}
				match := true
				for i, k := range kn {
					if e.Key[k] != conc.KeyString(parts[i]) {
						match = false
					}
				}
				if match {
					return e.Key, &gpb.Path{Elem: full}
				}
				if firstK == nil {
					firstK, firstP = e.Key, &gpb.Path{Elem: full}
				}
			}
		}
	}
	return firstK, firstP
}

func codecCmd(args []string) *rep.Result {
	fs := flag.NewFlagSet("codec", flag.ExitOnError)
	var c common
	c.register(fs)
	fs.Parse(args)
	res := rep.New()
	defer func() { res.Write(c.out) }()
	cp, err := conc.Load(c.corpus)
	if err != nil {
		res.InfraErr("corpus: %v", err)
		return res
	}
	if c.caseFile != "" {
		var probe struct {
			Sub string `json:"sub"`
		}
		if err := readJSONFile(c.caseFile, &probe); err != nil {
			res.InfraErr("case: %v", err)
			return res
		}
		if probe.Sub == "codec-key" {
			kc := &KeyCase{}
			readJSONFile(c.caseFile, kc)
			runKey(kc, cp, reg.Get(kc.Pkg), res)
		} else {
			dc := &DecCase{}
			readJSONFile(c.caseFile, dc)
			runDec(dc, cp, reg.Get(dc.Pkg), res)
		}
		return res
	}
	for _, in := range strings.Split(c.in, ",") {
		dl, err := readLines(in, "DEC")
		if err != nil {
			res.InfraErr("codec: %v", err)
			return res
		}
		for _, l := range dl {
			dc := &DecCase{Sub: "codec-dec"}
			if err := json.Unmarshal([]byte(l), dc); err != nil {
				res.InfraErr("dec case: %v", err)
				return res
			}
			res.Distinct++
			for _, pkg := range c.packages() {
				for _, site := range leafSites(cp, pkg, dc.T) {
					cc := *dc
					cc.Pkg, cc.Variant, cc.Pos = pkg.Name, site[0], site[1]
					runDec(&cc, cp, pkg, res)
				}
			}
		}
		kl, _ := readLines(in, "KEY")
		for _, l := range kl {
			kc := &KeyCase{Sub: "codec-key"}
			if err := json.Unmarshal([]byte(l), kc); err != nil {
				res.InfraErr("key case: %v", err)
				return res
			}
			res.Distinct++
			for _, pkg := range c.packages() {
				for _, site := range keySites(cp, pkg, kc.T) {
					for _, val := range keyValues(cp, kc.T, kc.V) {
						cc := *kc
						cc.Pkg, cc.Variant, cc.List, cc.KeyLeaf, cc.Value = pkg.Name, site.variant, site.list, site.keyleaf, val
						runKey(&cc, cp, pkg, res)
					}
				}
			}
		}
	}
	if res.Distinct == 0 {
		res.InfraErr("codec: no cases in %s", c.in)
	}
	_ = math.MaxInt8
	return res
}
