// Command replay drives the real ygot code (built from /repo's working tree) with cases
// and transitions emitted by TLC and compares the outcome with the model's.
package main

import (
	"encoding/json"
	"flag"
	"fmt"
	"os"
	"runtime/debug"
	"strings"

	"verif/harness/internal/conc"
	"verif/harness/internal/reg"
	"verif/harness/internal/rep"

	_ "verif/harness/gen/all"
)

// Common flags.
type common struct {
	in       string
	out      string
	pkgs     string
	variants string
	seed     int64
	corpus   string
	prop     string
	caseFile string
	workers  int
	limit    int
	// allVariants includes the variants that VariantNames leaves out for wrapper-union packages
	allVariants bool
}

func (c *common) register(fs *flag.FlagSet) {
	fs.StringVar(&c.in, "in", "", "ndjson emitted by TLC")
	fs.StringVar(&c.out, "out", "result.json", "result file")
	fs.StringVar(&c.pkgs, "pkgs", "", "comma separated configurations (default all)")
	fs.StringVar(&c.variants, "variants", "", "comma separated corpus variants (default all)")
	fs.Int64Var(&c.seed, "seed", 1, "seed")
	fs.StringVar(&c.corpus, "corpus", "../schemas/variants.json", "variants.json")
	fs.StringVar(&c.prop, "prop", "", "property id the run decides")
	fs.StringVar(&c.caseFile, "case", "", "replay a single stored case")
	fs.IntVar(&c.workers, "workers", 16, "parallel workers")
	fs.IntVar(&c.limit, "limit", 0, "max cases (0 = all)")
}

func (c *common) packages() []*reg.Pkg {
	var out []*reg.Pkg
	names := reg.Names()
	if c.pkgs != "" {
		names = strings.Split(c.pkgs, ",")
	}
	for _, n := range names {
		if p := reg.Get(n); p != nil {
			out = append(out, p)
		}
	}
	return out
}

func (c *common) variantsFor(cp *conc.Corpus, p *reg.Pkg) []string {
	all := cp.VariantNames(p)
	if c.allVariants {
		all = cp.VariantNamesAll(p)
	}
	if c.variants == "" {
		return all
	}
	want := map[string]bool{}
	for _, v := range strings.Split(c.variants, ",") {
		want[v] = true
	}
	var out []string
	for _, v := range all {
		if want[v] {
			out = append(out, v)
		}
	}
	return out
}

type subcmd func(args []string) *rep.Result

var subcmds = map[string]subcmd{}

func main() {
	if len(os.Args) < 2 {
		fmt.Fprintln(os.Stderr, "usage: replay <subcommand> [flags]")
		os.Exit(2)
	}
	f, ok := subcmds[os.Args[1]]
	if !ok {
		fmt.Fprintf(os.Stderr, "unknown subcommand %q\n", os.Args[1])
		os.Exit(2)
	}
	r := f(os.Args[2:])
	if r == nil {
		os.Exit(2)
	}
	if len(r.Infra) > 0 {
		for _, s := range r.Infra {
			fmt.Fprintln(os.Stderr, "INFRA:", s)
		}
		os.Exit(2)
	}
	if len(r.Violations) > 0 {
		os.Exit(1)
	}
}

// safely runs one case; a panic that escapes the per-call guards is classified by its origin: a
// frame of the library under test on top of the stack is a C20 violation (the case is stored for
// replay), anything else is a harness error (exit 2).
func safely(res *rep.Result, what string, c interface{}, f func()) {
	defer func() {
		r := recover()
		if r == nil {
			return
		}
		stack := string(debug.Stack())
		origin := ""
		for _, l := range strings.Split(stack, "\n") {
			l = strings.TrimSpace(l)
			if strings.HasPrefix(l, "github.com/openconfig/") || strings.HasPrefix(l, "main.") || strings.HasPrefix(l, "verif/harness/") {
				if strings.HasPrefix(l, "main.safely") || strings.Contains(l, "debug.Stack") {
					continue
				}
				origin = l
				break
			}
		}
		if strings.HasPrefix(origin, "github.com/openconfig/ygot") {
			fn := origin
			if i := strings.Index(fn, "("); i > 0 {
				fn = fn[:i]
			}
			res.Violate("C20", map[string]string{"conjunct": "panic", "where": fn, "in": what}, fmt.Sprintf("panic in %s (%s): %v", fn, what, r), c)
			return
		}
		res.InfraErr("harness panic in %s: %v at %s", what, r, origin)
	}()
	f()
}

func readJSONFile(path string, v interface{}) error {
	b, err := os.ReadFile(path)
	if err != nil {
		return err
	}
	return json.Unmarshal(b, v)
}
