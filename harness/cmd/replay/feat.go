package main

import (
	"encoding/json"
	"flag"
	"fmt"
	"reflect"
	"sort"
	"strings"

	"github.com/openconfig/ygot/ygot"
	"github.com/openconfig/ygot/ytypes"

	"verif/harness/internal/abs"
	"verif/harness/internal/reg"
	"verif/harness/internal/rep"
)

// Replay of the FeatModel cases on the packages generated from schemas/vf-feat.yang:
// C07 (Validate accepts exactly schema-valid trees), C33 (PopulateDefaults) and C30 (leafrefs).

func init() { subcmds["feat"] = featCmd }

type kv [2]string

type ValidCase struct {
	Sub    string              `json:"sub"`
	Fields []kv                `json:"fields"`
	CfgLL  []string            `json:"cfgll"`
	SLL    []string            `json:"sll"`
	MM     []string            `json:"mm"`
	ULL    []string            `json:"ull"`
	ML     []map[string]string `json:"ml"`
	MK     []map[string]string `json:"mk"`
	C2     []string            `json:"c2"`
	Valid  bool                `json:"valid"`
	Pkg    string              `json:"pkg"`
}

type DefCase struct {
	Sub  string `json:"sub"`
	Pre  []kv   `json:"pre"`
	Ch   string `json:"ch"`
	Dl   string `json:"dl"`
	Post []kv   `json:"post"`
	A1   string `json:"a1"`
	Pkg  string `json:"pkg"`
}

type LrefCase struct {
	Sub      string     `json:"sub"`
	Tgt      []string   `json:"tgt"`
	ID7      bool       `json:"id7"`
	Subs     [][]string `json:"subs"`
	Abs      string     `json:"abs"`
	Rel      string     `json:"rel"`
	Rid      string     `json:"rid"`
	Tname    string     `json:"tname"`
	Sref     string     `json:"sref"`
	Lr       []string   `json:"lr"`
	Dangling bool       `json:"dangling"`
	Pkg      string     `json:"pkg"`
}

func fp(parts ...string) string { return abs.Path(append([]string{"vfe"}, parts...)).String() }

func conts(t *abs.Tree, paths ...string) {
	for _, p := range paths {
		parts := strings.Split(p, "/")
		for i := 1; i <= len(parts); i++ {
			t.Conts[abs.Path(parts[:i]).String()] = true
		}
	}
}

func validate(root ygot.GoStruct, opts ...ygot.ValidationOption) (error, string) {
	return guard(func() error {
		v, ok := root.(interface {
			Validate(...ygot.ValidationOption) error
		})
		if !ok {
			return fmt.Errorf("root has no Validate method")
		}
		return v.Validate(opts...)
	})
}

func runValid(c *ValidCase, pkg *reg.Pkg, res *rep.Result) {
	t := abs.NewTree()
	conts(t, "vfe/d", "vfe/v")
	fields := map[string]string{}
	for _, f := range c.Fields {
		t.Leaves[fp("d", f[0])] = f[1]
		fields[f[0]] = f[1]
	}
	if len(c.CfgLL) > 0 {
		t.LL[fp("v", "cfgll")] = c.CfgLL
	}
	if len(c.MM) > 0 {
		t.LL[fp("v", "mm")] = c.MM
	}
	if len(c.ULL) > 0 {
		t.LL[fp("v", "ull")] = c.ULL
	}
	if len(c.SLL) > 0 {
		conts(t, "vfe/v/st")
		t.LL[fp("v", "st", "sll")] = c.SLL
	}
	var steps []string
	for _, e := range c.ML {
		st := "=" + e["k"]
		steps = append(steps, st)
		if e["kl"] != "" {
			t.Leaves[fp("v", "ml", st, "k")] = e["kl"]
		}
		t.Leaves[fp("v", "ml", st, "x")] = "uint8:1"
	}
	sort.Strings(steps)
	if len(steps) > 0 {
		t.Ents[fp("v", "ml")] = steps
	}
	var msteps []string
	for _, e := range c.MK {
		st := "=" + e["k1"] + abs.KSep + e["k2"]
		msteps = append(msteps, st)
		if e["kl1"] != "" {
			t.Leaves[fp("v", "mk", st, "k1")] = e["kl1"]
		}
		if e["kl2"] != "" {
			t.Leaves[fp("v", "mk", st, "k2")] = e["kl2"]
		}
	}
	sort.Strings(msteps)
	if len(msteps) > 0 {
		t.Ents[fp("v", "mk")] = msteps
	}
	for _, cs := range c.C2 {
		t.Leaves[fp("v", cs+"1")] = "str:" + cs
	}
	root := pkg.NewRoot()
	if err := abs.Build(t, root, pkg); err != nil {
		res.InfraErr("build: %v", err)
		return
	}
	before := abs.Project(root, pkg)
	err, pan := validate(root)
	res.Eval(1)
	cc := *c
	cc.Pkg = pkg.Name
	// signature: which fault (if any) the case carries
	fault := "none"
	if !c.Valid {
		fault = "structure"
		invalid := map[string]bool{"int8:-11": true, "int8:11": true, "uint16:0": true, "uint16:101": true, "uint16:999": true, "uint16:2001": true,
			"dec:-1.51": true, "dec:10.26": true, "str:a": true, "str:abcdef": true, "str:aB": true, "str:ab1": true, "str:éé": true, "enum?:99": true,
			"enum?:-1": true, "int32:10": true, "str:ABC": true, "bin:": true, "bin:0011223344": true}
		for _, e := range c.MK {
			if e["kl1"] != e["k1"] || e["kl2"] != e["k2"] {
				fault = "multikey-mismatch"
				if e["kl1"] == "" || e["kl2"] == "" {
					fault = "multikey-leaf-unset"
				}
			}
		}
		for f, v := range fields {
			if invalid[v] {
				fault = "field:" + f + "=" + v
			}
		}
		switch {
		case len(c.C2) > 1:
			fault = "two-cases"
		case len(c.ULL) > 2:
			fault = "duplicate-config-leaflist"
		case len(c.MM) == 1:
			fault = "below-min-elements"
		case len(c.MM) == 2 && c.MM[0] == c.MM[1]:
			fault = "duplicate-config-leaflist"
		case len(c.MM) > 3:
			fault = "above-max-elements"
		case len(c.ML) > 2:
			fault = "list-above-max-elements"
		case len(c.CfgLL) >= 2 && (c.CfgLL[0] == c.CfgLL[1] || c.CfgLL[0] == c.CfgLL[len(c.CfgLL)-1]):
			fault = "duplicate-config-leaflist"
		}
		for _, e := range c.ML {
			if e["kl"] == "" {
				fault = "key-leaf-unset"
			} else if e["kl"] != e["k"] {
				fault = "key-mismatch"
			}
		}
	}
	sig := map[string]string{"conjunct": "validate", "want_valid": fmt.Sprint(c.Valid), "fault": fault}
	if pan != "" {
		res.Violate("C20", sig, "Validate panicked: "+firstLine(pan), &cc)
		return
	}
	if (err == nil) != c.Valid {
		res.Violate("C07", sig, fmt.Sprintf("Validate returned err=%v for a tree the schema says is valid=%v: %v", err, c.Valid, before.LeafLines()), &cc)
	}
	if after := abs.Project(root, pkg); !abs.Equal(after, before, true) {
		res.Violate("C11", map[string]string{"conjunct": "validate-mutates-input"}, "Validate changed the tree: "+strings.Join(abs.Diff(after, before, true), "; "), &cc)
	}
}

// dfp: the tree path of a defaults-mode field ("i8", "rate-limit/burst", "peer-group/=str:x/ttl")
func dfp(f string) string { return fp(append([]string{"d"}, strings.Split(f, "/")...)...) }

func runDef(c *DefCase, pkg *reg.Pkg, res *rep.Result) {
	t := abs.NewTree()
	conts(t, "vfe/d", "vfe/v", "vfe/d/rate-limit", "vfe/d/rate_limit")
	for _, l := range []string{"peer-group", "peer_group"} {
		t.Ents[fp("d", l)] = []string{"=str:x"}
		t.Leaves[fp("d", l, "=str:x", "name")] = "str:x"
	}
	for _, f := range c.Pre {
		t.Leaves[dfp(f[0])] = f[1]
	}
	switch c.Ch {
	case "a1":
		t.Leaves[fp("d", "a1")] = "str:mine"
	case "a2":
		t.Leaves[fp("d", "a2")] = "uint8:3"
	case "b1":
		t.Leaves[fp("d", "b1")] = "str:bee"
	}
	var ents []string
	switch c.Dl {
	case "empty-entry":
		ents = []string{"=str:e1"}
	case "entry-with-dv":
		ents = []string{"=str:e1"}
		t.Leaves[fp("d", "dl", "=str:e1", "dv")] = "uint8:5"
		t.Conts[fp("d", "dl", "=str:e1", "dc")] = true
		t.Leaves[fp("d", "dl", "=str:e1", "dc", "dw")] = "str:own"
	case "two-entries":
		ents = []string{"=str:e1", "=str:e2"}
		t.Leaves[fp("d", "dl", "=str:e2", "dv")] = "uint8:5"
	}
	for _, e := range ents {
		t.Leaves[fp("d", "dl", e, "k")] = "str:" + strings.TrimPrefix(e, "=str:")
	}
	if len(ents) > 0 {
		t.Ents[fp("d", "dl")] = ents
	}
	root := pkg.NewRoot()
	if err := abs.Build(t, root, pkg); err != nil {
		res.InfraErr("build: %v", err)
		return
	}
	pre := abs.Project(root, pkg)
	verr, _ := validate(root)
	cc := *c
	cc.Pkg = pkg.Name
	res.Eval(1)
	sig := func(conj, leaf string) map[string]string {
		return map[string]string{"conjunct": conj, "leaf": leaf, "ch": c.Ch}
	}
	_, pan := guard(func() error {
		m := reflect.ValueOf(root).MethodByName("PopulateDefaults")
		if !m.IsValid() {
			return fmt.Errorf("no PopulateDefaults")
		}
		m.Call(nil)
		return nil
	})
	if pan != "" {
		res.Violate("C20", sig("panic", ""), "PopulateDefaults panicked: "+firstLine(pan), &cc)
		return
	}
	post := abs.Project(root, pkg)
	// every defaulted leaf: default if it was unset, unchanged otherwise
	for _, f := range c.Post {
		got := post.Leaves[dfp(f[0])]
		if !sameCanon(got, f[1]) {
			conj := "default-not-applied"
			if _, wasSet := pre.Leaves[dfp(f[0])]; wasSet {
				conj = "set-leaf-changed"
			}
			res.Violate("C33", sig(conj, f[0]), fmt.Sprintf("after PopulateDefaults leaf d/%s = %q, want %q (before: %q)", f[0], got, f[1], pre.Leaves[dfp(f[0])]), &cc)
		}
	}
	if c.A1 != "-" {
		if got := post.Leaves[fp("d", "a1")]; got != c.A1 {
			res.Violate("C33", sig("default-not-applied", "a1"), fmt.Sprintf("after PopulateDefaults leaf d/a1 = %q, want %q", got, c.A1), &cc)
		}
	}
	// every leaf that was set keeps its value
	for p, v := range pre.Leaves {
		if post.Leaves[p] != v {
			res.Violate("C33", sig("set-leaf-changed", abs.Pretty(p)), fmt.Sprintf("PopulateDefaults changed the set leaf %s from %q to %q", abs.Pretty(p), v, post.Leaves[p]), &cc)
		}
	}
	// list entries: dv and dc/dw
	for _, e := range ents {
		for leaf, def := range map[string]string{"dv": "uint8:9", "dc" + abs.Sep + "dw": "str:w"} {
			p := fp("d", "dl", e) + abs.Sep + leaf
			want := def
			if v, ok := pre.Leaves[p]; ok {
				want = v
			}
			if got := post.Leaves[p]; got != want {
				res.Violate("C33", sig("default-not-applied", "dl/"+strings.ReplaceAll(leaf, abs.Sep, "/")), fmt.Sprintf("after PopulateDefaults %s = %q, want %q", abs.Pretty(p), got, want), &cc)
			}
		}
	}
	// a tree that validated before still validates
	if verr == nil {
		if aerr, _ := validate(root); aerr != nil {
			res.Violate("C33", sig("validity-lost", ""), fmt.Sprintf("the tree validated before PopulateDefaults and fails afterwards: %v", firstLine(aerr.Error())), &cc)
		}
	} else {
		res.InfraErr("defaults case does not validate before the call: %v", verr)
	}
}

func runLref(c *LrefCase, pkg *reg.Pkg, res *rep.Result) {
	t := abs.NewTree()
	conts(t, "vfe/r")
	var tg []string
	for _, n := range c.Tgt {
		st := "=str:" + n
		tg = append(tg, st)
		t.Leaves[fp("r", "tgt", st, "name")] = "str:" + n
	}
	sort.Strings(tg)
	if len(tg) > 0 {
		t.Ents[fp("r", "tgt")] = tg
	}
	if c.ID7 {
		t.Leaves[fp("r", "tgt", "=str:n1", "id")] = "uint32:7"
	}
	subs := map[string][]string{}
	for _, p := range c.Subs {
		lp := fp("r", "tgt", "=str:"+p[0], "sub")
		subs[lp] = append(subs[lp], "=str:"+p[1])
		t.Leaves[lp+abs.Sep+"=str:"+p[1]+abs.Sep+"s"] = "str:" + p[1]
	}
	for lp, ks := range subs {
		sort.Strings(ks)
		t.Ents[lp] = ks
	}
	if c.Abs != "-" {
		t.Leaves[fp("r", "ref-abs")] = "str:" + c.Abs
	}
	if c.Rel != "-" {
		t.Leaves[fp("r", "ref-rel")] = "str:" + c.Rel
	}
	if c.Rid != "-" {
		t.Leaves[fp("r", "ref-id")] = "uint32:" + c.Rid
	}
	if c.Tname != "-" || c.Sref != "-" {
		t.Conts[fp("r", "q")] = true
	}
	if c.Tname != "-" {
		t.Leaves[fp("r", "q", "tname")] = "str:" + c.Tname
	}
	if c.Sref != "-" {
		t.Leaves[fp("r", "q", "sref")] = "str:" + c.Sref
	}
	var lr []string
	for _, n := range c.Lr {
		st := "=str:" + n
		lr = append(lr, st)
		t.Leaves[fp("r", "lr", st, "n")] = "str:" + n
		t.Leaves[fp("r", "lr", st, "v")] = "str:val"
	}
	sort.Strings(lr)
	if len(lr) > 0 {
		t.Ents[fp("r", "lr")] = lr
	}
	root := pkg.NewRoot()
	if err := abs.Build(t, root, pkg); err != nil {
		res.InfraErr("build: %v", err)
		return
	}
	cc := *c
	cc.Pkg = pkg.Name
	res.Eval(1)
	which := []string{}
	for k, v := range map[string]string{"abs": c.Abs, "rel": c.Rel, "id": c.Rid, "tname": c.Tname, "sref": c.Sref} {
		if v != "-" {
			which = append(which, k)
		}
	}
	if len(c.Lr) > 0 {
		which = append(which, "listkey")
	}
	sort.Strings(which)
	sig := func(conj string) map[string]string {
		return map[string]string{"conjunct": conj, "referrers": strings.Join(which, "+"), "dangling": fmt.Sprint(c.Dangling)}
	}
	err, pan := validate(root)
	if pan != "" {
		res.Violate("C20", sig("panic"), "Validate panicked: "+firstLine(pan), &cc)
		return
	}
	if (err != nil) != c.Dangling {
		res.Violate("C30", sig("leafref"), fmt.Sprintf("Validate err=%v, but dangling=%v for %v", err, c.Dangling, abs.Project(root, pkg).LeafLines()), &cc)
	}
	for _, lg := range []bool{false, true} {
		if err, _ := validate(root, &ytypes.LeafrefOptions{IgnoreMissingData: true, Log: lg}); err != nil {
			res.Violate("C30", sig("ignore-missing-data"), fmt.Sprintf("with IgnoreMissingData (Log=%v) Validate still reports %v for %v", lg, err, abs.Project(root, pkg).LeafLines()), &cc)
		}
	}
	// a target entry whose key leaf is unset (a partially populated tree): with IgnoreMissingData
	// the leafref pass itself must stay silent
	if len(c.Tgt) > 0 && (c.Abs != "-" || c.Rel != "-" || len(c.Lr) > 0) {
		if sch, err := rootSchema(pkg); err == nil {
			par, perr := abs.Ensure(reflect.ValueOf(root), abs.Path{"vfe", "r", "tgt", "=str:" + c.Tgt[0]}, pkg)
			if perr == nil {
				if f, ok := abs.FieldByStep(par.Elem(), "name"); ok {
					f.Set(reflect.Zero(f.Type()))
					for _, lg := range []bool{false, true} {
						errs, pan := guardErrs(func() []error {
							return []error(ytypes.ValidateLeafRefData(sch, root, &ytypes.LeafrefOptions{IgnoreMissingData: true, Log: lg}))
						})
						if pan != "" {
							res.Violate("C20", sig("panic"), "ValidateLeafRefData panicked: "+firstLine(pan), &cc)
						} else if len(errs) > 0 {
							res.Violate("C30", sig("ignore-missing-data-partial"), fmt.Sprintf("with IgnoreMissingData (Log=%v) and a target entry without its key leaf ValidateLeafRefData reports %v", lg, errs), &cc)
						}
					}
				}
			}
		}
	}
}

func featCmd(args []string) *rep.Result {
	fs := flag.NewFlagSet("feat", flag.ExitOnError)
	var c common
	c.register(fs)
	fs.Parse(args)
	res := rep.New()
	defer func() { res.Write(c.out) }()
	pkgs := c.packages()
	if len(pkgs) == 0 {
		res.InfraErr("no package")
		return res
	}
	if c.caseFile != "" {
		var probe struct {
			Sub string `json:"sub"`
			Pkg string `json:"pkg"`
		}
		if err := readJSONFile(c.caseFile, &probe); err != nil {
			res.InfraErr("case: %v", err)
			return res
		}
		pkg := reg.Get(probe.Pkg)
		switch probe.Sub {
		case "feat-valid":
			vc := &ValidCase{}
			readJSONFile(c.caseFile, vc)
			runValid(vc, pkg, res)
		case "feat-def":
			dc := &DefCase{}
			readJSONFile(c.caseFile, dc)
			runDef(dc, pkg, res)
		case "feat-lref":
			lc := &LrefCase{}
			readJSONFile(c.caseFile, lc)
			runLref(lc, pkg, res)
		}
		return res
	}
	for _, tag := range []string{"VALID", "DEF", "LREF"} {
		lines, _ := readLines(c.in, tag)
		for _, l := range lines {
			res.Distinct++
			for _, pkg := range pkgs {
				switch tag {
				case "VALID":
					vc := &ValidCase{Sub: "feat-valid"}
					if err := json.Unmarshal([]byte(l), vc); err != nil {
						res.InfraErr("%v", err)
						return res
					}
					runValid(vc, pkg, res)
				case "DEF":
					dc := &DefCase{Sub: "feat-def"}
					if err := json.Unmarshal([]byte(l), dc); err != nil {
						res.InfraErr("%v", err)
						return res
					}
					runDef(dc, pkg, res)
				case "LREF":
					lc := &LrefCase{Sub: "feat-lref"}
					if err := json.Unmarshal([]byte(l), lc); err != nil {
						res.InfraErr("%v", err)
						return res
					}
					runLref(lc, pkg, res)
				}
			}
		}
	}
	if res.Distinct == 0 {
		res.InfraErr("feat: no cases in %s", c.in)
	}
	return res
}

func guardErrs(f func() []error) (errs []error, panicked string) {
	defer func() {
		if r := recover(); r != nil {
			panicked = fmt.Sprint(r)
		}
	}()
	return f(), ""
}
