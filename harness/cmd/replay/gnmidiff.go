package main

import (
	"encoding/json"
	"flag"
	"fmt"
	"reflect"
	"sort"
	"strings"
	"sync"

	gpb "github.com/openconfig/gnmi/proto/gnmi"
	"github.com/openconfig/ygot/gnmidiff"
	"github.com/openconfig/ygot/ygot"
	"github.com/openconfig/ygot/ytypes"
	"google.golang.org/protobuf/proto"

	"verif/harness/internal/conc"
	"verif/harness/internal/reg"
	"verif/harness/internal/rep"
)

// Replay of the GnmiDiff cases (C22, C23) on gnmidiff.DiffSetRequest and
// gnmidiff.DiffSetRequestToNotifications, with the generated schema and with no schema, for the
// OpenConfig-style corpus variants (gnmidiff requires OpenConfig-style JSON).

func init() { subcmds["gnmidiff"] = gnmidiffCmd }

type GDIntent struct {
	Del  [][]string        `json:"del"`
	Upd  []json.RawMessage `json:"upd"`
	Free [][]string        `json:"free"`
}

type GDLine struct {
	Req    []ReqOp            `json:"req"`
	Intent GDIntent           `json:"intent"`
	Rw     map[string][]ReqOp `json:"rw"`
}

type GDCase struct {
	Sub     string  `json:"sub"`
	Line    *GDLine `json:"line"`
	Pkg     string  `json:"pkg"`
	Variant string  `json:"variant"`
	Seed    int64   `json:"seed"`
	Prop    string  `json:"prop"`
}

// leafUpdatesOf renders one operation as gNMI updates. A JSON operation stays one update; leaf
// operations on a key leaf of the OpenConfig shape name both data paths the field stands for
// (config/k and the entry-level leafref k), as the flattened JSON document would.
func gdUpdates(o *ReqOp, x *conc.Ctx, pkg *reg.Pkg, jsonScalars bool) ([]*gpb.Update, error) {
	u, err := buildUpdate(o, x, pkg, jsonScalars)
	if err != nil {
		return nil, err
	}
	out := []*gpb.Update{u}
	if o.T != "json" && len(o.P) >= 3 {
		// key leaf of a list entry: l K1 k
		steps, err := x.Resolve(o.P)
		if err == nil && len(steps) >= 2 {
			last, entry := steps[len(steps)-1], steps[len(steps)-2]
			if entry.List && entry.Keys != nil {
				for _, kn := range entry.KN {
					if kn == last.Name {
						var elems []*gpb.PathElem
						for _, e := range u.Path.Elem {
							if e.Name == "config" || e.Name == "state" {
								continue
							}
							elems = append(elems, e)
						}
						out = append(out, &gpb.Update{Path: &gpb.Path{Elem: elems}, Val: proto.Clone(u.Val).(*gpb.TypedValue)})
					}
				}
			}
		}
	}
	return out, nil
}

// losslessTyped: the leaf types whose TypedValue form gnmidiff can compare with the RFC 7951
// JSON form without a schema (protoLeafToJSON: strings, booleans, integers up to 32 bits, binary,
// and leaf-lists of those; 64-bit integers, decimal64 and identityrefs are documented as lossy).
var losslessTyped = map[string]bool{"string": true, "boolean": true, "int8": true, "int16": true, "int32": true, "uint8": true, "uint16": true, "uint32": true, "binary": true}

// typedWhereLossless: like gdRequest(allJSON) except that scalar and leaf-list payloads of a
// lossless type are written as TypedValues (scalar / leaflist_val) instead of JSON.
func gdRequestTyped(ops []ReqOp, x *conc.Ctx, pkg *reg.Pkg) (*gpb.SetRequest, int, error) {
	req := &gpb.SetRequest{}
	typed := 0
	for i := range ops {
		o := &ops[i]
		if o.K == "del" {
			p, err := x.GNMIPath(o.P, pkg)
			if err != nil {
				return nil, 0, err
			}
			req.Delete = append(req.Delete, p)
			continue
		}
		asJSON := true
		if o.T == "leaf" || o.T == "ll" {
			if steps, err := x.Resolve(o.P); err == nil && losslessTyped[x.TypeAt(steps[len(steps)-1].Pos)] {
				asJSON = false
				typed++
			}
		}
		us, err := gdUpdates(o, x, pkg, asJSON)
		if err != nil {
			return nil, 0, err
		}
		if o.K == "rep" {
			req.Replace = append(req.Replace, us...)
		} else {
			req.Update = append(req.Update, us...)
		}
	}
	return req, typed, nil
}

func gdRequest(ops []ReqOp, x *conc.Ctx, pkg *reg.Pkg, seed int64, allJSON bool) (*gpb.SetRequest, error) {
	req := &gpb.SetRequest{}
	for i := range ops {
		o := &ops[i]
		if o.K == "del" {
			p, err := x.GNMIPath(o.P, pkg)
			if err != nil {
				return nil, err
			}
			req.Delete = append(req.Delete, p)
			continue
		}
		us, err := gdUpdates(o, x, pkg, allJSON || (seed+int64(i))%3 == 0)
		if err != nil {
			return nil, err
		}
		if o.K == "rep" {
			req.Replace = append(req.Replace, us...)
		} else {
			req.Update = append(req.Update, us...)
		}
	}
	return req, nil
}

func emptyDiff(d gnmidiff.SetRequestIntentDiff) string {
	var bad []string
	for p := range d.MissingDeletes {
		bad = append(bad, "missing delete "+p)
	}
	for p := range d.ExtraDeletes {
		bad = append(bad, "extra delete "+p)
	}
	for p, v := range d.MissingUpdates {
		bad = append(bad, fmt.Sprintf("missing update %s=%v", p, v))
	}
	for p, v := range d.ExtraUpdates {
		bad = append(bad, fmt.Sprintf("extra update %s=%v", p, v))
	}
	for p, v := range d.MismatchedUpdates {
		bad = append(bad, fmt.Sprintf("mismatch %s: %v (%T) vs %v (%T)", p, v.A, v.A, v.B, v.B))
	}
	sort.Strings(bad)
	return strings.Join(bad, "; ")
}

func keysOf(m interface{}) []string {
	var out []string
	for _, k := range reflect.ValueOf(m).MapKeys() {
		out = append(out, k.String())
	}
	sort.Strings(out)
	return out
}

func runGD(l *GDLine, pkg *reg.Pkg, x *conc.Ctx, prop string, res *rep.Result, other *GDLine) {
	gc := &GDCase{Sub: "gnmidiff", Line: l, Pkg: pkg.Name, Variant: x.V.Name, Seed: x.Seed, Prop: prop}
	skip := func(err error) {
		if _, ok := err.(conc.ErrNoValue); ok {
			res.Skip(1)
			return
		}
		res.InfraErr("concretise: %v", err)
	}
	// without a schema values are compared as written: every scalar is then given in its
	// RFC 7951 JSON form (as in the documents), so that equal values are textually equal
	aBy := map[string]*gpb.SetRequest{}
	for mode, allJSON := range map[string]bool{"schema": false, "noschema": true} {
		q, err := gdRequest(l.Req, x, pkg, x.Seed, allJSON)
		if err != nil {
			skip(err)
			return
		}
		aBy[mode] = q
	}
	sch, err := pkg.Schema()
	if err != nil {
		res.InfraErr("schema: %v", err)
		return
	}
	var kinds []string
	for _, o := range l.Req {
		kinds = append(kinds, o.K+":"+o.T)
	}
	sig := func(conj, mode, rw string) map[string]string {
		s := map[string]string{"conjunct": conj, "schema": mode, "rewrite": rw, "ops": strings.Join(kinds, ",")}
		if !pkg.SimpleUnion && touchesUnionKeyedList(&ReqEdge{Req: l.Req}, x) {
			s["wrapper_union_key"] = "true"
		}
		return s
	}
	schemas := map[string]*ytypes.Schema{"schema": sch, "noschema": nil}
	// Without a schema the key leaves a list-entry path implies cannot be known: a JSON payload
	// addressed to a list entry and its leaf-by-leaf form are only comparable with the schema.
	jsonAtEntry := false
	for i := range l.Req {
		if l.Req[i].T == "json" && len(l.Req[i].P) > 0 {
			if steps, err := x.Resolve(l.Req[i].P); err == nil && steps[len(steps)-1].Keys != nil {
				jsonAtEntry = true
			}
		}
	}
	res.Eval(1)
	if prop == "C22" {
		for mode, s := range schemas {
			a := aBy[mode]
			// DiffSetRequest(a, a)
			var d gnmidiff.SetRequestIntentDiff
			derr, pan := guard(func() error {
				var err error
				d, err = gnmidiff.DiffSetRequest(a, proto.Clone(a).(*gpb.SetRequest), s)
				return err
			})
			if pan != "" {
				res.Violate("C20", sig("panic", mode, "self"), "DiffSetRequest panicked: "+firstLine(pan)+" on "+compactProto(a), gc)
				continue
			}
			if derr != nil {
				res.Count("diff_errors_"+mode, 1)
				continue
			}
			if bad := emptyDiff(d); bad != "" {
				res.Violate("C22", sig("self-diff", mode, "self"), fmt.Sprintf("DiffSetRequest(a, a) [%s] is not empty: %s; a = %s", mode, bad, compactProto(a)), gc)
			}
			// without a schema: the same request with its lossless payloads written as TypedValues
			if mode == "noschema" {
				if bt, n, err := gdRequestTyped(l.Req, x, pkg); err == nil && n > 0 {
					var d3 gnmidiff.SetRequestIntentDiff
					derr, pan := guard(func() error {
						var err error
						d3, err = gnmidiff.DiffSetRequest(a, bt, s)
						return err
					})
					if pan != "" {
						res.Violate("C20", sig("panic", mode, "typed"), "DiffSetRequest panicked: "+firstLine(pan)+" on "+compactProto(bt), gc)
					} else if derr == nil {
						res.Count("typed_vs_json_compared", 1)
						if bad := emptyDiff(d3); bad != "" {
							res.Violate("C22", sig("same-intent", mode, "typed-encoding"), fmt.Sprintf("the same request with JSON and with TypedValue payloads [%s] differs: %s; a = %s; b = %s", mode, bad, compactProto(a), compactProto(bt)), gc)
						}
					}
				}
			}
			// every rewrite has the same intent: empty diff
			for kind, ops := range l.Rw {
				if kind == "split" && mode == "noschema" && jsonAtEntry {
					continue
				}
				b, err := gdRequest(ops, x, pkg, x.Seed+1, mode == "noschema")
				if err != nil {
					continue
				}
				for split := 0; split < 3; split++ {
					bb := proto.Clone(b).(*gpb.SetRequest)
					splitPrefix(bb, split)
					rw := kind
					if split > 0 {
						rw = kind + "+prefix"
					}
					var d2 gnmidiff.SetRequestIntentDiff
					derr, pan := guard(func() error {
						var err error
						d2, err = gnmidiff.DiffSetRequest(a, bb, s)
						return err
					})
					if pan != "" {
						res.Violate("C20", sig("panic", mode, rw), "DiffSetRequest panicked: "+firstLine(pan)+" on "+compactProto(bb), gc)
						continue
					}
					if derr != nil {
						res.Count("diff_errors_"+mode, 1)
						continue
					}
					res.Count("rewrites_compared", 1)
					if bad := emptyDiff(d2); bad != "" {
						res.Violate("C22", sig("same-intent", mode, rw), fmt.Sprintf("two SetRequests with the same intent (%s) [%s] differ: %s; a = %s; b = %s", rw, mode, bad, compactProto(a), compactProto(bb)), gc)
					}
				}
			}
			// swap symmetry against another request
			if other != nil {
				if b, err := gdRequest(other.Req, x, pkg, x.Seed, mode == "noschema"); err == nil {
					d1, e1 := gnmidiff.DiffSetRequest(a, b, s)
					d2, e2 := gnmidiff.DiffSetRequest(b, a, s)
					if e1 == nil && e2 == nil {
						ok := reflect.DeepEqual(keysOf(d1.MissingUpdates), keysOf(d2.ExtraUpdates)) && reflect.DeepEqual(keysOf(d1.ExtraUpdates), keysOf(d2.MissingUpdates)) &&
							reflect.DeepEqual(keysOf(d1.MissingDeletes), keysOf(d2.ExtraDeletes)) && reflect.DeepEqual(keysOf(d1.ExtraDeletes), keysOf(d2.MissingDeletes)) &&
							reflect.DeepEqual(keysOf(d1.CommonUpdates), keysOf(d2.CommonUpdates)) && reflect.DeepEqual(keysOf(d1.CommonDeletes), keysOf(d2.CommonDeletes)) &&
							reflect.DeepEqual(keysOf(d1.MismatchedUpdates), keysOf(d2.MismatchedUpdates))
						for p, m := range d1.MismatchedUpdates {
							if m2, has := d2.MismatchedUpdates[p]; has && (!reflect.DeepEqual(m.A, m2.B) || !reflect.DeepEqual(m.B, m2.A)) {
								ok = false
							}
						}
						if !ok {
							res.Violate("C22", sig("swap", mode, "other"), fmt.Sprintf("DiffSetRequest(a,b) and (b,a) [%s] are not mirror images: a = %s; b = %s", mode, compactProto(a), compactProto(b)), gc)
						}
					}
				}
			}
		}
		return
	}
	// C23: notifications carrying exactly the leaves the intent writes
	split := l.Rw["split"]
	for mode, s := range schemas {
		if mode == "noschema" && jsonAtEntry {
			continue
		}
		a := aBy[mode]
		var ups []*gpb.Update
		hasDoc := false
		for i := range split {
			o := &split[i]
			if o.K == "del" {
				continue
			}
			if o.T == "json" {
				// the document of a JSON replace is carried as it is
				u, err := buildUpdate(o, x, pkg, false)
				if err != nil {
					skip(err)
					return
				}
				ups = append(ups, u)
				hasDoc = true
				continue
			}
			us, err := gdUpdates(o, x, pkg, mode == "noschema")
			if err != nil {
				skip(err)
				return
			}
			ups = append(ups, us...)
		}
		base := []*gpb.Notification{{Timestamp: 1, Update: ups}}
		failed := false
		forms := notifForms(ups)
		for _, form := range []string{"single", "prefixed", "prefixed-then-plain", "plain-then-prefixed"} {
			ns, ok := forms[form]
			if !ok {
				continue
			}
			var d gnmidiff.SetToNotifsDiff
			derr, pan := guard(func() error {
				var err error
				d, err = gnmidiff.DiffSetRequestToNotifications(a, ns, s)
				return err
			})
			if pan != "" {
				res.Violate("C20", sig("panic", mode, "exact"), "DiffSetRequestToNotifications panicked: "+firstLine(pan), gc)
				failed = true
				break
			}
			if derr != nil {
				if form != "single" {
					res.Violate("C23", sig("exact-error", mode, form), fmt.Sprintf("the same leaves spread over notifications (%s) [%s] give an error where one notification does not: %v; notifications %s", form, mode, derr, compactNotifs(ns)), gc)
				}
				res.Count("diff_errors_"+mode, 1)
				failed = true
				break
			}
			if len(d.MissingUpdates)+len(d.ExtraUpdates)+len(d.MismatchedUpdates) > 0 {
				res.Violate("C23", sig("exact", mode, form), fmt.Sprintf("notifications (%s) carrying exactly the request's leaves [%s]: missing %v extra %v mismatched %v; request %s; notifications %s", form, mode, keysOf(d.MissingUpdates), keysOf(d.ExtraUpdates), keysOf(d.MismatchedUpdates), compactProto(a), compactNotifs(ns)), gc)
				failed = true
				break
			}
			res.Count("exact_ok_"+form, 1)
		}
		_ = base
		if failed {
			continue
		}
		res.Count("exact_ok", 1)
		// remove one leaf: exactly that leaf is missing (scalar leaf updates only)
		for i, u := range ups {
			if hasDoc || i > 3 {
				continue
			}
			ps := pathString(u.Path)
			dup := false
			for j, w := range ups {
				if j != i && pathString(w.Path) == ps {
					dup = true
				}
			}
			if dup {
				continue
			}
			rest := append(append([]*gpb.Update{}, ups[:i]...), ups[i+1:]...)
			d, err := gnmidiff.DiffSetRequestToNotifications(a, []*gpb.Notification{{Timestamp: 1, Update: rest}}, s)
			if err != nil {
				continue
			}
			if got := keysOf(d.MissingUpdates); len(got) != 1 || got[0] != ps || len(d.ExtraUpdates)+len(d.MismatchedUpdates) > 0 {
				res.Violate("C23", sig("remove-one", mode, "none"), fmt.Sprintf("with leaf %s removed [%s]: missing %v extra %v mismatched %v", ps, mode, got, keysOf(d.ExtraUpdates), keysOf(d.MismatchedUpdates)), gc)
			}
			res.Count("removed_one", 1)
		}
		// change one leaf: exactly that leaf is mismatched (non-key scalar leaves)
		for i, u := range ups {
			if hasDoc || i > 3 {
				continue
			}
			isKey := false
			if n := len(u.Path.Elem); n >= 2 {
				last := u.Path.Elem[n-1].Name
				for _, e := range u.Path.Elem[:n-1] {
					if _, ok := e.Key[last]; ok {
						isKey = true
					}
				}
			}
			pv := perturbValue(u.Val)
			if isKey || pv == nil {
				continue
			}
			ps := pathString(u.Path)
			changed := append([]*gpb.Update{}, ups...)
			changed[i] = &gpb.Update{Path: u.Path, Val: pv}
			dup := false
			for j, w := range ups {
				if j != i && pathString(w.Path) == ps {
					dup = true
				}
			}
			if dup {
				continue
			}
			d, err := gnmidiff.DiffSetRequestToNotifications(a, []*gpb.Notification{{Timestamp: 1, Update: changed}}, s)
			if err != nil {
				continue
			}
			if got := keysOf(d.MismatchedUpdates); len(got) != 1 || got[0] != ps || len(d.ExtraUpdates)+len(d.MissingUpdates) > 0 {
				res.Violate("C23", sig("change-one", mode, "none"), fmt.Sprintf("with leaf %s changed to %v [%s]: missing %v extra %v mismatched %v", ps, pv, mode, keysOf(d.MissingUpdates), keysOf(d.ExtraUpdates), got), gc)
			}
			res.Count("changed_one", 1)
		}
		// add one leaf under a deleted / replaced subtree: exactly that leaf is extra
		for fi, free := range l.Intent.Free {
			if hasDoc || fi > 1 {
				continue
			}
			v, _ := json.Marshal("v1")
			us, err := gdUpdates(&ReqOp{K: "upd", P: free, T: "leaf", V: v}, x, pkg, mode == "noschema")
			if err != nil || len(us) != 1 {
				continue
			}
			d, err := gnmidiff.DiffSetRequestToNotifications(a, []*gpb.Notification{{Timestamp: 1, Update: append(append([]*gpb.Update{}, ups...), us[0])}}, s)
			if err != nil {
				continue
			}
			ps := pathString(us[0].Path)
			if got := keysOf(d.ExtraUpdates); len(got) != 1 || got[0] != ps || len(d.MismatchedUpdates)+len(d.MissingUpdates) > 0 {
				res.Violate("C23", sig("add-under-deleted", mode, "none"), fmt.Sprintf("with leaf %s added under a deleted subtree [%s]: missing %v extra %v mismatched %v; request %s", ps, mode, keysOf(d.MissingUpdates), got, keysOf(d.MismatchedUpdates), compactProto(a)), gc)
			}
			res.Count("added_under_deleted", 1)
		}
	}
}

// notifForms spreads the updates over notifications in the ways a collector may deliver them:
// one notification; two notifications of which the first / the second carries the common
// first path element as its prefix and the other has no prefix.
func notifForms(ups []*gpb.Update) map[string][]*gpb.Notification {
	out := map[string][]*gpb.Notification{"single": {{Timestamp: 1, Update: ups}}}
	if len(ups) < 2 {
		if len(ups) == 1 && len(ups[0].Path.GetElem()) > 1 {
			out["prefixed"] = []*gpb.Notification{withPrefix(ups, 1)}
		}
		return out
	}
	h := len(ups) / 2
	plain := func(us []*gpb.Update, ts int64) *gpb.Notification {
		return &gpb.Notification{Timestamp: ts, Update: us}
	}
	if p := withPrefix(ups[:h], 1); p != nil {
		out["prefixed-then-plain"] = []*gpb.Notification{p, plain(ups[h:], 2)}
	}
	if p := withPrefix(ups[h:], 1); p != nil {
		p.Timestamp = 2
		out["plain-then-prefixed"] = []*gpb.Notification{plain(ups[:h], 1), p}
	}
	return out
}

// withPrefix moves the first n path elements, when common to all updates, into the prefix.
func withPrefix(ups []*gpb.Update, n int) *gpb.Notification {
	if len(ups) == 0 {
		return nil
	}
	for _, u := range ups {
		if len(u.Path.GetElem()) <= n {
			return nil
		}
		for i := 0; i < n; i++ {
			if !proto.Equal(u.Path.Elem[i], ups[0].Path.Elem[i]) {
				return nil
			}
		}
	}
	nt := &gpb.Notification{Timestamp: 1, Prefix: &gpb.Path{Elem: append([]*gpb.PathElem{}, ups[0].Path.Elem[:n]...)}}
	for _, u := range ups {
		nt.Update = append(nt.Update, &gpb.Update{Path: &gpb.Path{Elem: append([]*gpb.PathElem{}, u.Path.Elem[n:]...)}, Val: u.Val})
	}
	return nt
}

func compactNotifs(ns []*gpb.Notification) string {
	var out []string
	for _, n := range ns {
		out = append(out, compactProto(n))
	}
	return strings.Join(out, " | ")
}

// perturbValue returns a different value of the same TypedValue kind, or nil.
func perturbValue(tv *gpb.TypedValue) *gpb.TypedValue {
	switch v := tv.GetValue().(type) {
	case *gpb.TypedValue_IntVal:
		return &gpb.TypedValue{Value: &gpb.TypedValue_IntVal{IntVal: v.IntVal ^ 1}}
	case *gpb.TypedValue_UintVal:
		return &gpb.TypedValue{Value: &gpb.TypedValue_UintVal{UintVal: v.UintVal ^ 1}}
	case *gpb.TypedValue_BoolVal:
		return &gpb.TypedValue{Value: &gpb.TypedValue_BoolVal{BoolVal: !v.BoolVal}}
	case *gpb.TypedValue_StringVal:
		return &gpb.TypedValue{Value: &gpb.TypedValue_StringVal{StringVal: v.StringVal + "z"}}
	case *gpb.TypedValue_JsonIetfVal:
		var x interface{}
		if json.Unmarshal(v.JsonIetfVal, &x) != nil {
			return nil
		}
		switch y := x.(type) {
		case string:
			b, _ := json.Marshal(y + "z")
			return &gpb.TypedValue{Value: &gpb.TypedValue_JsonIetfVal{JsonIetfVal: b}}
		case bool:
			b, _ := json.Marshal(!y)
			return &gpb.TypedValue{Value: &gpb.TypedValue_JsonIetfVal{JsonIetfVal: b}}
		case float64:
			b, _ := json.Marshal(float64(int64(y) ^ 1))
			return &gpb.TypedValue{Value: &gpb.TypedValue_JsonIetfVal{JsonIetfVal: b}}
		}
	}
	return nil
}

func gnmidiffCmd(args []string) *rep.Result {
	fs := flag.NewFlagSet("gnmidiff", flag.ExitOnError)
	var c common
	c.register(fs)
	fs.Parse(args)
	res := rep.New()
	defer func() { res.Write(c.out) }()
	cp, err := conc.Load(c.corpus)
	if err != nil {
		res.InfraErr("corpus: %v", err)
		return res
	}
	if c.caseFile != "" {
		var gc GDCase
		if err := readJSONFile(c.caseFile, &gc); err != nil {
			res.InfraErr("case: %v", err)
			return res
		}
		runGD(gc.Line, reg.Get(gc.Pkg), &conc.Ctx{C: cp, V: cp.Variants[gc.Variant], Seed: gc.Seed}, gc.Prop, res, nil)
		return res
	}
	lines, err := readLines(c.in, "GD")
	if err != nil || len(lines) == 0 {
		res.InfraErr("gnmidiff: no cases in %s (%v)", c.in, err)
		return res
	}
	var all []*GDLine
	for _, l := range lines {
		g := &GDLine{}
		if err := json.Unmarshal([]byte(l), g); err != nil {
			res.InfraErr("case: %v", err)
			return res
		}
		all = append(all, g)
	}
	res.Distinct = len(all)
	type job struct {
		s   int64 // concretisation seed of the case
		i   int
		pkg *reg.Pkg
		v   string
	}
	jobs := make(chan job, 1024)
	var wg sync.WaitGroup
	for w := 0; w < c.workers; w++ {
		wg.Add(1)
		go func() {
			defer wg.Done()
			for j := range jobs {
				other := all[(j.i*7+13)%len(all)]
				safely(res, "gnmidiff", all[j.i], func() {
					runGD(all[j.i], j.pkg, &conc.Ctx{C: cp, V: cp.Variants[j.v], Seed: j.s}, c.prop, res, other)
				})
			}
		}()
	}
	for i := range all {
		for _, pkg := range c.packages() {
			if !pkg.Compressed {
				continue
			}
			for vi, v := range c.variantsFor(cp, pkg) {
				if c.limit > 0 && (i+vi+int(c.seed))%c.limit != 0 {
					continue
				}
				jobs <- job{s: c.seed + int64(i%13), i: i, pkg: pkg, v: v}
			}
		}
	}
	close(jobs)
	wg.Wait()
	_ = ygot.PathToString
	return res
}
