package main

import (
	"encoding/json"
	"flag"
	"fmt"
	"math"
	"math/rand"
	"strings"

	gpb "github.com/openconfig/gnmi/proto/gnmi"
	"github.com/openconfig/ygot/gnmidiff"
	"github.com/openconfig/ygot/ygot"
	"github.com/openconfig/ygot/ytypes"
	"google.golang.org/protobuf/types/known/anypb"

	"verif/harness/internal/reg"
	"verif/harness/internal/rep"
)

// Replay of the Malformed grid (C20): the only verdict is "returned" versus "panicked".

func init() { subcmds["malformed"] = malformedCmd }

type MCase struct {
	Sub  string            `json:"sub"`
	Kind string            `json:"kind"`
	F    map[string]string `json:"f"`
	Pkg  string            `json:"pkg"`
}

func pe(names ...string) []*gpb.PathElem {
	var out []*gpb.PathElem
	for _, n := range names {
		name, keys := n, map[string]string(nil)
		if i := strings.Index(n, "["); i >= 0 {
			name = n[:i]
			keys = map[string]string{}
			for _, kv := range strings.Split(strings.Trim(n[i:], "[]"), "][") {
				k, v, _ := strings.Cut(kv, "=")
				keys[k] = v
			}
		}
		out = append(out, &gpb.PathElem{Name: name, Key: keys})
	}
	return out
}

// jsonPlacement gives the document prefix/suffix around the value for a node kind (package us).
var jsonPlacement = map[string][2]string{
	"container":         {`{"vf-tree:vt":{"t1":{"c":`, `}}}`},
	"presence":          {`{"vf-tree:vt":{"t1":{"c":{"p":`, `}}}}`},
	"list":              {`{"vf-tree:vt":{"t1":{"l":`, `}}}`},
	"ordered-list":      {`{"vf-tree:vt":{"t1":{"ol":`, `}}}`},
	"multikey-list":     {`{"vf-tree:vt":{"t1":{"m":`, `}}}`},
	"unkeyed-list":      {`{"vf-tree:vt":{"t1":{"st":{"ul":`, `}}}}`},
	"leaf-list":         {`{"vf-tree:vt":{"t1":{"c":{"ll":`, `}}}}`},
	"leaf-int":          {`{"vf-tree:vt":{"t1":{"c":{"b":`, `}}}}`},
	"leaf-int64":        {`{"vf-tree:vt":{"t3":{"c":{"a":`, `}}}}`},
	"leaf-string":       {`{"vf-tree:vt":{"t1":{"c":{"a":`, `}}}}`},
	"leaf-bool":         {`{"vf-tree:vt":{"t6":{"c":{"b":`, `}}}}`},
	"leaf-enum":         {`{"vf-tree:vt":{"t4":{"c":{"a":`, `}}}}`},
	"leaf-identityref":  {`{"vf-tree:vt":{"t4":{"c":{"b":`, `}}}}`},
	"leaf-union":        {`{"vf-tree:vt":{"t5":{"c":{"a":`, `}}}}`},
	"leaf-binary":       {`{"vf-tree:vt":{"t6":{"c":{"a":`, `}}}}`},
	"leaf-empty":        {`{"vf-tree:vt":{"t4":{"c":{"p":{"x":`, `}}}}}`},
	"leaf-decimal":      {`{"vf-tree:vt":{"t9":{"c":{"a":`, `}}}}`},
	"list-entry-member": {`{"vf-tree:vt":{"t1":{"l":[{"k":"a","v":`, `}]}}}`},
	"root":              {``, ``},
}

// placements in the compressed packages (vf-oc)
var jsonPlacementOC = map[string][2]string{
	"oc-list":          {`{"vf-oc:vo":{"o1":{"ls":{"l":`, `}}}}`},
	"oc-ordered-list":  {`{"vf-oc:vo":{"o1":{"ols":{"ol":`, `}}}}`},
	"oc-multikey-list": {`{"vf-oc:vo":{"o1":{"ms":{"m":`, `}}}}`},
}

var jsonValues = map[string]string{
	"null": `null`, "true": `true`, "number": `7`, "negative": `-7`, "fraction": `1.5`, "huge": `1e400`, "string": `"abc"`, "empty-string": `""`,
	"object": `{}`, "object-unknown-member": `{"zzz":1}`, "object-null-member": `{"a":null,"k":null}`, "object-nested-unknown": `{"c":{"zzz":{"y":[1]}},"sub":{"w":{"q":1}}}`,
	"array-empty": `[]`, "array-null": `[null]`, "array-number": `[1,2]`, "array-string": `["a","b"]`, "array-object": `[{"k":"a","k1":"a","k2":1,"u":"x","v":"x"}]`,
	"array-object-no-key": `[{"v":"x"}]`, "array-object-bad-key": `[{"k":{"x":1},"k1":[1],"k2":"zz"}]`, "array-object-dup-key": `[{"k":"a","k1":"a","k2":1},{"k":"a","k1":"a","k2":1}]`,
	"array-array": `[[1]]`, "array-mixed": `[1,"a",null,{}]`, "array-null-object": `[null,{"k":"a"}]`,
	"deep-nesting":                  strings.Repeat("[", 300) + strings.Repeat("]", 300),
	"array-object-key-twice-array":  `[{"k":["a"],"k1":["a"],"k2":[1],"config":{"k":["a"],"k1":["a"],"k2":[1]}}]`,
	"array-object-key-twice-object": `[{"k":{"x":1},"k1":{"x":1},"k2":{"x":1},"config":{"k":{"x":1},"k1":{"x":1},"k2":{"x":1}}}]`,
	"array-object-key-twice-differ": `[{"k":"a","k1":"a","k2":1,"config":{"k":"b","k1":"b","k2":2}}]`,
	"array-object-key-twice-null":   `[{"k":null,"k1":null,"k2":null,"config":{"k":"a","k1":"a","k2":1}}]`,
}

func init() {
	// "huge" must be valid JSON for the decoder of the harness too
	jsonValues["huge"] = `1e300`
}

func typedValueShape(s string) interface{} {
	switch s {
	case "nil":
		return (*gpb.TypedValue)(nil)
	case "nil-oneof":
		return &gpb.TypedValue{}
	case "string":
		return &gpb.TypedValue{Value: &gpb.TypedValue_StringVal{StringVal: "abc"}}
	case "int":
		return &gpb.TypedValue{Value: &gpb.TypedValue_IntVal{IntVal: -7}}
	case "uint-huge":
		return &gpb.TypedValue{Value: &gpb.TypedValue_UintVal{UintVal: math.MaxUint64}}
	case "double-nan":
		return &gpb.TypedValue{Value: &gpb.TypedValue_DoubleVal{DoubleVal: math.NaN()}}
	case "bytes-nil":
		return &gpb.TypedValue{Value: &gpb.TypedValue_BytesVal{BytesVal: nil}}
	case "leaflist-empty":
		return &gpb.TypedValue{Value: &gpb.TypedValue_LeaflistVal{LeaflistVal: &gpb.ScalarArray{}}}
	case "leaflist-nil-element":
		return &gpb.TypedValue{Value: &gpb.TypedValue_LeaflistVal{LeaflistVal: &gpb.ScalarArray{Element: []*gpb.TypedValue{nil, {}}}}}
	case "leaflist-mixed":
		return &gpb.TypedValue{Value: &gpb.TypedValue_LeaflistVal{LeaflistVal: &gpb.ScalarArray{Element: []*gpb.TypedValue{
			{Value: &gpb.TypedValue_StringVal{StringVal: "a"}}, {Value: &gpb.TypedValue_IntVal{IntVal: 1}}, {Value: &gpb.TypedValue_BoolVal{BoolVal: true}}}}}}
	case "leaflist-nested":
		inner := &gpb.TypedValue{Value: &gpb.TypedValue_LeaflistVal{LeaflistVal: &gpb.ScalarArray{Element: []*gpb.TypedValue{{Value: &gpb.TypedValue_StringVal{StringVal: "a"}}}}}}
		return &gpb.TypedValue{Value: &gpb.TypedValue_LeaflistVal{LeaflistVal: &gpb.ScalarArray{Element: []*gpb.TypedValue{inner}}}}
	case "json-ietf-bad":
		return &gpb.TypedValue{Value: &gpb.TypedValue_JsonIetfVal{JsonIetfVal: []byte(`{"a":`)}}
	case "json-ietf-array":
		return &gpb.TypedValue{Value: &gpb.TypedValue_JsonIetfVal{JsonIetfVal: []byte(`[1,{"k":"a"},null]`)}}
	case "json-ietf-object":
		return &gpb.TypedValue{Value: &gpb.TypedValue_JsonIetfVal{JsonIetfVal: []byte(`{"k":"a","v":[1],"zz":{"y":null}}`)}}
	case "json-ietf-null":
		return &gpb.TypedValue{Value: &gpb.TypedValue_JsonIetfVal{JsonIetfVal: []byte(`null`)}}
	case "json-val":
		return &gpb.TypedValue{Value: &gpb.TypedValue_JsonVal{JsonVal: []byte(`{"a":"x"}`)}}
	case "any-nil":
		return &gpb.TypedValue{Value: &gpb.TypedValue_AnyVal{AnyVal: (*anypb.Any)(nil)}}
	case "decimal-nil":
		return &gpb.TypedValue{Value: &gpb.TypedValue_DecimalVal{DecimalVal: nil}}
	case "ascii":
		return &gpb.TypedValue{Value: &gpb.TypedValue_AsciiVal{AsciiVal: "x"}}
	case "proto-bytes":
		return &gpb.TypedValue{Value: &gpb.TypedValue_ProtoBytes{ProtoBytes: []byte{1, 2}}}
	}
	return nil
}

func pathShape(s string) *gpb.Path {
	switch s {
	case "nil":
		return nil
	case "empty":
		return &gpb.Path{}
	case "nil-elem":
		return &gpb.Path{Elem: []*gpb.PathElem{{Name: "vt"}, nil}}
	case "empty-name":
		return &gpb.Path{Elem: []*gpb.PathElem{{Name: "vt"}, {Name: ""}}}
	case "unknown-node":
		return &gpb.Path{Elem: pe("vt", "t1", "nope", "deeper")}
	case "through-leaf":
		return &gpb.Path{Elem: pe("vt", "t1", "c", "a", "x")}
	case "through-leaflist":
		return &gpb.Path{Elem: pe("vt", "t1", "c", "ll", "x")}
	case "list-no-key":
		return &gpb.Path{Elem: pe("vt", "t1", "l")}
	case "list-missing-key":
		return &gpb.Path{Elem: []*gpb.PathElem{{Name: "vt"}, {Name: "t1"}, {Name: "l", Key: map[string]string{}}, {Name: "v"}}}
	case "list-extra-key":
		return &gpb.Path{Elem: pe("vt", "t1", "l[k=a][zz=b]", "v")}
	case "list-unknown-key":
		return &gpb.Path{Elem: pe("vt", "t1", "l[zz=b]", "v")}
	case "list-empty-key-value":
		return &gpb.Path{Elem: pe("vt", "t1", "l[k=]", "v")}
	case "list-wildcard":
		return &gpb.Path{Elem: pe("vt", "t1", "l[k=*]", "v")}
	case "list-bad-key-type":
		return &gpb.Path{Elem: pe("vt", "t2", "l[k=notanumber]", "v")}
	case "ordered-list-no-key":
		return &gpb.Path{Elem: pe("vt", "t1", "ol")}
	case "ordered-list-bad-key":
		return &gpb.Path{Elem: pe("vt", "t2", "ol[k=xyz]", "v")}
	case "multikey-one-key":
		return &gpb.Path{Elem: pe("vt", "t1", "m[k1=a]", "v")}
	case "unkeyed-list":
		return &gpb.Path{Elem: pe("vt", "t1", "st", "ul")}
	case "unkeyed-list-with-key":
		return &gpb.Path{Elem: pe("vt", "t1", "st", "ul[u=a]", "u")}
	case "leaf":
		return &gpb.Path{Elem: pe("vt", "t1", "c", "a")}
	case "leaf-with-key":
		return &gpb.Path{Elem: pe("vt", "t1", "c", "a[k=v]")}
	case "container":
		return &gpb.Path{Elem: pe("vt", "t1", "c")}
	case "root-origin":
		return &gpb.Path{Origin: "openconfig", Target: "dev", Elem: pe("vt")}
	case "element-form":
		return &gpb.Path{Element: []string{"vt", "t1", "c", "a"}}
	case "very-long":
		var names []string
		for i := 0; i < 300; i++ {
			names = append(names, "vt")
		}
		return &gpb.Path{Elem: pe(names...)}
	case "choice-name":
		return &gpb.Path{Elem: pe("vt", "t1", "case", "x")}
	case "module-prefixed":
		return &gpb.Path{Elem: pe("vf-tree:vt", "vf-tree:t1", "c", "vf-tree:a")}
	case "compressed-out-container":
		return &gpb.Path{Elem: pe("vo", "o1", "c", "config")}
	}
	return &gpb.Path{}
}

func populatedRoot(pkg *reg.Pkg) ygot.GoStruct {
	root := pkg.NewRoot()
	doc := `{"vf-tree:vt":{"t1":{"c":{"a":"x","ll":["p","q"]},"l":[{"k":"a","v":"1"}],"ol":[{"k":"a"},{"k":"b"}],"m":[{"k1":"a","k2":1}]},"t2":{"l":[{"k":1}],"ol":[{"k":5}]}}}`
	if pkg.Compressed {
		doc = `{"vf-oc:vo":{"o1":{"c":{"config":{"a":"x"}},"ls":{"l":[{"k":"a","config":{"k":"a","v":"1"}}]}}}}`
	}
	pkg.Unmarshal([]byte(doc), root)
	return root
}

func reqShape(s string) (*gpb.SetRequest, []*gpb.Notification) {
	leaf := &gpb.Path{Elem: pe("vt", "t1", "c", "a")}
	ll := &gpb.Path{Elem: pe("vt", "t1", "c", "ll")}
	sv := func(x string) *gpb.TypedValue { return &gpb.TypedValue{Value: &gpb.TypedValue_StringVal{StringVal: x}} }
	llv := func(xs ...string) *gpb.TypedValue {
		sa := &gpb.ScalarArray{}
		for _, x := range xs {
			sa.Element = append(sa.Element, sv(x))
		}
		return &gpb.TypedValue{Value: &gpb.TypedValue_LeaflistVal{LeaflistVal: sa}}
	}
	js := func(x string) *gpb.TypedValue {
		return &gpb.TypedValue{Value: &gpb.TypedValue_JsonIetfVal{JsonIetfVal: []byte(x)}}
	}
	switch s {
	case "nil":
		return nil, nil
	case "empty":
		return &gpb.SetRequest{}, []*gpb.Notification{{}}
	case "nil-prefix":
		return &gpb.SetRequest{Prefix: nil, Update: []*gpb.Update{{Path: leaf, Val: sv("x")}}}, []*gpb.Notification{{Prefix: nil, Update: []*gpb.Update{{Path: leaf, Val: sv("x")}}}}
	case "prefix-with-target":
		p := &gpb.Path{Target: "t", Origin: "o", Elem: pe("vt")}
		return &gpb.SetRequest{Prefix: p, Update: []*gpb.Update{{Path: &gpb.Path{Origin: "other", Elem: pe("t1", "c", "a")}, Val: sv("x")}}}, []*gpb.Notification{{Prefix: p, Update: []*gpb.Update{{Path: &gpb.Path{Elem: pe("t1", "c", "a")}, Val: sv("x")}}}}
	case "nil-delete-path":
		return &gpb.SetRequest{Delete: []*gpb.Path{nil, leaf}}, []*gpb.Notification{{Delete: []*gpb.Path{nil}}}
	case "nil-update":
		return &gpb.SetRequest{Update: []*gpb.Update{nil}, Replace: []*gpb.Update{nil}}, []*gpb.Notification{{Update: []*gpb.Update{nil}}}
	case "update-nil-path":
		return &gpb.SetRequest{Update: []*gpb.Update{{Path: nil, Val: sv("x")}}}, []*gpb.Notification{{Update: []*gpb.Update{{Path: nil, Val: sv("x")}}}}
	case "update-nil-val":
		return &gpb.SetRequest{Update: []*gpb.Update{{Path: leaf, Val: nil}}}, []*gpb.Notification{{Update: []*gpb.Update{{Path: leaf, Val: nil}}}}
	case "replace-nil-val":
		return &gpb.SetRequest{Replace: []*gpb.Update{{Path: &gpb.Path{Elem: pe("vt", "t1", "c")}, Val: nil}}}, nil
	case "duplicate-updates":
		return &gpb.SetRequest{Update: []*gpb.Update{{Path: leaf, Val: sv("x")}, {Path: leaf, Val: sv("x")}}}, []*gpb.Notification{{Update: []*gpb.Update{{Path: leaf, Val: sv("x")}, {Path: leaf, Val: sv("y")}}}}
	case "leaflist-twice":
		return &gpb.SetRequest{Update: []*gpb.Update{{Path: ll, Val: llv("a", "b")}, {Path: ll, Val: llv("a", "b")}}}, []*gpb.Notification{{Update: []*gpb.Update{{Path: ll, Val: llv("a")}, {Path: ll, Val: llv("a")}}}}
	case "leaflist-twice-different":
		return &gpb.SetRequest{Update: []*gpb.Update{{Path: ll, Val: llv("a", "b")}, {Path: ll, Val: llv("c")}}, Replace: []*gpb.Update{{Path: ll, Val: js(`["q"]`)}}}, []*gpb.Notification{{Update: []*gpb.Update{{Path: ll, Val: llv("a")}, {Path: ll, Val: js(`["z","y"]`)}}}}
	case "conflicting-replaces":
		c := &gpb.Path{Elem: pe("vt", "t1", "c")}
		return &gpb.SetRequest{Replace: []*gpb.Update{{Path: c, Val: js(`{"a":"x"}`)}, {Path: leaf, Val: sv("y")}, {Path: c, Val: js(`{}`)}}}, nil
	case "delete-root":
		return &gpb.SetRequest{Delete: []*gpb.Path{{}}}, []*gpb.Notification{{Atomic: true}}
	case "update-root-json":
		return &gpb.SetRequest{Update: []*gpb.Update{{Path: &gpb.Path{}, Val: js(`{"vf-tree:vt":{"t1":{"c":{"a":"x"}}}}`)}}}, []*gpb.Notification{{Update: []*gpb.Update{{Path: &gpb.Path{}, Val: js(`{"vf-tree:vt":{"t1":{"l":[{"k":"z"}]}}}`)}}}}
	case "update-root-bad-json":
		return &gpb.SetRequest{Update: []*gpb.Update{{Path: &gpb.Path{}, Val: js(`[1,2`)}}}, []*gpb.Notification{{Update: []*gpb.Update{{Path: &gpb.Path{}, Val: js(`{"vf-tree:vt":[1]}`)}}}}
	case "update-through-leaf":
		return &gpb.SetRequest{Update: []*gpb.Update{{Path: &gpb.Path{Elem: pe("vt", "t1", "c", "a", "b")}, Val: sv("x")}}}, []*gpb.Notification{{Update: []*gpb.Update{{Path: &gpb.Path{Elem: pe("vt", "t1", "c", "a", "b")}, Val: sv("x")}}}}
	case "update-unknown-node":
		return &gpb.SetRequest{Update: []*gpb.Update{{Path: &gpb.Path{Elem: pe("nope")}, Val: js(`{"a":[{"b":1}]}`)}}}, []*gpb.Notification{{Update: []*gpb.Update{{Path: &gpb.Path{Elem: pe("nope", "x[k=1]")}, Val: sv("x")}}}}
	case "element-paths":
		p := &gpb.Path{Element: []string{"vt", "t1", "c", "a"}}
		return &gpb.SetRequest{Prefix: &gpb.Path{Element: []string{"vt"}}, Update: []*gpb.Update{{Path: p, Val: sv("x")}}, Delete: []*gpb.Path{p}}, []*gpb.Notification{{Prefix: &gpb.Path{Element: []string{"vt"}}, Update: []*gpb.Update{{Path: p, Val: sv("x")}}}}
	case "mixed-origin":
		return &gpb.SetRequest{Prefix: &gpb.Path{Origin: "a"}, Update: []*gpb.Update{{Path: &gpb.Path{Origin: "b", Elem: pe("vt", "t1", "c", "a")}, Val: sv("x")}}}, []*gpb.Notification{{Prefix: &gpb.Path{Origin: "a"}, Update: []*gpb.Update{{Path: &gpb.Path{Origin: "b", Elem: pe("vt")}, Val: sv("x")}}}}
	case "notification-nil":
		return &gpb.SetRequest{}, []*gpb.Notification{nil}
	case "notification-nil-update":
		return &gpb.SetRequest{}, []*gpb.Notification{{Update: []*gpb.Update{nil, {Path: leaf}}}}
	case "notification-atomic-nil-prefix":
		return &gpb.SetRequest{}, []*gpb.Notification{{Atomic: true, Prefix: nil, Update: []*gpb.Update{{Path: leaf, Val: sv("x")}}}}
	case "notification-delete":
		return &gpb.SetRequest{Delete: []*gpb.Path{leaf}}, []*gpb.Notification{{Delete: []*gpb.Path{leaf}}}
	}
	return &gpb.SetRequest{}, nil
}

func runPathOp(op string, p *gpb.Path, val interface{}, root ygot.GoStruct, pkg *reg.Pkg) (string, error) {
	st, err := schemaTree(pkg)
	if err != nil {
		return "", err
	}
	sch := st[reflectName(root)]
	_, pan := guard(func() error {
		switch op {
		case "GetNode":
			_, err := ytypes.GetNode(sch, root, p)
			return err
		case "GetNode-partial":
			_, err := ytypes.GetNode(sch, root, p, &ytypes.GetPartialKeyMatch{})
			return err
		case "GetNode-wildcards":
			_, err := ytypes.GetNode(sch, root, p, &ytypes.GetHandleWildcards{})
			return err
		case "GetNode-tolerate-nil":
			_, err := ytypes.GetNode(sch, root, p, &ytypes.GetTolerateNil{}, &ytypes.GetPartialKeyMatch{})
			return err
		case "GetOrCreateNode":
			_, _, err := ytypes.GetOrCreateNode(sch, root, p)
			return err
		case "SetNode-typed":
			return ytypes.SetNode(sch, root, p, val, &ytypes.InitMissingElements{})
		case "SetNode-json":
			return ytypes.SetNode(sch, root, p, val, &ytypes.InitMissingElements{}, &ytypes.TolerateJSONInconsistencies{}, &ytypes.IgnoreExtraFields{})
		case "SetNode-nil":
			return ytypes.SetNode(sch, root, p, nil)
		case "SetNode-struct":
			return ytypes.SetNode(sch, root, p, pkg.NewRoot(), &ytypes.InitMissingElements{})
		case "DeleteNode":
			return ytypes.DeleteNode(sch, root, p)
		}
		return nil
	})
	return pan, nil
}

func malformedCmd(args []string) *rep.Result {
	fs := flag.NewFlagSet("malformed", flag.ExitOnError)
	var c common
	c.register(fs)
	strMax := fs.Int("strlen", 4, "maximal length of the strings fed to StringToPath")
	fuzzN := fs.Int("fuzz", 0, "number of byte-level mutations of well-formed documents and paths per package")
	fs.Parse(args)
	res := rep.New()
	defer func() { res.Write(c.out) }()
	pkgs := c.packages()
	if len(pkgs) == 0 {
		res.InfraErr("no package")
		return res
	}
	violate := func(kind string, f map[string]string, pkg *reg.Pkg, api, pan string) {
		sig := map[string]string{"conjunct": "panic", "api": api, "kind": kind}
		for k, v := range f {
			sig[k] = v
		}
		res.Violate("C20", sig, fmt.Sprintf("%s panicked on %v: %s", api, f, firstLine(pan)), &MCase{Sub: "malformed", Kind: kind, F: f, Pkg: pkg.Name})
	}
	run := func(kind string, f map[string]string, pkg *reg.Pkg) {
		switch kind {
		case "MJSON":
			pl, ok := jsonPlacement[f["n"]]
			if oc, isOC := jsonPlacementOC[f["n"]]; isOC {
				if !pkg.Compressed {
					return
				}
				pl = oc
			} else if !ok || pkg.Compressed {
				return
			}
			doc := []byte(pl[0] + jsonValues[f["v"]] + pl[1])
			for _, opts := range [][]ytypes.UnmarshalOpt{nil, {&ytypes.IgnoreExtraFields{}}, {&ytypes.BestEffortUnmarshal{}}} {
				for _, populated := range []bool{false, true} {
					root := pkg.NewRoot()
					if populated {
						root = populatedRoot(pkg)
					}
					if _, pan := guard(func() error { return pkg.Unmarshal(doc, root, opts...) }); pan != "" {
						violate(kind, f, pkg, "Unmarshal", pan)
					}
					res.Eval(1)
				}
			}
		case "MPATH":
			root := populatedRoot(pkg)
			pan, err := runPathOp(f["op"], pathShape(f["p"]), typedValueShape(f["val"]), root, pkg)
			if err != nil {
				res.InfraErr("%v", err)
				return
			}
			if pan != "" {
				violate(kind, f, pkg, f["op"], pan)
			}
			res.Eval(1)
		case "MSEQ":
			root := populatedRoot(pkg)
			for _, st := range [][2]string{{f["op1"], f["p1"]}, {f["op2"], f["p2"]}} {
				pan, _ := runPathOp(st[0], pathShape(st[1]), typedValueShape("string"), root, pkg)
				if pan != "" {
					violate(kind, f, pkg, st[0], pan)
				}
			}
			res.Eval(1)
		case "MREQ":
			req, notifs := reqShape(f["r"])
			st, _ := schemaTree(pkg)
			sch, _ := pkg.Schema()
			var pan string
			switch f["api"] {
			case "UnmarshalSetRequest":
				_, pan = guard(func() error {
					return ytypes.UnmarshalSetRequest(&ytypes.Schema{Root: populatedRoot(pkg), SchemaTree: st}, req)
				})
			case "UnmarshalSetRequest-best-effort":
				_, pan = guard(func() error {
					return ytypes.UnmarshalSetRequest(&ytypes.Schema{Root: populatedRoot(pkg), SchemaTree: st}, req, &ytypes.BestEffortUnmarshal{}, &ytypes.PreferShadowPath{})
				})
			case "UnmarshalNotifications":
				_, pan = guard(func() error {
					return ytypes.UnmarshalNotifications(&ytypes.Schema{Root: populatedRoot(pkg), SchemaTree: st}, notifs)
				})
			case "DiffSetRequest-schema":
				_, pan = guard(func() error { _, err := gnmidiff.DiffSetRequest(req, req, sch); return err })
			case "DiffSetRequest-noschema":
				_, pan = guard(func() error { _, err := gnmidiff.DiffSetRequest(req, &gpb.SetRequest{}, nil); return err })
			case "DiffSetRequestToNotifications-schema":
				_, pan = guard(func() error { _, err := gnmidiff.DiffSetRequestToNotifications(req, notifs, sch); return err })
			case "DiffSetRequestToNotifications-noschema":
				_, pan = guard(func() error { _, err := gnmidiff.DiffSetRequestToNotifications(req, notifs, nil); return err })
			}
			if pan != "" {
				violate(kind, f, pkg, f["api"], pan)
			}
			res.Eval(1)
		}
	}
	if c.caseFile != "" {
		var mc MCase
		if err := readJSONFile(c.caseFile, &mc); err != nil {
			res.InfraErr("case: %v", err)
			return res
		}
		if mc.Kind == "STR" {
			if _, pan := guard(func() error {
				_, err := ygot.StringToPath(mc.F["s"], ygot.StructuredPath, ygot.StringSlicePath)
				return err
			}); pan != "" {
				violate("STR", mc.F, reg.Get(mc.Pkg), "StringToPath", pan)
			}
			return res
		}
		run(mc.Kind, mc.F, reg.Get(mc.Pkg))
		return res
	}
	for _, in := range strings.Split(c.in, ",") {
		for _, kind := range []string{"MJSON", "MPATH", "MREQ", "MSEQ"} {
			lines, _ := readLines(in, kind)
			for _, l := range lines {
				f := map[string]string{}
				if err := json.Unmarshal([]byte(l), &f); err != nil {
					res.InfraErr("case %s: %v", l, err)
					return res
				}
				res.Distinct++
				for _, pkg := range pkgs {
					run(kind, f, pkg)
				}
			}
		}
	}
	// StringToPath over every string of the path alphabet up to the length bound
	sigma := []string{"a", "/", "[", "]", "=", "\\", " ", "é"}
	cur := []string{""}
	for n := 1; n <= *strMax; n++ {
		var next []string
		for _, p := range cur {
			for _, s := range sigma {
				next = append(next, p+s)
			}
		}
		for _, s := range next {
			for _, pre := range []string{"", "/a"} {
				str := pre + s
				if _, pan := guard(func() error {
					_, err := ygot.StringToPath(str, ygot.StructuredPath, ygot.StringSlicePath)
					return err
				}); pan != "" {
					violate("STR", map[string]string{"s": str}, pkgs[0], "StringToPath", pan)
				}
				res.Eval(1)
			}
		}
		cur = next
	}
	// byte-level mutation of well-formed inputs (sampled; the seed makes it reproducible): the
	// grid above is exhaustive over shapes, this covers bytes the shapes do not name
	if *fuzzN > 0 {
		rng := rand.New(rand.NewSource(c.seed))
		structural := []byte(`{}[]",:\/= *0-.enulltrue`)
		mutate := func(b []byte) []byte {
			out := append([]byte(nil), b...)
			for k := 1 + rng.Intn(3); k > 0 && len(out) > 0; k-- {
				i := rng.Intn(len(out))
				switch rng.Intn(5) {
				case 0:
					out = append(out[:i], out[i+1:]...)
				case 1:
					out = append(out[:i], append([]byte{structural[rng.Intn(len(structural))]}, out[i:]...)...)
				case 2:
					out[i] = structural[rng.Intn(len(structural))]
				case 3:
					j := rng.Intn(len(out))
					out[i], out[j] = out[j], out[i]
				default:
					out = out[:i]
				}
			}
			return out
		}
		for _, pkg := range pkgs {
			root := populatedRoot(pkg)
			good, err := ygot.Marshal7951(root, &ygot.RFC7951JSONConfig{AppendModuleName: true})
			if err != nil {
				continue
			}
			sch, _ := pkg.Schema()
			var paths []string
			if ns, err := ygot.TogNMINotifications(root, 1, ygot.GNMINotificationsConfig{UsePathElem: true}); err == nil {
				for _, n := range ns {
					for _, u := range n.Update {
						if ps, err := ygot.PathToString(&gpb.Path{Elem: append(append([]*gpb.PathElem{}, n.GetPrefix().GetElem()...), u.Path.GetElem()...)}); err == nil {
							paths = append(paths, ps)
						}
					}
				}
			}
			for i := 0; i < *fuzzN; i++ {
				doc := mutate(good)
				for _, opts := range [][]ytypes.UnmarshalOpt{nil, {&ytypes.IgnoreExtraFields{}}} {
					if _, pan := guard(func() error { return pkg.Unmarshal(doc, populatedRoot(pkg), opts...) }); pan != "" {
						violate("FUZZ", map[string]string{"api": "Unmarshal", "doc": string(doc)}, pkg, "Unmarshal", pan)
					}
				}
				res.Eval(1)
				res.Count("fuzz_documents", 1)
				if len(paths) == 0 || sch == nil {
					continue
				}
				ps := string(mutate([]byte(paths[rng.Intn(len(paths))])))
				var gp *gpb.Path
				if _, pan := guard(func() error {
					var err error
					gp, err = ygot.StringToStructuredPath(ps)
					return err
				}); pan != "" {
					violate("FUZZ", map[string]string{"api": "StringToStructuredPath", "s": ps}, pkg, "StringToStructuredPath", pan)
					continue
				}
				res.Count("fuzz_paths", 1)
				if gp == nil {
					continue
				}
				r := populatedRoot(pkg)
				val := &gpb.TypedValue{Value: &gpb.TypedValue_JsonIetfVal{JsonIetfVal: mutate([]byte(`{"a":"x","k":"a","v":1}`))}}
				for _, f := range []struct {
					api string
					f   func() error
				}{
					{"GetNode", func() error {
						_, err := ytypes.GetNode(sch.RootSchema(), r, gp, &ytypes.GetHandleWildcards{}, &ytypes.GetPartialKeyMatch{})
						return err
					}},
					{"SetNode", func() error { return ytypes.SetNode(sch.RootSchema(), r, gp, val, &ytypes.InitMissingElements{}) }},
					{"GetOrCreateNode", func() error { _, _, err := ytypes.GetOrCreateNode(sch.RootSchema(), r, gp); return err }},
					{"DeleteNode", func() error { return ytypes.DeleteNode(sch.RootSchema(), r, gp) }},
				} {
					if _, pan := guard(f.f); pan != "" {
						violate("FUZZ", map[string]string{"api": f.api, "s": ps}, pkg, f.api, pan)
					}
				}
			}
		}
	}
	if res.Distinct == 0 {
		res.InfraErr("malformed: no cases in %s", c.in)
	}
	return res
}
