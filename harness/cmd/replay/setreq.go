package main

import (
	"encoding/json"
	"flag"
	"fmt"
	"os"
	"sort"
	"strings"
	"sync"

	gpb "github.com/openconfig/gnmi/proto/gnmi"
	"github.com/openconfig/goyang/pkg/yang"
	"github.com/openconfig/ygot/ytypes"
	"google.golang.org/protobuf/proto"

	"verif/harness/internal/abs"
	"verif/harness/internal/conc"
	"verif/harness/internal/reg"
	"verif/harness/internal/rep"
)

func init() { subcmds["setreq"] = setreqCmd }

// ReqOp is one operation of an emitted request.
type ReqOp struct {
	K   string          `json:"k"`
	P   []string        `json:"p"`
	T   string          `json:"t"`
	V   json.RawMessage `json:"v"`
	Doc conc.ATree      `json:"doc"`
}

// ReqEdge is a completed request printed by GnmiSet.Emit.
type ReqEdge struct {
	Op   string     `json:"op"`
	Req  []ReqOp    `json:"req"`
	Pre  conc.ATree `json:"pre"`
	Post conc.ATree `json:"post"`
}

// ReqCase is the replayable case.
type ReqCase struct {
	Sub     string   `json:"sub"`
	Edge    *ReqEdge `json:"edge"`
	Pkg     string   `json:"pkg"`
	Variant string   `json:"variant"`
	Seed    int64    `json:"seed"`
	Mode    string   `json:"mode"` // setreq | notif | unmarshal | unmarshal-extra | unmarshal-extra-ignored
}

var (
	stMu    sync.Mutex
	stCache = map[string]map[string]*yang.Entry{}
)

func schemaTree(pkg *reg.Pkg) (map[string]*yang.Entry, error) {
	stMu.Lock()
	defer stMu.Unlock()
	if s, ok := stCache[pkg.Name]; ok {
		return s, nil
	}
	sch, err := pkg.Schema()
	if err != nil {
		return nil, err
	}
	stCache[pkg.Name] = sch.SchemaTree
	return sch.SchemaTree, nil
}

func setreqCmd(args []string) *rep.Result {
	fs := flag.NewFlagSet("setreq", flag.ExitOnError)
	var c common
	c.register(fs)
	modes := fs.String("modes", "setreq", "replay modes")
	fs.Parse(args)
	res := rep.New()
	defer func() { res.Write(c.out) }()
	cp, err := conc.Load(c.corpus)
	if err != nil {
		res.InfraErr("corpus: %v", err)
		return res
	}
	if c.caseFile != "" {
		b, err := os.ReadFile(c.caseFile)
		if err != nil {
			res.InfraErr("case: %v", err)
			return res
		}
		var rc ReqCase
		if err := json.Unmarshal(b, &rc); err != nil {
			res.InfraErr("case: %v", err)
			return res
		}
		runReq(rc.Edge, reg.Get(rc.Pkg), &conc.Ctx{C: cp, V: cp.Variants[rc.Variant], Seed: rc.Seed}, rc.Mode, res)
		return res
	}
	lines, err := readLines(c.in, "REQ")
	if err != nil {
		res.InfraErr("requests: %v", err)
		return res
	}
	if len(lines) == 0 {
		res.InfraErr("no requests in %s", c.in)
		return res
	}
	type job struct {
		s    int64 // concretisation seed of the case
		e    *ReqEdge
		pkg  *reg.Pkg
		v    string
		mode string
	}
	jobs := make(chan job, 1024)
	var wg sync.WaitGroup
	for i := 0; i < c.workers; i++ {
		wg.Add(1)
		go func() {
			defer wg.Done()
			for j := range jobs {
				safely(res, "setreq", &ReqCase{Sub: "setreq", Edge: j.e, Pkg: j.pkg.Name, Variant: j.v, Seed: j.s, Mode: j.mode}, func() {
					runReq(j.e, j.pkg, &conc.Ctx{C: cp, V: cp.Variants[j.v], Seed: j.s}, j.mode, res)
				})
			}
		}()
	}
	for i, l := range lines {
		e := &ReqEdge{}
		if err := json.Unmarshal([]byte(l), e); err != nil {
			res.InfraErr("request: %v", err)
			break
		}
		res.Distinct++
		for _, pkg := range c.packages() {
			for vi, v := range c.variantsFor(cp, pkg) {
				if c.limit > 0 && (i+vi+int(c.seed))%c.limit != 0 {
					continue
				}
				for _, m := range strings.Split(*modes, ",") {
					if strings.HasPrefix(m, "unmarshal") && !(len(e.Req) == 1 && e.Req[0].K == "upd" && e.Req[0].T == "json" && len(e.Req[0].P) == 0) {
						continue
					}
					if strings.HasPrefix(m, "setreq-extra") && !(len(e.Req) == 1 && e.Req[0].K == "upd" && e.Req[0].T == "json" && len(e.Req[0].P) > 0) {
						continue
					}
					jobs <- job{s: c.seed + int64(i%13), e: e, pkg: pkg, v: v, mode: m}
				}
			}
		}
	}
	close(jobs)
	wg.Wait()
	return res
}

func reqSig(prop, conjunct string, e *ReqEdge, pkg *reg.Pkg, x *conc.Ctx, mode string) map[string]string {
	var kinds, targets, types, keytypes []string
	for _, o := range e.Req {
		kinds = append(kinds, o.K+":"+o.T)
		var names []string
		for _, s := range o.P {
			if !(len(s) >= 2 && s[0] == 'K') {
				names = append(names, s)
			}
		}
		targets = append(targets, strings.Join(names, "/"))
		kt, lt := typeClass(x, o.P)
		types = append(types, kt+"|"+lt)
		if kt != "" {
			keytypes = append(keytypes, kt)
		}
	}
	sig := map[string]string{"conjunct": conjunct, "ops": strings.Join(kinds, ","), "targets": strings.Join(targets, ","), "types": strings.Join(types, ","), "keytypes": strings.Join(keytypes, ","), "mode": mode}
	if pkg.Compressed {
		sig["compressed"] = "true"
	}
	for _, o := range e.Req {
		if o.T == "json" {
			sig["has_json"] = "true"
		}
	}
	if !pkg.SimpleUnion && touchesUnionKeyedList(e, x) {
		sig["wrapper_union_key"] = "true"
	}
	return sig
}

// touchesUnionKeyedList reports whether the request or the pre-state involves a list whose
// key is a union in this variant (wrapper unions as map keys compare by pointer identity).
func touchesUnionKeyedList(e *ReqEdge, x *conc.Ctx) bool {
	lists := map[string]bool{}
	note := func(p []string) {
		pos := ""
		for _, s := range p {
			if len(s) >= 2 && s[0] == 'K' {
				continue
			}
			if pos == "" {
				pos = s
			} else {
				pos += "/" + s
			}
			if _, ok := x.C.Lists[pos]; ok {
				lists[pos] = true
			}
		}
	}
	scan := func(a *conc.ATree) {
		for _, rs := range [][]json.RawMessage{a.En, a.Oe} {
			for _, r := range rs {
				var raw []json.RawMessage
				var p []string
				if json.Unmarshal(r, &raw) == nil && len(raw) == 2 && json.Unmarshal(raw[0], &p) == nil {
					note(p)
				}
			}
		}
	}
	scan(&e.Pre)
	for i := range e.Req {
		note(e.Req[i].P)
		scan(&e.Req[i].Doc)
	}
	for l := range lists {
		for _, kn := range x.C.Lists[l] {
			if t := x.TypeAt(l + "/" + kn); strings.HasPrefix(t, "u-") {
				return true
			}
		}
	}
	return false
}

// buildUpdate turns a write operation into a gNMI Update with an absolute path.
func buildUpdate(o *ReqOp, x *conc.Ctx, pkg *reg.Pkg, jsonScalars bool) (*gpb.Update, error) {
	path, err := x.GNMIPath(o.P, pkg)
	if err != nil {
		return nil, err
	}
	u := &gpb.Update{Path: path}
	switch o.T {
	case "leaf":
		steps, _ := x.Resolve(o.P)
		pos := steps[len(steps)-1].Pos
		var a string
		json.Unmarshal(o.V, &a)
		cv, err := x.Value(pos, a)
		if err != nil {
			return nil, err
		}
		if jsonScalars {
			u.Val = conc.JSONIETF(conc.JSONValue(cv, x.TypeAt(pos)))
		} else {
			u.Val = conc.TypedValue(cv, x.TypeAt(pos))
		}
	case "ll":
		steps, _ := x.Resolve(o.P)
		pos := steps[len(steps)-1].Pos
		var as []string
		json.Unmarshal(o.V, &as)
		var cvs []string
		js := []interface{}{}
		for _, a := range as {
			cv, err := x.Value(pos, a)
			if err != nil {
				return nil, err
			}
			cvs = append(cvs, cv)
			js = append(js, conc.JSONValue(cv, x.TypeAt(pos)))
		}
		if jsonScalars {
			u.Val = conc.JSONIETF(js)
		} else {
			u.Val = conc.LeafListValue(cvs, x.TypeAt(pos))
		}
	case "json":
		dt, err := x.Tree(&o.Doc)
		if err != nil {
			return nil, err
		}
		at, err := x.AbsPath(o.P)
		if err != nil {
			return nil, err
		}
		u.Val = conc.JSONIETF(x.RenderJSON(dt, at, pkg, conc.JSONOpts{ModulePrefix: x.Seed%2 == 1}))
	default:
		return nil, fmt.Errorf("payload kind %q", o.T)
	}
	return u, nil
}

// splitPrefix moves the first n elements common to all paths of the request into a prefix.
func splitPrefix(req *gpb.SetRequest, n int) {
	var all []*gpb.Path
	for _, d := range req.Delete {
		all = append(all, d)
	}
	for _, u := range req.Replace {
		all = append(all, u.Path)
	}
	for _, u := range req.Update {
		all = append(all, u.Path)
	}
	if len(all) == 0 {
		return
	}
	common := len(all[0].Elem)
	for _, p := range all[1:] {
		i := 0
		for i < common && i < len(p.Elem) && proto.Equal(p.Elem[i], all[0].Elem[i]) {
			i++
		}
		common = i
	}
	if n > common {
		n = common
	}
	if n == 0 {
		return
	}
	req.Prefix = &gpb.Path{Elem: append([]*gpb.PathElem{}, all[0].Elem[:n]...)}
	for _, p := range all {
		p.Elem = p.Elem[n:]
	}
}

func runReq(e *ReqEdge, pkg *reg.Pkg, x *conc.Ctx, mode string, res *rep.Result) {
	rc := &ReqCase{Sub: "setreq", Edge: e, Pkg: pkg.Name, Variant: x.V.Name, Seed: x.Seed, Mode: mode}
	skip := func(err error) bool {
		if _, ok := err.(conc.ErrNoValue); ok {
			res.Skip(1)
			return true
		}
		res.InfraErr("concretise: %v", err)
		return true
	}
	pre, err := x.Tree(&e.Pre)
	if err != nil {
		skip(err)
		return
	}
	exp, err := x.Tree(&e.Post)
	if err != nil {
		skip(err)
		return
	}
	root := pkg.NewRoot()
	if err := abs.Build(pre, root, pkg); err != nil {
		res.InfraErr("build: %v", err)
		return
	}
	st, err := schemaTree(pkg)
	if err != nil {
		res.InfraErr("schema: %v", err)
		return
	}
	exp = conc.Restrict(exp, x.V)
	// a second tree whose leaves share their storage with root's (abs.StorageTwin): whatever the
	// request does to root, it must replace leaf storage, never write through it
	tw := abs.StorageTwin(root)
	twPre := conc.Restrict(abs.Project(tw, pkg), x.V)
	var callErr error
	var pan string
	desc := ""
	switch {
	case (mode == "setreq" || mode == "notif") && len(e.Req) > 0 && e.Req[0].K == "adel":
		// an atomic Notification: everything at the prefix is replaced by the updates
		pfx, err := x.GNMIPath(e.Req[0].P, pkg)
		if err != nil {
			skip(err)
			return
		}
		n := &gpb.Notification{Timestamp: 42, Atomic: true, Prefix: pfx}
		for i := 1; i < len(e.Req); i++ {
			u, err := buildUpdate(&e.Req[i], x, pkg, (x.Seed+int64(i))%3 == 0)
			if err != nil {
				skip(err)
				return
			}
			if len(u.Path.Elem) < len(pfx.Elem) {
				res.InfraErr("atomic update above its prefix")
				return
			}
			for j := range pfx.Elem {
				if !proto.Equal(pfx.Elem[j], u.Path.Elem[j]) {
					res.InfraErr("atomic update %v not below prefix %v", u.Path, pfx)
					return
				}
			}
			u.Path = &gpb.Path{Elem: u.Path.Elem[len(pfx.Elem):]}
			n.Update = append(n.Update, u)
		}
		before := proto.Clone(n)
		desc = "atomic " + compactProto(n)
		sch := &ytypes.Schema{Root: root, SchemaTree: st}
		callErr, pan = guard(func() error { return ytypes.UnmarshalNotifications(sch, []*gpb.Notification{n}) })
		if !proto.Equal(before, n) {
			res.Violate("C11", reqSig("C11", "notification-mutated", e, pkg, x, mode), "UnmarshalNotifications modified the notification: before "+compactProto(before)+" after "+compactProto(n), rc)
		}
	case mode == "setreq" || mode == "notif" || strings.HasPrefix(mode, "setreq-extra") || mode == "setreq-besteffort":
		if mode == "setreq-besteffort" && len(e.Req) > 0 && e.Req[0].K == "adel" {
			res.Skip(1)
			return
		}
		req := &gpb.SetRequest{}
		for i := range e.Req {
			o := &e.Req[i]
			if o.K == "del" {
				p, err := x.GNMIPath(o.P, pkg)
				if err != nil {
					skip(err)
					return
				}
				req.Delete = append(req.Delete, p)
				continue
			}
			u, err := buildUpdate(o, x, pkg, (x.Seed+int64(i))%3 == 0)
			if err != nil {
				skip(err)
				return
			}
			if o.K == "rep" {
				req.Replace = append(req.Replace, u)
			} else {
				req.Update = append(req.Update, u)
			}
		}
		var sopts []ytypes.UnmarshalOpt
		if strings.HasPrefix(mode, "setreq-extra") {
			// an unknown member in the JSON payload addressed to a container / list entry / the root
			for _, u := range req.Update {
				var doc interface{}
				if json.Unmarshal(u.Val.GetJsonIetfVal(), &doc) != nil {
					continue
				}
				if _, isObj := doc.(map[string]interface{}); !isObj {
					res.Skip(1)
					return
				}
				addUnknown(doc, x.Seed)
				if (x.Seed/3)%2 == 1 {
					prefixAll(doc, x.V.Module)
				}
				b, _ := json.Marshal(doc)
				u.Val = &gpb.TypedValue{Value: &gpb.TypedValue_JsonIetfVal{JsonIetfVal: b}}
			}
			if mode == "setreq-extra-ignored" {
				sopts = append(sopts, &ytypes.IgnoreExtraFields{})
			}
		}
		if mode == "setreq-besteffort" {
			// extension: one operation that cannot be applied (a node the schema does not have, or a
			// value of the wrong type for an existing leaf) among the valid ones; with
			// BestEffortUnmarshal every other operation takes effect and an error is returned
			var pre []*gpb.PathElem
			for _, n := range x.V.Prefix() {
				pre = append(pre, &gpb.PathElem{Name: n})
			}
			bad := &gpb.Update{Path: &gpb.Path{Elem: append(pre, &gpb.PathElem{Name: "no-such-node"})}, Val: &gpb.TypedValue{Value: &gpb.TypedValue_StringVal{StringVal: "x"}}}
			// (as a replace the wrongly typed value would first delete the container it addresses: a
			// partial effect of the bad operation itself; it is therefore only used as an update)
			if x.Seed%2 == 0 && x.Seed%3 != 2 {
				if cp, err := x.GNMIPath([]string{"c"}, pkg); err == nil {
					bad = &gpb.Update{Path: cp, Val: &gpb.TypedValue{Value: &gpb.TypedValue_BoolVal{BoolVal: true}}} // a scalar for a container
				}
			}
			switch x.Seed % 3 {
			case 0:
				req.Update = append([]*gpb.Update{bad}, req.Update...)
			case 1:
				req.Update = append(req.Update, bad)
			default:
				req.Replace = append([]*gpb.Update{bad}, req.Replace...)
			}
			sopts = append(sopts, &ytypes.BestEffortUnmarshal{})
		}
		splitPrefix(req, int(x.Seed%4))
		before := proto.Clone(req)
		desc = compactProto(req)
		sch := &ytypes.Schema{Root: root, SchemaTree: st}
		callErr, pan = guard(func() error { return ytypes.UnmarshalSetRequest(sch, req, sopts...) })
		if !proto.Equal(before, req) {
			res.Violate("C11", reqSig("C11", "setrequest-mutated", e, pkg, x, mode), "UnmarshalSetRequest modified the request: before "+compactProto(before)+" after "+compactProto(req), rc)
		}
	case strings.HasPrefix(mode, "unmarshal"):
		o := &e.Req[0]
		dt, err := x.Tree(&o.Doc)
		if err != nil {
			skip(err)
			return
		}
		doc := x.RenderJSON(dt, nil, pkg, conc.JSONOpts{ModulePrefix: x.Seed%2 == 0})
		var opts []ytypes.UnmarshalOpt
		if mode != "unmarshal" {
			addUnknown(doc, x.Seed)
			if (x.Seed/3)%2 == 1 {
				prefixAll(doc, x.V.Module)
			}
			if mode == "unmarshal-extra-ignored" {
				opts = append(opts, &ytypes.IgnoreExtraFields{})
			}
		}
		b, _ := json.Marshal(doc)
		desc = string(b)
		callErr, pan = guard(func() error { return pkg.Unmarshal(b, root, opts...) })
	default:
		res.InfraErr("mode %q", mode)
		return
	}
	got := conc.Restrict(abs.Project(root, pkg), x.V)
	res.Eval(1)
	res.Count("mode_"+mode, 1)
	if res.Evaluated%199 == 0 {
		res.Sample(map[string]interface{}{"pkg": pkg.Name, "variant": x.V.Name, "mode": mode, "input": desc, "pre": conc.Restrict(pre, x.V).Lines(), "post": got.Lines()})
	}
	prop := "C13"
	if strings.HasPrefix(mode, "unmarshal") || strings.HasPrefix(mode, "setreq-extra") {
		prop = "C31"
	}
	if pan != "" {
		res.Violate("C20", reqSig("C20", "panic", e, pkg, x, mode), "panic: "+firstLine(pan)+" on "+desc, rc)
		return
	}
	if d := abs.Diff(conc.Restrict(abs.Project(tw, pkg), x.V), twPre, false); len(d) > 0 {
		res.Violate(prop, reqSig(prop, "frame-shared-storage", e, pkg, x, mode),
			"the call wrote through existing leaf storage: the leaves of a tree sharing that storage changed: "+strings.Join(d, "; ")+" on "+desc, rc)
		return
	}
	if mode == "setreq-besteffort" {
		res.Count("besteffort_requests", 1)
		for _, t := range []*abs.Tree{got, exp} {
			for k, v := range t.LL {
				if len(v) == 0 {
					delete(t.LL, k)
				}
			}
		}
		switch {
		case callErr == nil:
			res.Count("besteffort_no_error", 1)
			res.DriftNote("EXT besteffort: UnmarshalSetRequest(BestEffortUnmarshal) returns no error although one operation cannot be applied")
		case len(abs.Diff(got, exp, false)) > 0 && !pkg.SimpleUnion && touchesUnionKeyedList(e, x):
			res.Count("besteffort_wrapper_union_key_known_finding", 1)
		case len(abs.Diff(got, exp, false)) > 0:
			res.Count("besteffort_result_differs", 1)
			res.DriftNote(fmt.Sprintf("EXT besteffort: the valid operations of a request with one bad operation (position %d) did not all take effect: %s", x.Seed%3, abstractDiff(abs.Diff(got, exp, false))))
			if !(!pkg.SimpleUnion && touchesUnionKeyedList(e, x)) {
				res.Sample(map[string]interface{}{"ext": "besteffort", "pkg": pkg.Name, "variant": x.V.Name, "request": desc, "diff": abs.Diff(got, exp, false), "err": firstLine(callErr.Error())})
			}
		default:
			res.Count("besteffort_agree", 1)
			if _, ok := callErr.(*ytypes.ComplianceErrors); !ok {
				res.DriftNote(fmt.Sprintf("EXT besteffort: the error is a %T, not *ytypes.ComplianceErrors", callErr))
			}
		}
		return
	}
	if mode == "unmarshal-extra" || mode == "setreq-extra" {
		// unknown members without IgnoreExtraFields must be an error
		if callErr == nil {
			res.Violate("C31", reqSig("C31", "unknown-member-accepted", e, pkg, x, mode), mode+" accepted a document with an unknown member: "+desc, rc)
		}
		return
	}
	if callErr != nil {
		res.Violate(prop, reqSig(prop, "rejected", e, pkg, x, mode), fmt.Sprintf("%s returned an error on a valid input %s: %v", mode, desc, callErr), rc)
		return
	}
	// an empty leaf-list holds no data: present-but-empty and absent are the same observation
	for _, t := range []*abs.Tree{got, exp} {
		for k, v := range t.LL {
			if len(v) == 0 {
				delete(t.LL, k)
			}
		}
	}
	if d := abs.Diff(got, exp, false); len(d) > 0 {
		res.Violate(prop, reqSig(prop, "result", e, pkg, x, mode), fmt.Sprintf("after %s %s the tree differs from the reference semantics: %s", mode, desc, strings.Join(d, "; ")), rc)
		return
	}
	if d := abs.Diff(got, exp, true); len(d) > 0 {
		res.DriftNote("containers after " + mode + " differ from the operational model: " + strings.Join(d, "; "))
	}
}

// addUnknown inserts an unknown member into the top-level object of the document (and,
// depending on the seed, one level further down).
func addUnknown(doc interface{}, seed int64) {
	m, ok := doc.(map[string]interface{})
	if !ok {
		return
	}
	switch seed % 3 {
	case 0:
		// one level down
		for _, k := range sortedKeys(m) {
			if inner, ok := m[k].(map[string]interface{}); ok {
				inner["no-such-node"] = "x"
				return
			}
		}
	case 1:
		// as deep as objects go (list entries included)
		cur := m
		for {
			var next map[string]interface{}
			for _, k := range sortedKeys(cur) {
				switch v := cur[k].(type) {
				case map[string]interface{}:
					next = v
				case []interface{}:
					if len(v) > 0 {
						if e, ok := v[0].(map[string]interface{}); ok {
							next = e
						}
					}
				}
				if next != nil {
					break
				}
			}
			if next == nil {
				break
			}
			cur = next
		}
		cur["no-such-node"] = "x"
		return
	}
	m["no-such-node"] = map[string]interface{}{"y": 1}
}

func sortedKeys(m map[string]interface{}) []string {
	var ks []string
	for k := range m {
		ks = append(ks, k)
	}
	sort.Strings(ks)
	return ks
}

// prefixAll gives every member name that has no module prefix the prefix of the module (RFC 7951
// allows the prefix on every member; it is only REQUIRED where the module changes).
func prefixAll(doc interface{}, module string) {
	switch v := doc.(type) {
	case map[string]interface{}:
		for _, k := range sortedKeys(v) {
			prefixAll(v[k], module)
			if !strings.Contains(k, ":") && k != "no-such-node" {
				v[module+":"+k] = v[k]
				delete(v, k)
			}
		}
	case []interface{}:
		for _, e := range v {
			prefixAll(e, module)
		}
	}
}

func compactProto(m proto.Message) string {
	s := fmt.Sprint(m)
	if len(s) > 700 {
		s = s[:700] + "..."
	}
	return s
}
