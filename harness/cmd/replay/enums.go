package main

import (
	"encoding/json"
	"flag"
	"fmt"
	"os"
	"reflect"
	"sort"
	"strings"

	gpb "github.com/openconfig/gnmi/proto/gnmi"
	"github.com/openconfig/goyang/pkg/yang"
	"github.com/openconfig/ygot/ygot"
	"github.com/openconfig/ygot/ytypes"

	"verif/harness/internal/abs"
	"verif/harness/internal/conc"
	"verif/harness/internal/reg"
	"verif/harness/internal/rep"
)

// Recorder for C17: for every generated enumerated type it writes the generated name table, the
// names goyang finds in the schema, and what render / parse did for every defined value, the
// zero value and undefined values, as ndjson records that TLC validates against EnumMap.tla.

func init() { subcmds["enums"] = enumsCmd }

type EnumEntry struct {
	V    string `json:"v"`
	Name string `json:"name"`
}

type EnumObs struct {
	V      string `json:"v"`
	Cls    string `json:"cls"`
	JSON   string `json:"json"`
	Back   string `json:"back"`
	TV     string `json:"tv"`
	TVBack string `json:"tvback"`
	EName  string `json:"ename"`
}

type EnumRec struct {
	Pkg     string      `json:"pkg"`
	Type    string      `json:"type"`
	Entries []EnumEntry `json:"entries"`
	Schema  []string    `json:"schema"`
	Obs     []EnumObs   `json:"obs"`
	Site    string      `json:"site"`
}

// schemaEnums parses the corpus with goyang and returns the names of every enumeration typedef
// and of the identities derived from every base, keyed by the lower-cased type / base name.
func schemaEnums(dir string, mods []string) (map[string][]string, error) {
	ms := yang.NewModules()
	ms.AddPath(dir)
	for _, m := range mods {
		if err := ms.Read(m); err != nil {
			return nil, err
		}
	}
	if errs := ms.Process(); len(errs) > 0 {
		return nil, fmt.Errorf("goyang: %v", errs)
	}
	out := map[string][]string{}
	for _, m := range ms.Modules {
		for _, td := range m.Typedef {
			if td.Type != nil && td.Type.YangType != nil && td.Type.YangType.Kind == yang.Yenum {
				out[strings.ToLower(td.Name)] = td.Type.YangType.Enum.Names()
			}
		}
		for _, id := range m.Identities() {
			var names []string
			for _, v := range id.Values {
				names = append(names, v.Name)
			}
			if len(names) > 0 {
				sort.Strings(names)
				out[strings.ToLower(id.Name)] = names
			}
		}
	}
	return out, nil
}

// stripMod removes a module-name prefix ("vf-ids:SQUARE"); a colon that belongs to the name itself
// (the enumeration member "1:N") is kept.
func stripMod(s string) string {
	if i := strings.Index(s, ":"); i >= 0 && strings.HasPrefix(s, "vf-") {
		return s[i+1:]
	}
	return s
}

func jsonAt(doc interface{}, p *gpb.Path) (interface{}, bool) {
	cur := doc
	for _, e := range p.Elem {
		m, ok := cur.(map[string]interface{})
		if !ok {
			return nil, false
		}
		found := false
		for k, v := range m {
			if stripMod(k) == e.Name {
				cur, found = v, true
				break
			}
		}
		if !found {
			return nil, false
		}
	}
	return cur, true
}

func enumsCmd(args []string) *rep.Result {
	fs := flag.NewFlagSet("enums", flag.ExitOnError)
	var c common
	c.register(fs)
	schemaDir := fs.String("schemas", "../schemas", "directory of the corpus modules")
	fs.Parse(args)
	res := rep.New()
	defer func() { res.Write(c.out) }()
	cp, err := conc.Load(c.corpus)
	if err != nil {
		res.InfraErr("corpus: %v", err)
		return res
	}
	want, err := schemaEnums(*schemaDir, []string{"vf-tree.yang", "vf-oc.yang", "vf-ids.yang"})
	if err != nil {
		res.InfraErr("%v", err)
		return res
	}
	f, err := os.Create(c.in)
	if err != nil {
		res.InfraErr("%v", err)
		return res
	}
	defer f.Close()
	for _, pkg := range c.packages() {
		done := map[string]bool{}
		for _, typ := range []string{"enum", "idref", "u-eu"} {
			for _, site := range leafSites(cp, pkg, typ) {
				rec := recordEnum(cp, pkg, site[0], site[1], want, res)
				if rec == nil || done[rec.Type] {
					continue
				}
				done[rec.Type] = true
				b, _ := json.Marshal(rec)
				f.Write(append(b, '\n'))
				res.Eval(len(rec.Obs))
				res.Distinct++
			}
		}
		// every generated enumerated type has a table: those without a leaf site in the corpus
		// positions are recorded with their table only
		var names []string
		for n := range pkg.EnumMap {
			names = append(names, n)
		}
		sort.Strings(names)
		for _, n := range names {
			if done[n] {
				continue
			}
			rec := &EnumRec{Pkg: pkg.Name, Type: n, Obs: []EnumObs{}, Site: "table only"}
			for v, d := range pkg.EnumMap[n] {
				rec.Entries = append(rec.Entries, EnumEntry{fmt.Sprint(v), d.Name})
			}
			sort.Slice(rec.Entries, func(i, j int) bool { return rec.Entries[i].V < rec.Entries[j].V })
			rec.Schema = schemaNamesFor(n, want)
			b, _ := json.Marshal(rec)
			f.Write(append(b, '\n'))
			res.Distinct++
		}
	}
	if res.Distinct == 0 {
		res.InfraErr("no enumerated types recorded")
	}
	return res
}

func schemaNamesFor(goType string, want map[string][]string) []string {
	parts := strings.Split(goType, "_")
	if len(parts) > 1 && parts[len(parts)-1] == "Enum" { // enumeration inside a union
		parts = parts[:len(parts)-1]
	}
	suffix := strings.ToLower(parts[len(parts)-1])
	if n, ok := want[suffix]; ok {
		return n
	}
	return []string{"<no schema type matches " + goType + ">"}
}

func recordEnum(cp *conc.Corpus, pkg *reg.Pkg, variant, pos string, want map[string][]string, res *rep.Result) *EnumRec {
	v := cp.Variants[variant]
	x := &conc.Ctx{C: cp, V: v, Seed: 1}
	ap := strings.Split(pos, "/")
	path, err := x.GNMIPath(ap, pkg)
	if err != nil {
		res.InfraErr("path: %v", err)
		return nil
	}
	lp, _ := x.AbsPath(ap)
	// locate the field and its enumerated Go type
	probe := pkg.NewRoot()
	parent, err := abs.Ensure(reflect.ValueOf(probe), lp[:len(lp)-1], pkg)
	if err != nil {
		res.InfraErr("ensure: %v", err)
		return nil
	}
	fld, sf, ok := abs.FieldInfoByStep(parent.Elem(), lp[len(lp)-1])
	if !ok {
		res.InfraErr("no field at %s", pos)
		return nil
	}
	_ = fld
	et := sf.Type
	if et.Kind() == reflect.Interface {
		et = nil
		for _, m := range pkg.Unions[sf.Type.Name()] {
			mt := m
			if mt.Kind() == reflect.Ptr && mt.Elem().Kind() == reflect.Struct {
				mt = mt.Elem().Field(0).Type
			}
			if mt.Kind() == reflect.Int64 && strings.HasPrefix(mt.Name(), "E_") {
				et = mt
			}
		}
		if et == nil {
			return nil
		}
	}
	table := pkg.EnumMap[et.Name()]
	rec := &EnumRec{Pkg: pkg.Name, Type: et.Name(), Site: variant + ":" + pos, Obs: []EnumObs{}}
	var max int64
	for val, d := range table {
		rec.Entries = append(rec.Entries, EnumEntry{fmt.Sprint(val), d.Name})
		if val > max {
			max = val
		}
	}
	sort.Slice(rec.Entries, func(i, j int) bool { return rec.Entries[i].V < rec.Entries[j].V })
	rec.Schema = schemaNamesFor(et.Name(), want)
	st, err := schemaTree(pkg)
	if err != nil {
		res.InfraErr("schema: %v", err)
		return nil
	}
	// set the leaf to the raw value n and return the root and the enum value as GoEnum
	set := func(n int64) (ygot.GoStruct, reflect.Value) {
		root := pkg.NewRoot()
		par, _ := abs.Ensure(reflect.ValueOf(root), lp[:len(lp)-1], pkg)
		f, sf, _ := abs.FieldInfoByStep(par.Elem(), lp[len(lp)-1])
		ev := reflect.New(et).Elem()
		ev.SetInt(n)
		switch {
		case sf.Type.Kind() == reflect.Interface:
			// union: simple unions hold the enum value itself, wrapper unions a struct
			placed := false
			for _, m := range pkg.Unions[sf.Type.Name()] {
				if m == et {
					f.Set(ev)
					placed = true
				} else if m.Kind() == reflect.Ptr && m.Elem().Kind() == reflect.Struct && m.Elem().Field(0).Type == et {
					w := reflect.New(m.Elem())
					w.Elem().Field(0).Set(ev)
					f.Set(w)
					placed = true
				}
			}
			if !placed {
				return nil, ev
			}
		default:
			f.Set(ev)
		}
		return root, ev
	}
	read := func(root ygot.GoStruct) string {
		par, err := abs.Ensure(reflect.ValueOf(root), lp[:len(lp)-1], pkg)
		if err != nil {
			return "-"
		}
		f, _, _ := abs.FieldInfoByStep(par.Elem(), lp[len(lp)-1])
		for f.Kind() == reflect.Interface || f.Kind() == reflect.Ptr {
			if f.IsNil() {
				return "0"
			}
			f = f.Elem()
		}
		if f.Kind() == reflect.Struct {
			f = f.Field(0)
		}
		if f.Kind() != reflect.Int64 {
			return "other:" + fmt.Sprint(f.Interface())
		}
		return fmt.Sprint(f.Int())
	}
	observe := func(n int64, cls string) {
		o := EnumObs{V: fmt.Sprint(n), Cls: cls, JSON: "-", Back: "-", TV: "-", TVBack: "-", EName: "-"}
		root, ev := set(n)
		if root == nil {
			return
		}
		var js []byte
		err, pan := guard(func() error {
			var err error
			js, err = ygot.Marshal7951(root, &ygot.RFC7951JSONConfig{AppendModuleName: true})
			return err
		})
		switch {
		case pan != "":
			o.JSON = "panic"
		case err != nil:
			o.JSON = "error"
		default:
			var doc interface{}
			json.Unmarshal(js, &doc)
			if val, ok := jsonAt(doc, path); ok {
				o.JSON = stripMod(fmt.Sprint(val))
				back := pkg.NewRoot()
				if uerr, _ := guard(func() error { return pkg.Unmarshal(js, back) }); uerr != nil {
					o.Back = "error"
				} else {
					o.Back = read(back)
				}
			} else {
				o.JSON = "absent"
			}
		}
		if cls == "zero" {
			// the UNSET value in a tree: no update for the leaf in the notifications
			var ns []*gpb.Notification
			nerr, npan := guard(func() error {
				var err error
				ns, err = ygot.TogNMINotifications(root, 1, ygot.GNMINotificationsConfig{UsePathElem: true})
				return err
			})
			o.TV = "absent"
			if nerr != nil {
				o.TV = "error"
			}
			if npan != "" {
				o.TV = "panic"
				res.Violate("C20", map[string]string{"conjunct": "panic", "api": "TogNMINotifications", "type": rec.Type}, "TogNMINotifications panicked on a tree holding the UNSET value of "+rec.Type+": "+firstLine(npan), nil)
			}
			for _, n := range ns {
				for _, u := range n.Update {
					if len(u.Path.Elem) > 0 && u.Path.Elem[len(u.Path.Elem)-1].Name == path.Elem[len(path.Elem)-1].Name {
						o.TV = "rendered:" + u.Val.String()
					}
				}
			}
			rec.Obs = append(rec.Obs, o)
			return
		}
		var tv *gpb.TypedValue
		err, pan = guard(func() error {
			var err error
			tv, err = ygot.EncodeTypedValue(ev.Interface(), gpb.Encoding_JSON_IETF)
			return err
		})
		switch {
		case pan != "":
			o.TV = "panic"
		case err != nil:
			o.TV = "error"
		case tv == nil:
			o.TV = "absent"
		default:
			o.TV = stripMod(tv.GetStringVal())
			nr := pkg.NewRoot()
			sch := st[reflectName(nr)]
			if serr, _ := guard(func() error { return ytypes.SetNode(sch, nr, path, tv, &ytypes.InitMissingElements{}) }); serr != nil {
				o.TVBack = "error"
			} else {
				o.TVBack = read(nr)
			}
		}
		if ge, ok := ev.Interface().(ygot.GoEnum); ok {
			name, err := ygot.EnumName(ge)
			if err != nil {
				o.EName = "error"
			} else {
				o.EName = name
			}
		}
		rec.Obs = append(rec.Obs, o)
	}
	for val := range table {
		observe(val, "defined")
	}
	observe(0, "zero")
	for _, n := range []int64{-1, max + 1, 1<<63 - 1} {
		if _, ok := table[n]; !ok {
			observe(n, "undefined")
		}
	}
	sort.Slice(rec.Obs, func(i, j int) bool { return rec.Obs[i].Cls+rec.Obs[i].V < rec.Obs[j].Cls+rec.Obs[j].V })
	return rec
}
