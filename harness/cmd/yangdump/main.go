// Command yangdump compiles YANG modules with goyang and prints the schema in the canonical
// form of package sdump: the reference the schema embedded in generated code is compared with (C27).
package main

import (
	"encoding/json"
	"flag"
	"fmt"
	"os"
	"path/filepath"
	"sort"
	"strings"

	"github.com/openconfig/goyang/pkg/yang"

	"verif/harness/internal/sdump"
)

// preferState re-implements the one transformation ygen applies to the schema before embedding
// it (documented in genutil.TransformEntry): with prefer_operational_state a leafref whose path
// ends in .../config/<leaf> points to .../state/<leaf>.
func preferState(e *yang.Entry) {
	for _, c := range e.Dir {
		if c.Type != nil && c.Type.Kind == yang.Yleafref {
			parts := strings.Split(c.Type.Path, "/")
			if len(parts) >= 3 {
				i := len(parts) - 2
				name := parts[i]
				pre := ""
				if j := strings.Index(name, ":"); j >= 0 {
					pre, name = name[:j+1], name[j+1:]
				}
				if name == "config" {
					parts[i] = pre + "state"
				}
				c.Type.Path = strings.Join(parts, "/")
			}
		}
		preferState(c)
	}
}

func main() {
	dir := flag.String("path", ".", "directory with the modules")
	mods := flag.String("mods", "", "comma separated module files")
	ps := flag.Bool("prefer_state", false, "apply the prefer_operational_state leafref transformation")
	out := flag.String("out", "yangdump.json", "output")
	flag.Parse()
	ms := yang.NewModules()
	ms.AddPath(*dir)
	var names []string
	for _, f := range strings.Split(*mods, ",") {
		if err := ms.Read(filepath.Join(*dir, f)); err != nil {
			fmt.Fprintln(os.Stderr, "read:", err)
			os.Exit(2)
		}
		names = append(names, strings.TrimSuffix(filepath.Base(f), ".yang"))
	}
	if errs := ms.Process(); len(errs) > 0 {
		fmt.Fprintln(os.Stderr, "process:", errs)
		os.Exit(2)
	}
	var nodes []sdump.Node
	for _, n := range names {
		m, ok := ms.Modules[n]
		if !ok {
			fmt.Fprintln(os.Stderr, "no module", n)
			os.Exit(2)
		}
		e := yang.ToEntry(m)
		if len(e.Errors) > 0 {
			fmt.Fprintln(os.Stderr, "entry errors:", e.Errors)
			os.Exit(2)
		}
		if *ps {
			preferState(e)
		}
		sdump.Walk(e, "", false, &nodes)
	}
	sort.Slice(nodes, func(a, b int) bool { return nodes[a].Path < nodes[b].Path })
	b, _ := json.Marshal(nodes)
	if err := os.WriteFile(*out, b, 0o644); err != nil {
		fmt.Fprintln(os.Stderr, err)
		os.Exit(2)
	}
}
