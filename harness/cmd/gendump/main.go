// Command gendump prints, for every generated package linked into it, what the generator
// families' properties talk about: the struct / field table with tags and Go type classes
// (C26), the embedded schema in canonical form (C27) and every accessor chain of the path-struct
// API with the path it resolves to (C29).
package main

import (
	"encoding/base64"
	"encoding/json"
	"flag"
	"fmt"
	"os"
	"reflect"
	"sort"
	"strconv"
	"strings"

	"github.com/openconfig/goyang/pkg/yang"
	"github.com/openconfig/ygot/ygot"

	"verif/harness/internal/reg"
	"verif/harness/internal/sdump"

	_ "verif/harness/gen/all"
)

type Field struct {
	Name    string            `json:"name"`
	GoType  string            `json:"gotype"`
	Class   string            `json:"class"`
	KeyKind string            `json:"keykind,omitempty"`
	Elem    string            `json:"elem,omitempty"`
	Tags    map[string]string `json:"tags"`
}

type Struct struct {
	Name       string  `json:"name"`
	SchemaPath string  `json:"schemapath"`
	InSchema   bool    `json:"inschema"`
	Fields     []Field `json:"fields"`
}

type PathCall struct {
	Chain    string   `json:"chain"`
	Type     string   `json:"type"`
	Args     []string `json:"args"` // the expected key strings of the arguments of the last call
	Wildcard bool     `json:"wildcard"`
	Resolved string   `json:"resolved"`
	Err      string   `json:"err,omitempty"`
	Leaf     bool     `json:"leaf"`
}

type Dump struct {
	Pkg       string       `json:"pkg"`
	Structs   []Struct     `json:"structs"`
	Schema    []sdump.Node `json:"schema"`
	SchemaErr string       `json:"schema_err,omitempty"`
	RootName  string       `json:"root_name"`
	Paths     []PathCall   `json:"paths,omitempty"`
	PathErr   string       `json:"path_err,omitempty"`
}

var (
	goStructT   = reflect.TypeOf((*ygot.GoStruct)(nil)).Elem()
	goEnumT     = reflect.TypeOf((*ygot.GoEnum)(nil)).Elem()
	orderedT    = reflect.TypeOf((*ygot.GoOrderedMap)(nil)).Elem()
	pathStructT = reflect.TypeOf((*ygot.PathStruct)(nil)).Elem()
	annotT      = reflect.TypeOf((*ygot.Annotation)(nil)).Elem()
)

// Binary and YANGEmpty are declared in every generated package.
func isBinary(t reflect.Type) bool {
	return t.Name() == "Binary" && t.Kind() == reflect.Slice && t.Elem().Kind() == reflect.Uint8
}
func isEmpty(t reflect.Type) bool { return t.Name() == "YANGEmpty" && t.Kind() == reflect.Bool }

func scalarClass(t reflect.Type) string {
	switch {
	case isBinary(t):
		return "binary"
	case isEmpty(t):
		return "empty"
	case t.Implements(goEnumT):
		return "enum"
	case t.Kind() == reflect.Interface:
		return "union"
	case t.Kind() == reflect.Ptr && t.Elem().Kind() == reflect.Struct:
		return "union-wrapper"
	}
	return t.Kind().String()
}

func classify(t reflect.Type) (class, keykind, elem string) {
	switch t.Kind() {
	case reflect.Ptr:
		switch {
		case t.Implements(orderedT):
			kk := "?"
			if m, ok := t.MethodByName("Keys"); ok && m.Type.NumOut() == 1 && m.Type.Out(0).Kind() == reflect.Slice {
				kk = keyKind(m.Type.Out(0).Elem())
			}
			return "list-ordered", kk, t.Elem().Name()
		case t.Implements(goStructT):
			return "container", "", t.Elem().Name()
		case t.Elem().Kind() == reflect.Struct:
			return "ptr-struct", "", t.Elem().Name()
		default:
			return "leaf:" + t.Elem().Kind().String(), "", ""
		}
	case reflect.Map:
		return "list-map", keyKind(t.Key()), strings.TrimPrefix(t.Elem().String(), "*")
	case reflect.Slice:
		if isBinary(t) {
			return "leaf:binary", "", ""
		}
		e := t.Elem()
		if e.Implements(annotT) {
			return "annotation", "", ""
		}
		if e.Kind() == reflect.Ptr && e.Implements(goStructT) {
			return "list-unkeyed", "", e.Elem().Name()
		}
		return "leaflist:" + scalarClass(e), "", ""
	case reflect.Interface:
		return "leaf:union", "", ""
	default:
		return "leaf:" + scalarClass(t), "", ""
	}
}

func keyKind(t reflect.Type) string {
	if t.Kind() == reflect.Struct {
		var parts []string
		for i := 0; i < t.NumField(); i++ {
			parts = append(parts, t.Field(i).Name+":"+scalarClass(t.Field(i).Type)+":"+t.Field(i).Tag.Get("path"))
		}
		return "struct{" + strings.Join(parts, ",") + "}"
	}
	return scalarClass(t)
}

var tagNames = []string{"path", "shadow-path", "module", "shadow-module", "yangPresence", "ygotAnnotation"}

func dumpStructs(p *reg.Pkg, tree map[string]*yang.Entry) []Struct {
	var names []string
	for n := range p.Structs {
		names = append(names, n)
	}
	sort.Strings(names)
	var out []Struct
	for _, n := range names {
		t := p.Structs[n]
		if !reflect.PtrTo(t).Implements(goStructT) {
			continue
		}
		s := Struct{Name: n}
		if e, ok := tree[n]; ok && e != nil {
			s.InSchema = true
			if sp, ok := e.Annotation["schemapath"].(string); ok {
				s.SchemaPath = sp
			}
		}
		for i := 0; i < t.NumField(); i++ {
			f := t.Field(i)
			fd := Field{Name: f.Name, GoType: f.Type.String(), Tags: map[string]string{}}
			fd.Class, fd.KeyKind, fd.Elem = classify(f.Type)
			for _, tn := range tagNames {
				if v, ok := f.Tag.Lookup(tn); ok {
					fd.Tags[tn] = v
				}
			}
			s.Fields = append(s.Fields, fd)
		}
		out = append(out, s)
	}
	return out
}

// --- path structs ------------------------------------------------------------------------

type argGen struct {
	p *reg.Pkg
	n int
}

// value builds a distinctive value of type t and the key string it must appear as.
func (g *argGen) value(t reflect.Type) (reflect.Value, string, error) {
	g.n++
	switch {
	case isBinary(t):
		b := []byte{byte(g.n), 0xff}
		return reflect.ValueOf(b).Convert(t), base64.StdEncoding.EncodeToString(b), nil
	case t.Implements(goEnumT):
		// the first defined value of the enumerated type
		tn := t.Name()
		defs := g.p.EnumMap[tn]
		var ks []int64
		for k := range defs {
			ks = append(ks, k)
		}
		if len(ks) == 0 {
			return reflect.Value{}, "", fmt.Errorf("no values for enum %s", tn)
		}
		sort.Slice(ks, func(a, b int) bool { return ks[a] < ks[b] })
		k := ks[g.n%len(ks)]
		v := reflect.New(t).Elem()
		v.SetInt(k)
		return v, defs[k].Name, nil
	case t.Kind() == reflect.Interface:
		impls := g.p.Unions[t.Name()]
		if len(impls) == 0 {
			return reflect.Value{}, "", fmt.Errorf("no implementations known for union %s", t.Name())
		}
		it := impls[g.n%len(impls)]
		if it.Kind() == reflect.Ptr {
			// wrapper union: a struct with one field
			w := reflect.New(it.Elem())
			fv, s, err := g.value(it.Elem().Field(0).Type)
			if err != nil {
				return reflect.Value{}, "", err
			}
			w.Elem().Field(0).Set(fv)
			return w, s, nil
		}
		return g.value(it)
	}
	v := reflect.New(t).Elem()
	switch t.Kind() {
	case reflect.String:
		s := fmt.Sprintf("s%d/x=y]", g.n)
		v.SetString(s)
		return v, s, nil
	case reflect.Bool:
		v.SetBool(true)
		return v, "true", nil
	case reflect.Int8, reflect.Int16, reflect.Int32, reflect.Int64:
		v.SetInt(int64(-g.n))
		return v, strconv.Itoa(-g.n), nil
	case reflect.Uint8, reflect.Uint16, reflect.Uint32, reflect.Uint64:
		v.SetUint(uint64(g.n + 40))
		return v, strconv.Itoa(g.n + 40), nil
	case reflect.Float64:
		v.SetFloat(float64(g.n) + 0.25)
		return v, strconv.FormatFloat(float64(g.n)+0.25, 'g', -1, 64), nil
	}
	return reflect.Value{}, "", fmt.Errorf("unsupported key type %s", t)
}

func explore(p *reg.Pkg, v reflect.Value, chain string, depth int, out *[]PathCall, seen map[string]int) {
	if depth > 12 {
		return
	}
	t := v.Type()
	for i := 0; i < t.NumMethod(); i++ {
		m := t.Method(i)
		if m.Type.NumOut() != 1 || !m.Type.Out(0).Implements(pathStructT) {
			continue
		}
		// builder-style methods return the receiver's own type
		if m.Type.Out(0) == t && m.Type.NumIn() == 2 && strings.HasPrefix(m.Name, "With") {
			continue
		}
		g := &argGen{p: p, n: depth * 3}
		args := []reflect.Value{v}
		var want []string
		ok := true
		for a := 1; a < m.Type.NumIn(); a++ {
			av, s, err := g.value(m.Type.In(a))
			if err != nil {
				*out = append(*out, PathCall{Chain: chain + "." + m.Name, Type: m.Type.Out(0).String(), Err: "argument: " + err.Error()})
				ok = false
				break
			}
			args = append(args, av)
			want = append(want, s)
		}
		if !ok {
			continue
		}
		var res reflect.Value
		func() {
			defer func() {
				if r := recover(); r != nil {
					*out = append(*out, PathCall{Chain: chain + "." + m.Name, Type: m.Type.Out(0).String(), Err: fmt.Sprint("panic: ", r)})
					ok = false
				}
			}()
			res = m.Func.Call(args)[0]
		}()
		if !ok || res.IsNil() {
			continue
		}
		ps := res.Interface().(ygot.PathStruct)
		pc := PathCall{Chain: chain + "." + m.Name + "(" + strings.Join(want, ",") + ")", Type: m.Type.Out(0).String(), Args: want,
			Wildcard: strings.Contains(m.Name, "Any")}
		gp, _, errs := ygot.ResolvePath(ps)
		if len(errs) > 0 {
			pc.Err = fmt.Sprint(errs)
		} else if s, err := ygot.PathToString(gp); err != nil {
			pc.Err = err.Error()
		} else {
			pc.Resolved = s
		}
		// a leaf path struct has no further accessors
		nt := res.Type()
		kids := 0
		for j := 0; j < nt.NumMethod(); j++ {
			mm := nt.Method(j)
			if mm.Type.NumOut() == 1 && mm.Type.Out(0).Implements(pathStructT) && mm.Type.Out(0) != nt {
				kids++
			}
		}
		pc.Leaf = kids == 0
		*out = append(*out, pc)
		key := nt.String()
		if seen[key] < 2 {
			seen[key]++
			explore(p, res, pc.Chain, depth+1, out, seen)
		}
	}
}

func main() {
	out := flag.String("out", "gendump.ndjson", "output (one JSON object per package)")
	flag.Parse()
	f, err := os.Create(*out)
	if err != nil {
		fmt.Fprintln(os.Stderr, err)
		os.Exit(2)
	}
	defer f.Close()
	enc := json.NewEncoder(f)
	for _, name := range reg.Names() {
		p := reg.Get(name)
		d := Dump{Pkg: name}
		tree, err := p.Unzip()
		if err != nil {
			d.SchemaErr = err.Error()
		}
		d.Structs = dumpStructs(p, tree)
		rootName := reflect.TypeOf(p.NewRoot()).Elem().Name()
		d.RootName = rootName
		if root, ok := tree[rootName]; ok {
			sdump.Walk(root, "", false, &d.Schema)
		} else if err == nil {
			d.SchemaErr = "no schema entry for the root struct " + rootName
		}
		if p.PathRoot != nil {
			func() {
				defer func() {
					if r := recover(); r != nil {
						d.PathErr = fmt.Sprint("panic: ", r)
					}
				}()
				explore(p, reflect.ValueOf(p.PathRoot()), "DeviceRoot", 0, &d.Paths, map[string]int{})
			}()
		}
		if err := enc.Encode(&d); err != nil {
			fmt.Fprintln(os.Stderr, err)
			os.Exit(2)
		}
	}
}
