// Package abs is the binding between the TLA+ abstract data tree (spec/DataTree.tla)
// and generated GoStructs. It is deliberately independent of the code under test:
// Project and Build use plain reflection over struct tags and field kinds and call no
// function of ygot, ytypes or util (the one exception is the generated enum name table
// ΛEnum, which C17 checks against goyang independently).
package abs

import (
	"encoding/hex"
	"fmt"
	"reflect"
	"sort"
	"strconv"
	"strings"
	"sync"
	"unsafe"

	"verif/harness/internal/reg"
)

// Sep separates steps in the string form of a path. A key step starts with '='; the key
// values of a multi-key entry are separated by KSep.
const (
	Sep  = "\x1e"
	KSep = "\x1f"
)

// Path is a sequence of steps: node names (last element of the field's path tag) and,
// after a list name, a key step "=<canonical key>[KSep<canonical key>...]". Entries of
// unkeyed lists have key steps "=#<index>".
type Path []string

func (p Path) String() string { return strings.Join(p, Sep) }

// Pretty renders a path string for humans.
func Pretty(ps string) string {
	var b strings.Builder
	for i, s := range strings.Split(ps, Sep) {
		if strings.HasPrefix(s, "=") {
			b.WriteString("[" + strings.ReplaceAll(s[1:], KSep, ",") + "]")
			continue
		}
		if i > 0 {
			b.WriteString("/")
		}
		b.WriteString(s)
	}
	return b.String()
}

// Tree is the concrete image of the abstract tree: canonical value strings keyed by
// path strings.
type Tree struct {
	Leaves  map[string]string   // leaf path -> canonical value
	LL      map[string][]string // leaf-list path -> canonical values in order (present, possibly empty)
	Ents    map[string][]string // list path -> key steps; insertion order for ordered lists, sorted otherwise
	Ordered map[string]bool     // list paths that are ordered maps
	Conts   map[string]bool     // non-nil containers
}

func NewTree() *Tree {
	return &Tree{Leaves: map[string]string{}, LL: map[string][]string{}, Ents: map[string][]string{}, Ordered: map[string]bool{}, Conts: map[string]bool{}}
}

// Lines returns a sorted, human-readable listing (used in replay files and diffs).
func (t *Tree) Lines() []string {
	var out []string
	for p, v := range t.Leaves {
		out = append(out, "leaf "+Pretty(p)+" = "+v)
	}
	for p, v := range t.LL {
		out = append(out, "leaflist "+Pretty(p)+" = ["+strings.Join(v, " ")+"]")
	}
	for p, v := range t.Ents {
		if len(v) == 0 {
			continue
		}
		o := ""
		if t.Ordered[p] {
			o = " (ordered)"
		}
		ks := make([]string, len(v))
		for i, k := range v {
			ks[i] = strings.ReplaceAll(k, KSep, ",")
		}
		out = append(out, "list "+Pretty(p)+o+" = "+strings.Join(ks, " "))
	}
	for p := range t.Conts {
		out = append(out, "cont "+Pretty(p))
	}
	sort.Strings(out)
	return out
}

// LeafLines is Lines restricted to leaves, leaf-lists and list entries (no containers).
func (t *Tree) LeafLines() []string {
	var out []string
	for _, l := range t.Lines() {
		if !strings.HasPrefix(l, "cont ") {
			out = append(out, l)
		}
	}
	return out
}

// Diff lists the differences between two trees. If conts is false container presence is
// not compared.
func Diff(got, want *Tree, conts bool) []string {
	var g, w []string
	if conts {
		g, w = got.Lines(), want.Lines()
	} else {
		g, w = got.LeafLines(), want.LeafLines()
	}
	gm := map[string]bool{}
	for _, l := range g {
		gm[l] = true
	}
	var d []string
	for _, l := range w {
		if !gm[l] {
			d = append(d, "missing: "+l)
		}
		delete(gm, l)
	}
	for l := range gm {
		d = append(d, "unexpected: "+l)
	}
	sort.Strings(d)
	return d
}

// Equal reports whether two trees are equal (including containers when conts is set).
func Equal(a, b *Tree, conts bool) bool { return len(Diff(a, b, conts)) == 0 }

// ---------------------------------------------------------------------------------
// field tables

type fieldInfo struct {
	idx  int
	name string // abstract step name
}

var fieldCache sync.Map // reflect.Type -> []fieldInfo

func stepName(f reflect.StructField) (string, bool) {
	if _, ok := f.Tag.Lookup("ygotAnnotation"); ok {
		return "", false
	}
	p, ok := f.Tag.Lookup("path")
	if !ok {
		return "", false
	}
	first := strings.Split(p, "|")[0]
	parts := strings.Split(first, "/")
	return parts[len(parts)-1], true
}

func fieldsOf(t reflect.Type) []fieldInfo {
	if fi, ok := fieldCache.Load(t); ok {
		return fi.([]fieldInfo)
	}
	var out []fieldInfo
	for i := 0; i < t.NumField(); i++ {
		if n, ok := stepName(t.Field(i)); ok {
			out = append(out, fieldInfo{i, n})
		}
	}
	fieldCache.Store(t, out)
	return out
}

func fieldByStep(v reflect.Value, step string) (reflect.Value, reflect.StructField, bool) {
	for _, fi := range fieldsOf(v.Type()) {
		if fi.name == step {
			return v.Field(fi.idx), v.Type().Field(fi.idx), true
		}
	}
	return reflect.Value{}, reflect.StructField{}, false
}

// FieldByStep is the exported form of fieldByStep.
func FieldByStep(v reflect.Value, step string) (reflect.Value, bool) {
	f, _, ok := fieldByStep(v, step)
	return f, ok
}

func isOrderedMapPtr(t reflect.Type) bool {
	return t.Kind() == reflect.Ptr && t.Elem().Kind() == reflect.Struct && strings.HasSuffix(t.Elem().Name(), "_OrderedMap")
}

func isEnumType(t reflect.Type) bool {
	return t.Kind() == reflect.Int64 && strings.HasPrefix(t.Name(), "E_")
}

func isBinaryType(t reflect.Type) bool {
	return t.Kind() == reflect.Slice && t.Elem().Kind() == reflect.Uint8 && t.Name() == "Binary"
}

func isEmptyType(t reflect.Type) bool { return t.Kind() == reflect.Bool && t.Name() == "YANGEmpty" }

// unexported returns a settable view of an unexported struct field.
func unexported(f reflect.Value) reflect.Value {
	return reflect.NewAt(f.Type(), unsafe.Pointer(f.UnsafeAddr())).Elem()
}

// OrderedMapParts returns the keys slice and value map of an ordered map (pointer to the
// generated struct), read through the unexported fields.
func OrderedMapParts(om reflect.Value) (keys, vm reflect.Value) {
	s := om.Elem()
	return unexported(s.FieldByName("keys")), unexported(s.FieldByName("valueMap"))
}

// ---------------------------------------------------------------------------------
// canonical values

// CanonScalar renders a non-pointer scalar / enum / binary / empty / union value.
// ok=false means "unset".
func CanonScalar(v reflect.Value, pkg *reg.Pkg) (string, bool) {
	t := v.Type()
	switch {
	case isEnumType(t):
		n := v.Int()
		if n == 0 {
			return "", false
		}
		if def, ok := pkg.EnumMap[t.Name()][n]; ok {
			return "enum:" + def.Name, true
		}
		return fmt.Sprintf("enum?:%d", n), true
	case isBinaryType(t):
		if v.IsNil() {
			return "", false
		}
		return "bin:" + hex.EncodeToString(v.Bytes()), true
	case isEmptyType(t):
		if !v.Bool() {
			return "", false
		}
		return "empty", true
	}
	switch t.Kind() {
	case reflect.Interface:
		if v.IsNil() {
			return "", false
		}
		return CanonScalar(v.Elem(), pkg)
	case reflect.Ptr:
		if v.IsNil() {
			return "", false
		}
		e := v.Elem()
		if e.Kind() == reflect.Struct {
			// wrapper union struct with exactly one field
			if e.NumField() != 1 {
				return "struct?:" + e.Type().Name(), true
			}
			s, ok := CanonScalar(e.Field(0), pkg)
			if !ok {
				// wrapper present but holding the unset value of its member
				return "unsetmember:" + e.Type().Name(), true
			}
			return s, true
		}
		return CanonScalar(e, pkg)
	case reflect.Int8, reflect.Int16, reflect.Int32, reflect.Int64:
		return fmt.Sprintf("int%d:%d", t.Bits(), v.Int()), true
	case reflect.Uint8, reflect.Uint16, reflect.Uint32, reflect.Uint64:
		return fmt.Sprintf("uint%d:%d", t.Bits(), v.Uint()), true
	case reflect.String:
		return "str:" + v.String(), true
	case reflect.Bool:
		return "bool:" + strconv.FormatBool(v.Bool()), true
	case reflect.Float64:
		return "dec:" + strconv.FormatFloat(v.Float(), 'f', -1, 64), true
	case reflect.Slice:
		if t.Elem().Kind() == reflect.Uint8 {
			if v.IsNil() {
				return "", false
			}
			return "bin:" + hex.EncodeToString(v.Bytes()), true
		}
	}
	return fmt.Sprintf("?%s:%v", t, v.Interface()), true
}

func parseScalarInto(dst reflect.Value, kind, body string) error {
	switch dst.Kind() {
	case reflect.Int8, reflect.Int16, reflect.Int32, reflect.Int64:
		if !strings.HasPrefix(kind, "int") {
			return fmt.Errorf("kind %s into %s", kind, dst.Type())
		}
		n, err := strconv.ParseInt(body, 10, 64)
		if err != nil {
			return err
		}
		if dst.OverflowInt(n) {
			return fmt.Errorf("overflow")
		}
		dst.SetInt(n)
	case reflect.Uint8, reflect.Uint16, reflect.Uint32, reflect.Uint64:
		if !strings.HasPrefix(kind, "uint") {
			return fmt.Errorf("kind %s into %s", kind, dst.Type())
		}
		n, err := strconv.ParseUint(body, 10, 64)
		if err != nil {
			return err
		}
		if dst.OverflowUint(n) {
			return fmt.Errorf("overflow")
		}
		dst.SetUint(n)
	case reflect.String:
		if kind != "str" {
			return fmt.Errorf("kind %s into string", kind)
		}
		dst.SetString(body)
	case reflect.Bool:
		if kind != "bool" {
			return fmt.Errorf("kind %s into bool", kind)
		}
		dst.SetBool(body == "true")
	case reflect.Float64:
		if kind != "dec" {
			return fmt.Errorf("kind %s into float64", kind)
		}
		f, err := strconv.ParseFloat(body, 64)
		if err != nil {
			return err
		}
		dst.SetFloat(f)
	default:
		return fmt.Errorf("unsupported scalar kind %s", dst.Kind())
	}
	return nil
}

func splitCanon(c string) (kind, body string) {
	i := strings.Index(c, ":")
	if i < 0 {
		return c, ""
	}
	return c[:i], c[i+1:]
}

func scalarKindMatches(k reflect.Kind, kind string) bool {
	switch k {
	case reflect.Int8, reflect.Int16, reflect.Int32, reflect.Int64, reflect.Uint8, reflect.Uint16, reflect.Uint32, reflect.Uint64:
		return kind == strings.ToLower(k.String())
	case reflect.String:
		return kind == "str"
	case reflect.Bool:
		return kind == "bool"
	case reflect.Float64:
		return kind == "dec"
	}
	return false
}

func enumValue(t reflect.Type, kind, body string, pkg *reg.Pkg) (int64, bool) {
	if kind == "enum?" {
		n, err := strconv.ParseInt(body, 10, 64)
		return n, err == nil
	}
	if kind != "enum" {
		return 0, false
	}
	for n, def := range pkg.EnumMap[t.Name()] {
		if def.Name == body {
			return n, true
		}
	}
	return 0, false
}

// typeAccepts reports whether a (non-pointer) member type can hold canonical kind/body.
func typeAccepts(t reflect.Type, kind, body string, pkg *reg.Pkg) bool {
	switch {
	case isEnumType(t):
		_, ok := enumValue(t, kind, body, pkg)
		return ok
	case isBinaryType(t):
		return kind == "bin"
	case isEmptyType(t):
		return kind == "empty"
	}
	return scalarKindMatches(t.Kind(), kind)
}

// FromCanon builds a Go value of type t (a struct field type, map key type or slice
// element type) from a canonical value.
func FromCanon(c string, t reflect.Type, pkg *reg.Pkg) (reflect.Value, error) {
	kind, body := splitCanon(c)
	v := reflect.New(t).Elem()
	switch {
	case isEnumType(t):
		n, ok := enumValue(t, kind, body, pkg)
		if !ok {
			return v, fmt.Errorf("no enum value %q in %s", c, t.Name())
		}
		v.SetInt(n)
		return v, nil
	case isBinaryType(t):
		if kind != "bin" {
			return v, fmt.Errorf("kind %s into Binary", kind)
		}
		b, err := hex.DecodeString(body)
		if err != nil {
			return v, err
		}
		if b == nil {
			b = []byte{}
		}
		v.SetBytes(b)
		return v, nil
	case isEmptyType(t):
		if kind != "empty" {
			return v, fmt.Errorf("kind %s into YANGEmpty", kind)
		}
		v.SetBool(true)
		return v, nil
	}
	switch t.Kind() {
	case reflect.Ptr:
		e, err := FromCanon(c, t.Elem(), pkg)
		if err != nil {
			return v, err
		}
		p := reflect.New(t.Elem())
		p.Elem().Set(e)
		return p, nil
	case reflect.Interface:
		for _, it := range pkg.Unions[t.Name()] {
			if it.Kind() == reflect.Ptr && it.Elem().Kind() == reflect.Struct {
				ft := it.Elem().Field(0).Type
				if typeAccepts(ft, kind, body, pkg) {
					m, err := FromCanon(c, ft, pkg)
					if err != nil {
						return v, err
					}
					w := reflect.New(it.Elem())
					w.Elem().Field(0).Set(m)
					v.Set(w)
					return v, nil
				}
				continue
			}
			if typeAccepts(it, kind, body, pkg) {
				m, err := FromCanon(c, it, pkg)
				if err != nil {
					return v, err
				}
				v.Set(m)
				return v, nil
			}
		}
		return v, fmt.Errorf("no member of union %s holds %q", t.Name(), c)
	}
	if err := parseScalarInto(v, kind, body); err != nil {
		return v, fmt.Errorf("%q into %s: %v", c, t, err)
	}
	return v, nil
}

// ---------------------------------------------------------------------------------
// Project

func keyStep(k reflect.Value, pkg *reg.Pkg) string {
	if k.Kind() == reflect.Struct {
		var parts []string
		for i := 0; i < k.NumField(); i++ {
			s, ok := CanonScalar(k.Field(i), pkg)
			if !ok {
				s = "unset"
			}
			parts = append(parts, s)
		}
		return "=" + strings.Join(parts, KSep)
	}
	s, ok := CanonScalar(k, pkg)
	if !ok {
		s = "unset"
	}
	return "=" + s
}

// Project returns the abstract image of the GoStruct s (pointer to generated struct).
func Project(s interface{}, pkg *reg.Pkg) *Tree {
	t := NewTree()
	v := reflect.ValueOf(s)
	if v.Kind() != reflect.Ptr || v.IsNil() {
		return t
	}
	project(v, nil, t, pkg)
	return t
}

func cp(p Path, s ...string) Path {
	q := make(Path, 0, len(p)+len(s))
	q = append(q, p...)
	return append(q, s...)
}

func project(sp reflect.Value, at Path, t *Tree, pkg *reg.Pkg) {
	sv := sp.Elem()
	for _, fi := range fieldsOf(sv.Type()) {
		f := sv.Field(fi.idx)
		ft := f.Type()
		p := cp(at, fi.name)
		switch {
		case isOrderedMapPtr(ft):
			t.Ordered[p.String()] = true
			if f.IsNil() {
				continue
			}
			keys, vm := OrderedMapParts(f)
			var ks []string
			for i := 0; i < keys.Len(); i++ {
				k := keys.Index(i)
				st := keyStep(k, pkg)
				ks = append(ks, st)
				ev := vm.MapIndex(k)
				if ev.IsValid() && !ev.IsNil() {
					project(ev, cp(p, st), t, pkg)
				} else {
					t.Leaves[cp(p, st, "<novalue>").String()] = "missing valueMap entry"
				}
			}
			if vm.Len() != keys.Len() {
				t.Leaves[cp(p, "<len>").String()] = fmt.Sprintf("keys=%d valueMap=%d", keys.Len(), vm.Len())
			}
			t.Ents[p.String()] = ks
		case ft.Kind() == reflect.Ptr && ft.Elem().Kind() == reflect.Struct:
			if f.IsNil() {
				continue
			}
			t.Conts[p.String()] = true
			project(f, p, t, pkg)
		case ft.Kind() == reflect.Map:
			if f.IsNil() {
				continue
			}
			var ks []string
			it := f.MapRange()
			for it.Next() {
				st := keyStep(it.Key(), pkg)
				ks = append(ks, st)
				if !it.Value().IsNil() {
					project(it.Value(), cp(p, st), t, pkg)
				} else {
					t.Leaves[cp(p, st, "<novalue>").String()] = "nil entry"
				}
			}
			sort.Strings(ks)
			t.Ents[p.String()] = ks
			if len(ks) == 0 {
				t.Conts[p.String()+Sep+"<emptymap>"] = true
			}
		case ft.Kind() == reflect.Slice && ft.Elem().Kind() == reflect.Ptr && ft.Elem().Elem().Kind() == reflect.Struct:
			// unkeyed list
			if f.IsNil() {
				continue
			}
			var ks []string
			for i := 0; i < f.Len(); i++ {
				st := fmt.Sprintf("=#%d", i)
				ks = append(ks, st)
				if !f.Index(i).IsNil() {
					project(f.Index(i), cp(p, st), t, pkg)
				}
			}
			t.Ents[p.String()] = ks
			t.Ordered[p.String()] = true
		case ft.Kind() == reflect.Slice && !isBinaryType(ft):
			if f.IsNil() {
				continue
			}
			vals := []string{}
			for i := 0; i < f.Len(); i++ {
				s, ok := CanonScalar(f.Index(i), pkg)
				if !ok {
					s = "unset"
				}
				vals = append(vals, s)
			}
			t.LL[p.String()] = vals
		default:
			if s, ok := CanonScalar(f, pkg); ok {
				t.Leaves[p.String()] = s
			}
		}
	}
}

// ---------------------------------------------------------------------------------
// Build

// Ensure descends from the struct pointer root along path, creating containers and list
// entries (without key leaves) as needed, and returns the struct pointer at path.
func Ensure(root reflect.Value, path Path, pkg *reg.Pkg) (reflect.Value, error) {
	cur := root
	for i := 0; i < len(path); i++ {
		step := path[i]
		f, sf, ok := fieldByStep(cur.Elem(), step)
		if !ok {
			return cur, fmt.Errorf("no field for step %q in %s", step, cur.Elem().Type().Name())
		}
		ft := sf.Type
		switch {
		case isOrderedMapPtr(ft):
			if i+1 >= len(path) {
				return cur, fmt.Errorf("path ends at list %q", step)
			}
			i++
			if f.IsNil() {
				f.Set(reflect.New(ft.Elem()))
			}
			keys, vm := OrderedMapParts(f)
			if vm.IsNil() {
				vm.Set(reflect.MakeMap(vm.Type()))
			}
			k, err := keyFromStep(path[i], vm.Type().Key(), pkg)
			if err != nil {
				return cur, err
			}
			k = findKey(vm, k, pkg)
			ev := vm.MapIndex(k)
			if !ev.IsValid() {
				ev = reflect.New(vm.Type().Elem().Elem())
				vm.SetMapIndex(k, ev)
				keys.Set(reflect.Append(keys, k))
			}
			cur = ev
		case ft.Kind() == reflect.Ptr && ft.Elem().Kind() == reflect.Struct:
			if f.IsNil() {
				f.Set(reflect.New(ft.Elem()))
			}
			cur = f
		case ft.Kind() == reflect.Map:
			if i+1 >= len(path) {
				return cur, fmt.Errorf("path ends at list %q", step)
			}
			i++
			if f.IsNil() {
				f.Set(reflect.MakeMap(ft))
			}
			k, err := keyFromStep(path[i], ft.Key(), pkg)
			if err != nil {
				return cur, err
			}
			k = findKey(f, k, pkg)
			ev := f.MapIndex(k)
			if !ev.IsValid() {
				ev = reflect.New(ft.Elem().Elem())
				f.SetMapIndex(k, ev)
			}
			cur = ev
		case ft.Kind() == reflect.Slice && ft.Elem().Kind() == reflect.Ptr && ft.Elem().Elem().Kind() == reflect.Struct:
			if i+1 >= len(path) {
				return cur, fmt.Errorf("path ends at unkeyed list %q", step)
			}
			i++
			idx, err := strconv.Atoi(strings.TrimPrefix(path[i], "=#"))
			if err != nil {
				return cur, err
			}
			for f.Len() <= idx {
				f.Set(reflect.Append(f, reflect.New(ft.Elem().Elem())))
			}
			cur = f.Index(idx)
		default:
			return cur, fmt.Errorf("step %q in %s is not a container or list", step, cur.Elem().Type().Name())
		}
	}
	return cur, nil
}

// findKey returns the key of map m that is canonically equal to k (needed when keys
// are union wrapper pointers, which Go compares by identity).
func findKey(m reflect.Value, k reflect.Value, pkg *reg.Pkg) reflect.Value {
	if m.MapIndex(k).IsValid() {
		return k
	}
	kt := m.Type().Key()
	hasIface := kt.Kind() == reflect.Interface
	if kt.Kind() == reflect.Struct {
		for i := 0; i < kt.NumField(); i++ {
			if kt.Field(i).Type.Kind() == reflect.Interface {
				hasIface = true
			}
		}
	}
	if !hasIface {
		return k
	}
	want := keyStep(k, pkg)
	it := m.MapRange()
	for it.Next() {
		if keyStep(it.Key(), pkg) == want {
			return it.Key()
		}
	}
	return k
}

func keyFromStep(step string, kt reflect.Type, pkg *reg.Pkg) (reflect.Value, error) {
	if !strings.HasPrefix(step, "=") {
		return reflect.Value{}, fmt.Errorf("expected key step, got %q", step)
	}
	parts := strings.Split(step[1:], KSep)
	if kt.Kind() == reflect.Struct {
		if len(parts) != kt.NumField() {
			return reflect.Value{}, fmt.Errorf("key %q has %d parts, want %d", step, len(parts), kt.NumField())
		}
		k := reflect.New(kt).Elem()
		for i, p := range parts {
			v, err := FromCanon(p, kt.Field(i).Type, pkg)
			if err != nil {
				return k, err
			}
			k.Field(i).Set(v)
		}
		return k, nil
	}
	if len(parts) != 1 {
		return reflect.Value{}, fmt.Errorf("key %q has %d parts, want 1", step, len(parts))
	}
	return FromCanon(parts[0], kt, pkg)
}

func splitPath(ps string) Path { return Path(strings.Split(ps, Sep)) }

// SetLeaf sets the leaf (or, with vals, leaf-list) at path below root.
func SetLeaf(root reflect.Value, path Path, val string, pkg *reg.Pkg) error {
	parent, err := Ensure(root, path[:len(path)-1], pkg)
	if err != nil {
		return err
	}
	f, sf, ok := fieldByStep(parent.Elem(), path[len(path)-1])
	if !ok {
		return fmt.Errorf("no leaf field %q in %s", path[len(path)-1], parent.Elem().Type().Name())
	}
	v, err := FromCanon(val, sf.Type, pkg)
	if err != nil {
		return err
	}
	f.Set(v)
	return nil
}

// SetLeafList sets a leaf-list.
func SetLeafList(root reflect.Value, path Path, vals []string, pkg *reg.Pkg) error {
	parent, err := Ensure(root, path[:len(path)-1], pkg)
	if err != nil {
		return err
	}
	f, sf, ok := fieldByStep(parent.Elem(), path[len(path)-1])
	if !ok {
		return fmt.Errorf("no leaf-list field %q", path[len(path)-1])
	}
	if sf.Type.Kind() != reflect.Slice {
		return fmt.Errorf("field %q is not a slice", sf.Name)
	}
	sl := reflect.MakeSlice(sf.Type, 0, len(vals))
	for _, c := range vals {
		v, err := FromCanon(c, sf.Type.Elem(), pkg)
		if err != nil {
			return err
		}
		sl = reflect.Append(sl, v)
	}
	f.Set(sl)
	return nil
}

// Build populates root (pointer to an empty generated struct) with tree t. List entries
// (in order, outer lists first), then containers, then leaves.
func Build(t *Tree, root interface{}, pkg *reg.Pkg) error {
	rv := reflect.ValueOf(root)
	var ls []string
	for l := range t.Ents {
		ls = append(ls, l)
	}
	// shorter (outer) lists first so that nested entries are appended in order
	sort.Slice(ls, func(i, j int) bool {
		if len(ls[i]) != len(ls[j]) {
			return len(ls[i]) < len(ls[j])
		}
		return ls[i] < ls[j]
	})
	for _, l := range ls {
		for _, k := range t.Ents[l] {
			if _, err := Ensure(rv, append(splitPath(l), k), pkg); err != nil {
				return fmt.Errorf("entry %s%s: %v", Pretty(l), k, err)
			}
		}
	}
	var cs []string
	for c := range t.Conts {
		cs = append(cs, c)
	}
	sort.Strings(cs)
	for _, c := range cs {
		if _, err := Ensure(rv, splitPath(c), pkg); err != nil {
			return fmt.Errorf("container %s: %v", Pretty(c), err)
		}
	}
	for p, v := range t.Leaves {
		if err := SetLeaf(rv, splitPath(p), v, pkg); err != nil {
			return fmt.Errorf("leaf %s: %v", Pretty(p), err)
		}
	}
	for p, v := range t.LL {
		if err := SetLeafList(rv, splitPath(p), v, pkg); err != nil {
			return fmt.Errorf("leaf-list %s: %v", Pretty(p), err)
		}
	}
	return nil
}

// KeyFromStep is the exported form of keyFromStep: a key step "=<canon>[KSep<canon>...]" to a
// Go map key of type kt.
func KeyFromStep(step string, kt reflect.Type, pkg *reg.Pkg) (reflect.Value, error) {
	return keyFromStep(step, kt, pkg)
}

// KeyStep is the exported form of keyStep.
func KeyStep(k reflect.Value, pkg *reg.Pkg) string { return keyStep(k, pkg) }

// FieldInfoByStep returns the field value and its Go field name for an abstract step.
func FieldInfoByStep(v reflect.Value, step string) (reflect.Value, reflect.StructField, bool) {
	return fieldByStep(v, step)
}

// IsOrderedMapPtr reports whether t is a pointer to a generated ordered-map struct.
func IsOrderedMapPtr(t reflect.Type) bool { return isOrderedMapPtr(t) }
