package abs

import (
	"fmt"
	"reflect"
	"sort"
)

// cells walks every object reachable from v and records the address of each mutable
// cell (struct pointers, maps, slice backing arrays, pointer leaves) with a description.
func cells(v reflect.Value, where string, out map[uintptr]string, seen map[uintptr]bool) {
	if !v.IsValid() {
		return
	}
	switch v.Kind() {
	case reflect.Ptr:
		if v.IsNil() {
			return
		}
		a := v.Pointer()
		if seen[a] && v.Elem().Kind() == reflect.Struct {
			return
		}
		seen[a] = true
		// zero-sized values may share an address legitimately
		if v.Elem().Type().Size() > 0 {
			out[a] = where + " (*" + v.Elem().Type().String() + ")"
		}
		cells(v.Elem(), where, out, seen)
	case reflect.Interface:
		if !v.IsNil() {
			cells(v.Elem(), where, out, seen)
		}
	case reflect.Struct:
		for i := 0; i < v.NumField(); i++ {
			f := v.Field(i)
			if !f.CanInterface() && f.CanAddr() {
				f = unexported(f)
			}
			cells(f, where+"."+v.Type().Field(i).Name, out, seen)
		}
	case reflect.Map:
		if v.IsNil() {
			return
		}
		out[v.Pointer()] = where + " (map)"
		it := v.MapRange()
		for it.Next() {
			cells(it.Key(), where+"[key]", out, seen)
			cells(it.Value(), fmt.Sprintf("%s[%v]", where, it.Key()), out, seen)
		}
	case reflect.Slice:
		if v.IsNil() || v.Cap() == 0 {
			return
		}
		out[v.Pointer()] = where + " (slice)"
		if v.Type().Elem().Kind() == reflect.Uint8 {
			return
		}
		for i := 0; i < v.Len(); i++ {
			cells(v.Index(i), fmt.Sprintf("%s[%d]", where, i), out, seen)
		}
	}
}

// SharedCells lists the mutable cells reachable from both a and b.
func SharedCells(a, b interface{}) []string {
	ca, cb := map[uintptr]string{}, map[uintptr]string{}
	cells(reflect.ValueOf(a), "", ca, map[uintptr]bool{})
	cells(reflect.ValueOf(b), "", cb, map[uintptr]bool{})
	var out []string
	for addr, w := range ca {
		if _, ok := cb[addr]; ok {
			out = append(out, w)
		}
	}
	sort.Strings(out)
	return out
}

// Scramble mutates, in place, every mutable cell reachable from s: pointer leaves get a
// different value, slice elements and bytes are overwritten, map entries and ordered-map
// entries are visited and then deleted, struct fields are cleared last.
func Scramble(s interface{}) { scramble(reflect.ValueOf(s), map[uintptr]bool{}) }

func scramble(v reflect.Value, seen map[uintptr]bool) {
	if !v.IsValid() {
		return
	}
	switch v.Kind() {
	case reflect.Ptr:
		if v.IsNil() || seen[v.Pointer()] {
			return
		}
		seen[v.Pointer()] = true
		scramble(v.Elem(), seen)
	case reflect.Interface:
		if !v.IsNil() {
			scramble(v.Elem(), seen)
		}
	case reflect.Struct:
		for i := 0; i < v.NumField(); i++ {
			f := v.Field(i)
			if !f.CanSet() && f.CanAddr() {
				f = unexported(f)
			}
			scramble(f, seen)
			if f.CanSet() {
				switch f.Kind() {
				case reflect.Ptr, reflect.Map, reflect.Slice, reflect.Interface:
					f.Set(reflect.Zero(f.Type()))
				default:
					bump(f)
				}
			}
		}
	case reflect.Map:
		if v.IsNil() {
			return
		}
		for _, k := range v.MapKeys() {
			scramble(v.MapIndex(k), seen)
			v.SetMapIndex(k, reflect.Value{})
		}
		// and an insertion: visible in any other tree that shares this map
		if et := v.Type().Elem(); et.Kind() == reflect.Ptr && et.Elem().Kind() == reflect.Struct {
			v.SetMapIndex(reflect.Zero(v.Type().Key()), reflect.New(et.Elem()))
		}
	case reflect.Slice:
		for i := 0; i < v.Len(); i++ {
			e := v.Index(i)
			scramble(e, seen)
			if e.CanSet() {
				switch e.Kind() {
				case reflect.Ptr, reflect.Map, reflect.Slice, reflect.Interface:
					e.Set(reflect.Zero(e.Type()))
				default:
					bump(e)
				}
			}
		}
	default:
		if v.CanSet() {
			bump(v)
		}
	}
}

func bump(v reflect.Value) {
	switch v.Kind() {
	case reflect.Int, reflect.Int8, reflect.Int16, reflect.Int32, reflect.Int64:
		v.SetInt(v.Int() ^ 0x55)
	case reflect.Uint, reflect.Uint8, reflect.Uint16, reflect.Uint32, reflect.Uint64:
		v.SetUint(v.Uint() ^ 0x55)
	case reflect.String:
		v.SetString(v.String() + "~mutated")
	case reflect.Bool:
		v.SetBool(!v.Bool())
	case reflect.Float64:
		v.SetFloat(v.Float() + 1234.5)
	}
}

// AllocEmptyMaps sets every nil keyed-list (map) field reachable from s to an empty, non-nil
// map and returns how many it set.
func AllocEmptyMaps(s interface{}) int { return allocMaps(reflect.ValueOf(s)) }

func allocMaps(v reflect.Value) int {
	n := 0
	switch v.Kind() {
	case reflect.Ptr:
		if !v.IsNil() && v.Elem().Kind() == reflect.Struct {
			n += allocMaps(v.Elem())
		}
	case reflect.Struct:
		for i := 0; i < v.NumField(); i++ {
			f := v.Field(i)
			if !f.CanSet() {
				continue
			}
			switch {
			case f.Kind() == reflect.Map && f.IsNil():
				f.Set(reflect.MakeMap(f.Type()))
				n++
			case f.Kind() == reflect.Map:
				for _, k := range f.MapKeys() {
					n += allocMaps(f.MapIndex(k))
				}
			case f.Kind() == reflect.Ptr:
				n += allocMaps(f)
			}
		}
	}
	return n
}

// StorageTwin returns a second tree with its own structs, maps, ordered maps and unkeyed-list
// slices, whose leaves share their storage with s: scalar leaf pointers, leaf-list slices,
// binary values and union values are the same cells in both trees.  This is the tree a caller
// obtains by copying container structs by value (a candidate derived from a running
// configuration, entries filled from one template value): a legal tree in which leaves share
// storage.  An operation on s that writes through existing leaf storage instead of replacing
// it changes the twin's leaves too.
func StorageTwin(s interface{}) interface{} {
	return twin(reflect.ValueOf(s)).Interface()
}

func twin(v reflect.Value) reflect.Value {
	if !v.IsValid() {
		return v
	}
	switch v.Kind() {
	case reflect.Ptr:
		if v.IsNil() || v.Elem().Kind() != reflect.Struct {
			return v // a scalar leaf: shared
		}
		n := reflect.New(v.Elem().Type())
		n.Elem().Set(v.Elem())
		for i := 0; i < n.Elem().NumField(); i++ {
			f := n.Elem().Field(i)
			exported := f.CanSet()
			if !exported {
				f = unexported(f)
			}
			switch f.Kind() {
			case reflect.Ptr, reflect.Map:
				f.Set(twin(f))
			case reflect.Slice:
				et := f.Type().Elem()
				switch {
				case f.IsNil():
				case et.Kind() == reflect.Ptr && et.Elem().Kind() == reflect.Struct:
					f.Set(twin(f)) // unkeyed list
				case !exported:
					// internal bookkeeping of an ordered map (its key order), not leaf storage
					c := reflect.MakeSlice(f.Type(), f.Len(), f.Len())
					reflect.Copy(c, f)
					f.Set(c)
				}
			}
		}
		return n
	case reflect.Map:
		if v.IsNil() {
			return v
		}
		m := reflect.MakeMapWithSize(v.Type(), v.Len())
		it := v.MapRange()
		for it.Next() {
			m.SetMapIndex(it.Key(), twin(it.Value()))
		}
		return m
	case reflect.Slice:
		c := reflect.MakeSlice(v.Type(), v.Len(), v.Len())
		for i := 0; i < v.Len(); i++ {
			c.Index(i).Set(twin(v.Index(i)))
		}
		return c
	}
	return v
}
