// Package sdump renders a goyang schema tree (as compiled by goyang from YANG source, or as
// rebuilt from the schema embedded in generated code) in a canonical, comparable form.
package sdump

import (
	"fmt"
	"sort"
	"strings"

	"github.com/openconfig/goyang/pkg/yang"
)

// Node is the canonical description of one schema entry.
type Node struct {
	Path      string   `json:"path"` // schema path incl. choice and case nodes
	Kind      string   `json:"kind"` // container | list | leaf | leaf-list | choice | case | anydata | ...
	Keys      string   `json:"keys,omitempty"`
	Config    string   `json:"config"` // the config statement as written: true | false | unset
	ReadOnly  bool     `json:"readonly"`
	Ordered   string   `json:"ordered,omitempty"`
	Min       string   `json:"min,omitempty"`
	Max       string   `json:"max,omitempty"`
	Presence  bool     `json:"presence,omitempty"`
	Mandatory string   `json:"mandatory,omitempty"`
	Default   []string `json:"default,omitempty"`
	Prefix    string   `json:"prefix,omitempty"`
	Units     string   `json:"units,omitempty"`
	Type      string   `json:"type,omitempty"`
}

func tri(t yang.TriState) string {
	switch t {
	case yang.TSTrue:
		return "true"
	case yang.TSFalse:
		return "false"
	}
	return "unset"
}

// TypeString renders a YangType with everything the property lists: kind, ranges, lengths,
// patterns, enumeration values, identity base and members, union members, leafref path, default.
func TypeString(t *yang.YangType) string {
	if t == nil {
		return ""
	}
	var sb strings.Builder
	fmt.Fprintf(&sb, "%s", yang.TypeKindToName[t.Kind])
	if t.Name != "" && t.Name != yang.TypeKindToName[t.Kind] {
		fmt.Fprintf(&sb, "(%s)", t.Name)
	}
	if len(t.Range) > 0 {
		fmt.Fprintf(&sb, " range=%s", t.Range.String())
	}
	if len(t.Length) > 0 {
		fmt.Fprintf(&sb, " length=%s", t.Length.String())
	}
	if len(t.Pattern) > 0 {
		fmt.Fprintf(&sb, " pattern=%q", t.Pattern)
	}
	if len(t.POSIXPattern) > 0 {
		fmt.Fprintf(&sb, " posix-pattern=%q", t.POSIXPattern)
	}
	if t.FractionDigits != 0 {
		fmt.Fprintf(&sb, " fraction-digits=%d", t.FractionDigits)
	}
	if t.Enum != nil {
		var vs []string
		for name, v := range t.Enum.NameMap() {
			vs = append(vs, fmt.Sprintf("%s=%d", name, v))
		}
		sort.Strings(vs)
		fmt.Fprintf(&sb, " enum={%s}", strings.Join(vs, ","))
	}
	if t.Bit != nil {
		var vs []string
		for name, v := range t.Bit.NameMap() {
			vs = append(vs, fmt.Sprintf("%s=%d", name, v))
		}
		sort.Strings(vs)
		fmt.Fprintf(&sb, " bits={%s}", strings.Join(vs, ","))
	}
	if t.IdentityBase != nil {
		var vs []string
		for _, v := range t.IdentityBase.Values {
			vs = append(vs, v.Name)
		}
		sort.Strings(vs)
		fmt.Fprintf(&sb, " base=%s{%s}", t.IdentityBase.Name, strings.Join(vs, ","))
	}
	if t.Path != "" {
		fmt.Fprintf(&sb, " path=%s", t.Path)
	}
	if t.OptionalInstance {
		sb.WriteString(" optional-instance")
	}
	if t.HasDefault || t.Default != "" {
		fmt.Fprintf(&sb, " default=%q", t.Default)
	}
	if t.Units != "" {
		fmt.Fprintf(&sb, " units=%q", t.Units)
	}
	if len(t.Type) > 0 {
		var ms []string
		for _, m := range t.Type {
			ms = append(ms, TypeString(m))
		}
		fmt.Fprintf(&sb, " union[%s]", strings.Join(ms, " | "))
	}
	return sb.String()
}

func kindOf(e *yang.Entry) string {
	switch {
	case e.Kind == yang.LeafEntry && e.ListAttr != nil:
		return "leaf-list"
	case e.Kind == yang.LeafEntry:
		return "leaf"
	case e.Kind == yang.DirectoryEntry && e.ListAttr != nil:
		return "list"
	case e.Kind == yang.DirectoryEntry:
		return "container"
	case e.Kind == yang.ChoiceEntry:
		return "choice"
	case e.Kind == yang.CaseEntry:
		return "case"
	}
	return fmt.Sprintf("kind-%d", e.Kind)
}

// Walk renders e's children (not e itself: the root of the two trees compared differs -- a fake
// root on one side, modules on the other) below the path prefix. readOnly is the inherited
// config false state.
func Walk(e *yang.Entry, prefix string, readOnly bool, out *[]Node) {
	var names []string
	for n := range e.Dir {
		names = append(names, n)
	}
	sort.Strings(names)
	for _, n := range names {
		c := e.Dir[n]
		ro := readOnly
		switch c.Config {
		case yang.TSFalse:
			ro = true
		case yang.TSTrue:
			ro = false
		}
		nd := Node{Path: prefix + "/" + n, Kind: kindOf(c), Keys: c.Key, Config: tri(c.Config), ReadOnly: ro, Mandatory: tri(c.Mandatory), Default: c.Default, Units: c.Units, Type: TypeString(c.Type)}
		if c.Name != n {
			nd.Kind += " NAME-MISMATCH:" + c.Name
		}
		if c.Prefix != nil {
			nd.Prefix = c.Prefix.Name
		}
		if c.ListAttr != nil {
			if c.ListAttr.OrderedByUser {
				nd.Ordered = "user"
			} else {
				nd.Ordered = "system"
			}
			nd.Min = fmt.Sprint(c.ListAttr.MinElements)
			nd.Max = fmt.Sprint(c.ListAttr.MaxElements)
		}
		if _, ok := c.Extra["presence"]; ok {
			nd.Presence = true
		}
		*out = append(*out, nd)
		Walk(c, nd.Path, ro, out)
	}
}
