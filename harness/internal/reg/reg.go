// Package reg is the registry through which the replay/record commands reach the
// verification packages that check.py generates from /repo's working tree. Each
// generated package gets a glue.go that calls Register in its init function.
package reg

import (
	"reflect"
	"sort"

	"github.com/openconfig/goyang/pkg/yang"
	"github.com/openconfig/ygot/ygot"
	"github.com/openconfig/ygot/ytypes"
)

// Pkg describes one generated package (one point of the configuration matrix).
type Pkg struct {
	Name        string // configuration name, e.g. "us", "cw"
	Compressed  bool
	SimpleUnion bool
	PreferState bool
	ShadowTags  bool
	OrderedMaps bool
	Flags       string

	NewRoot   func() ygot.GoStruct
	Schema    func() (*ytypes.Schema, error)
	Unmarshal func([]byte, ygot.GoStruct, ...ytypes.UnmarshalOpt) error
	EnumMap   map[string]map[int64]ygot.EnumDefinition
	// Unions maps the name of a generated union interface to the Go types that
	// implement it (found by vfgen by scanning the generated source for the marker
	// methods; wrapper unions: pointer-to-struct types, simple unions: named scalars).
	Unions map[string][]reflect.Type
	// Structs maps a generated struct name to its type.
	Structs map[string]reflect.Type
	// Unzip returns the schema tree embedded in the generated code (UnzipSchema).
	Unzip func() (map[string]*yang.Entry, error)
	// PathRoot returns the root of the generated path-struct API (DeviceRoot), when path
	// structs were generated into the package.
	PathRoot func() interface{}
}

var pkgs = map[string]*Pkg{}

// Register adds p to the registry.
func Register(p *Pkg) { pkgs[p.Name] = p }

// Get returns the named package or nil.
func Get(name string) *Pkg { return pkgs[name] }

// Names lists the registered configurations in sorted order.
func Names() []string {
	var n []string
	for k := range pkgs {
		n = append(n, k)
	}
	sort.Strings(n)
	return n
}
