// Package rep holds the result plumbing shared by all replay sub-commands.
package rep

import (
	"encoding/json"
	"fmt"
	"os"
	"sort"
	"sync"
)

// Violation is one property-relevant disagreement between the real code and the model.
type Violation struct {
	Property string            `json:"property"`
	Sig      map[string]string `json:"sig"`    // abstract signature (matched against known_findings.jsonl)
	Detail   string            `json:"detail"` // human-readable
	Case     interface{}       `json:"case"`   // self-contained input for --replay
}

// Result is what a replay sub-command writes for check.py.
type Result struct {
	mu         sync.Mutex
	Evaluated  int                    `json:"evaluated"`
	Skipped    int                    `json:"skipped"`
	Distinct   int                    `json:"distinct"`
	Violations []Violation            `json:"violations"`
	Drift      []string               `json:"drift"`
	Infra      []string               `json:"infra"`
	Samples    []interface{}          `json:"samples"`
	Counters   map[string]int         `json:"counters"`
	Extra      map[string]interface{} `json:"extra"`
	sigSeen    map[string]int
	driftSeen  map[string]bool
}

func New() *Result {
	return &Result{Counters: map[string]int{}, Extra: map[string]interface{}{}, sigSeen: map[string]int{}, driftSeen: map[string]bool{}}
}

func sigKey(prop string, sig map[string]string) string {
	var ks []string
	for k := range sig {
		ks = append(ks, k)
	}
	sort.Strings(ks)
	s := prop
	for _, k := range ks {
		s += "|" + k + "=" + sig[k]
	}
	return s
}

// Violate records a violation; at most 3 cases are kept per signature.
func (r *Result) Violate(prop string, sig map[string]string, detail string, c interface{}) {
	r.mu.Lock()
	defer r.mu.Unlock()
	k := sigKey(prop, sig)
	r.sigSeen[k]++
	r.Counters["violations_total"]++
	if r.sigSeen[k] > 3 {
		return
	}
	r.Violations = append(r.Violations, Violation{prop, sig, detail, c})
}

// DriftNote records a disagreement outside what the property states.
func (r *Result) DriftNote(s string) {
	r.mu.Lock()
	defer r.mu.Unlock()
	if r.driftSeen[s] || len(r.Drift) > 200 {
		return
	}
	r.driftSeen[s] = true
	r.Drift = append(r.Drift, s)
}

// InfraErr records a harness/infrastructure problem (exit 2, never a violation).
func (r *Result) InfraErr(format string, a ...interface{}) {
	r.mu.Lock()
	defer r.mu.Unlock()
	if len(r.Infra) < 50 {
		r.Infra = append(r.Infra, fmt.Sprintf(format, a...))
	}
}

func (r *Result) Count(name string, n int) {
	r.mu.Lock()
	r.Counters[name] += n
	r.mu.Unlock()
}

func (r *Result) Eval(n int) {
	r.mu.Lock()
	r.Evaluated += n
	r.mu.Unlock()
}

func (r *Result) Skip(n int) {
	r.mu.Lock()
	r.Skipped += n
	r.mu.Unlock()
}

func (r *Result) Sample(s interface{}) {
	r.mu.Lock()
	if len(r.Samples) < 5 {
		r.Samples = append(r.Samples, s)
	}
	r.mu.Unlock()
}

// Write stores the result as JSON.
func (r *Result) Write(path string) error {
	b, err := json.MarshalIndent(r, "", " ")
	if err != nil {
		return err
	}
	return os.WriteFile(path, b, 0o644)
}
