// Package conc concretises abstract trees, paths and values emitted by TLC (shape T of
// spec/DataTree.tla) onto the variants of the verification corpus, and holds the
// independent reference encoders (gNMI key strings, TypedValues, RFC 7951 JSON).
package conc

import (
	"encoding/base64"
	"encoding/hex"
	"encoding/json"
	"fmt"
	"hash/fnv"
	"os"
	"sort"
	"strconv"
	"strings"

	gpb "github.com/openconfig/gnmi/proto/gnmi"

	"verif/harness/internal/abs"
	"verif/harness/internal/reg"
)

// Corpus is schemas/variants.json.
type Corpus struct {
	Variants  map[string]*Variant `json:"variants"`
	Pools     map[string][]string `json:"pools"`
	Positions map[string]string   `json:"positions"`
	Lists     map[string][]string `json:"lists"`
	Ordered   []string            `json:"ordered"`
	Presence  []string            `json:"presence"`
}

// Variant is one tN / oN container of the corpus.
type Variant struct {
	Name   string
	Module string            `json:"module"`
	Shape  string            `json:"shape"`
	Roles  map[string]string `json:"roles"`
}

// Load reads variants.json.
func Load(path string) (*Corpus, error) {
	b, err := os.ReadFile(path)
	if err != nil {
		return nil, err
	}
	c := &Corpus{}
	if err := json.Unmarshal(b, c); err != nil {
		return nil, err
	}
	for n, v := range c.Variants {
		v.Name = n
	}
	c.Positions["c/s"] = "s"
	return c, nil
}

// VariantNames returns the variants usable with pkg: the plain module only exists in
// uncompressed packages; OC variants are bound to the tree shape only when compressed.
func (c *Corpus) VariantNames(pkg *reg.Pkg) []string {
	var out []string
	for _, n := range c.VariantNamesAll(pkg) {
		// With wrapper unions a union that has a binary member cannot be unmarshalled at all
		// (known finding, reported once by the C01 check, which uses VariantNamesAll): the
		// other checks leave these variants out for wrapper-union packages.
		if !pkg.SimpleUnion && c.Variants[n].HasType("u-bu") {
			continue
		}
		out = append(out, n)
	}
	return out
}

// HasType reports whether some role of the variant has corpus type t.
func (v *Variant) HasType(t string) bool {
	for _, rt := range v.Roles {
		if rt == t {
			return true
		}
	}
	return false
}

// VariantNamesAll is VariantNames without the wrapper-union exclusion.
func (c *Corpus) VariantNamesAll(pkg *reg.Pkg) []string {
	var out []string
	for n, v := range c.Variants {
		if v.Shape == "T" && !pkg.Compressed {
			out = append(out, n)
		}
		if v.Shape == "OC" && pkg.Compressed {
			out = append(out, n)
		}
	}
	sort.Strings(out)
	return out
}

// Prefix is the path from the fake root to the variant container.
func (v *Variant) Prefix() []string {
	if v.Shape == "T" {
		return []string{"vt", v.Name}
	}
	return []string{"vo", v.Name}
}

// ATree is the JSON form of an abstract tree printed by TreeJson in DataTree.tla.
type ATree struct {
	Lv []json.RawMessage `json:"lv"`
	Ll []json.RawMessage `json:"ll"`
	En []json.RawMessage `json:"en"`
	Oe []json.RawMessage `json:"oe"`
	Ct [][]string        `json:"ct"`
}

type pathVal struct {
	P []string
	V string
}
type pathVals struct {
	P []string
	V []string
}

func decodePV(r json.RawMessage) (pathVal, error) {
	var raw []json.RawMessage
	var pv pathVal
	if err := json.Unmarshal(r, &raw); err != nil || len(raw) != 2 {
		return pv, fmt.Errorf("bad pair %s", r)
	}
	if err := json.Unmarshal(raw[0], &pv.P); err != nil {
		return pv, err
	}
	err := json.Unmarshal(raw[1], &pv.V)
	return pv, err
}

func decodePVs(r json.RawMessage) (pathVals, error) {
	var raw []json.RawMessage
	var pv pathVals
	if err := json.Unmarshal(r, &raw); err != nil || len(raw) != 2 {
		return pv, fmt.Errorf("bad pair %s", r)
	}
	if err := json.Unmarshal(raw[0], &pv.P); err != nil {
		return pv, err
	}
	err := json.Unmarshal(raw[1], &pv.V)
	return pv, err
}

// Ctx fixes corpus, variant and seed rotation.
type Ctx struct {
	C    *Corpus
	V    *Variant
	Seed int64
}

// ErrNoValue means the type's pool is too small for the abstract atom (e.g. "v2" of
// type empty): the case cannot be concretised for this variant and is skipped.
type ErrNoValue struct{ Pos, Atom string }

func (e ErrNoValue) Error() string { return "no concrete value for " + e.Atom + " at " + e.Pos }

func atomIndex(a string) int {
	if len(a) < 2 {
		return -1
	}
	n, err := strconv.Atoi(a[1:])
	if err != nil {
		return -1
	}
	return n - 1
}

// TypeAt returns the corpus type name of the leaf at abstract position pos ("l/sub/w").
func (x *Ctx) TypeAt(pos string) string { return x.V.Roles[x.C.Positions[pos]] }

// Value maps an abstract atom at a leaf position to a canonical concrete value.
func (x *Ctx) Value(pos, atom string) (string, error) {
	role, ok := x.C.Positions[pos]
	if !ok {
		return "", fmt.Errorf("unknown position %q", pos)
	}
	pool := x.C.Pools[x.V.Roles[role]]
	idx := atomIndex(atom)
	if idx < 0 {
		return "", fmt.Errorf("bad atom %q", atom)
	}
	if idx >= len(pool) {
		return "", ErrNoValue{pos, atom}
	}
	h := fnv.New32a()
	h.Write([]byte(pos))
	rot := int((uint64(x.Seed) + uint64(h.Sum32())) % uint64(len(pool)))
	return pool[(idx+rot)%len(pool)], nil
}

// Step is one resolved step of an abstract path.
type Step struct {
	Name string   // node name
	Keys []string // canonical key values, in key order, when Name is a list with a key atom
	KN   []string // key leaf names
	List bool
	Pos  string // schema position up to and including Name
	Wild []int  // indices of the keys that are wildcards (queries only)
}

// Resolve walks an abstract path (names and key atoms) and concretises the keys.
func (x *Ctx) Resolve(ap []string) ([]Step, error) {
	var out []Step
	pos := ""
	for i := 0; i < len(ap); i++ {
		n := ap[i]
		if pos == "" {
			pos = n
		} else {
			pos = pos + "/" + n
		}
		st := Step{Name: n, Pos: pos}
		if kn, ok := x.C.Lists[pos]; ok {
			st.List = true
			st.KN = kn
			if i+1 < len(ap) {
				i++
				parts := strings.Split(ap[i], ".")
				if len(parts) != len(kn) {
					return nil, fmt.Errorf("key atom %q for list %s", ap[i], pos)
				}
				for j, a := range parts {
					if a == "*" {
						// a wildcard key (queries): no concretisation
						st.Keys = append(st.Keys, "str:*")
						st.Wild = append(st.Wild, j)
						continue
					}
					c, err := x.Value(pos+"/"+kn[j], a)
					if err != nil {
						return nil, err
					}
					st.Keys = append(st.Keys, c)
				}
			}
		}
		out = append(out, st)
	}
	return out, nil
}

// AbsPath converts an abstract path to the harness path (abs.Path) from the fake root.
func (x *Ctx) AbsPath(ap []string) (abs.Path, error) {
	steps, err := x.Resolve(ap)
	if err != nil {
		return nil, err
	}
	p := abs.Path(append([]string{}, x.V.Prefix()...))
	for _, s := range steps {
		p = append(p, s.Name)
		if s.Keys != nil {
			p = append(p, "="+strings.Join(s.Keys, abs.KSep))
		}
	}
	return p, nil
}

func posOf(steps []Step) string { return steps[len(steps)-1].Pos }

// Tree concretises an abstract tree. Containers on the way from the fake root to the
// variant are added when the tree is non-empty.
func (x *Ctx) Tree(a *ATree) (*abs.Tree, error) {
	t := abs.NewTree()
	any := false
	for _, r := range a.Lv {
		pv, err := decodePV(r)
		if err != nil {
			return nil, err
		}
		steps, err := x.Resolve(pv.P)
		if err != nil {
			return nil, err
		}
		p, _ := x.AbsPath(pv.P)
		c, err := x.Value(posOf(steps), pv.V)
		if err != nil {
			return nil, err
		}
		t.Leaves[p.String()] = c
		any = true
	}
	for _, r := range a.Ll {
		pv, err := decodePVs(r)
		if err != nil {
			return nil, err
		}
		steps, err := x.Resolve(pv.P)
		if err != nil {
			return nil, err
		}
		p, _ := x.AbsPath(pv.P)
		vals := []string{}
		for _, a := range pv.V {
			c, err := x.Value(posOf(steps), a)
			if err != nil {
				return nil, err
			}
			vals = append(vals, c)
		}
		t.LL[p.String()] = vals
		any = true
	}
	ents := func(rs []json.RawMessage, ordered bool) error {
		for _, r := range rs {
			pv, err := decodePVs(r)
			if err != nil {
				return err
			}
			lp, err := x.AbsPath(pv.P)
			if err != nil {
				return err
			}
			var ks []string
			for _, k := range pv.V {
				ep, err := x.AbsPath(append(append([]string{}, pv.P...), k))
				if err != nil {
					return err
				}
				ks = append(ks, ep[len(ep)-1])
			}
			if !ordered {
				sort.Strings(ks)
			} else {
				t.Ordered[lp.String()] = true
			}
			t.Ents[lp.String()] = ks
			any = any || len(ks) > 0
		}
		return nil
	}
	if err := ents(a.En, false); err != nil {
		return nil, err
	}
	if err := ents(a.Oe, true); err != nil {
		return nil, err
	}
	for _, c := range a.Ct {
		p, err := x.AbsPath(c)
		if err != nil {
			return nil, err
		}
		t.Conts[p.String()] = true
		any = true
	}
	if any {
		pre := x.V.Prefix()
		for i := 1; i <= len(pre); i++ {
			t.Conts[abs.Path(pre[:i]).String()] = true
		}
	}
	return t, nil
}

// NormalizeTop removes from t the containers above the variant (vt, vt/tN): whether they
// exist is not part of the abstract state. It also drops the Ordered marks.
func NormalizeTop(t *abs.Tree, v *Variant) *abs.Tree {
	pre := v.Prefix()
	for i := 1; i <= len(pre); i++ {
		delete(t.Conts, abs.Path(pre[:i]).String())
	}
	return t
}

// Restrict keeps only what lies below the variant container.
func Restrict(t *abs.Tree, v *Variant) *abs.Tree {
	pre := abs.Path(v.Prefix()).String() + abs.Sep
	o := abs.NewTree()
	for k, x := range t.Leaves {
		if strings.HasPrefix(k, pre) {
			o.Leaves[k] = x
		}
	}
	for k, x := range t.LL {
		if strings.HasPrefix(k, pre) {
			o.LL[k] = x
		}
	}
	for k, x := range t.Ents {
		if strings.HasPrefix(k, pre) && len(x) > 0 {
			o.Ents[k] = x
		}
	}
	for k := range t.Conts {
		if strings.HasPrefix(k, pre) && !strings.HasSuffix(k, "<emptymap>") {
			o.Conts[k] = true
		}
	}
	return o
}

// ---------------------------------------------------------------------------------
// reference encoders

// IdentityModule is the module that defines the identities of the corpus.
const IdentityModule = "vf-ids"

// KeyString is the reference gNMI path key string of a canonical value.
func KeyString(c string) string {
	kind, body, _ := strings.Cut(c, ":")
	switch kind {
	case "bin":
		b, _ := hex.DecodeString(body)
		return base64.StdEncoding.EncodeToString(b)
	case "empty":
		return "true"
	}
	return body
}

// GNMIPath returns the data-tree gNMI path of an abstract path for the given package.
// For the OC shape in compressed packages the data path re-inserts the compressed-out
// containers; leaves live in config/ (state/ for state-only leaves, or for all leaves
// with prefer_operational_state).
func (x *Ctx) GNMIPath(ap []string, pkg *reg.Pkg) (*gpb.Path, error) {
	steps, err := x.Resolve(ap)
	if err != nil {
		return nil, err
	}
	p := &gpb.Path{}
	for _, n := range x.V.Prefix() {
		p.Elem = append(p.Elem, &gpb.PathElem{Name: n})
	}
	for i, s := range steps {
		e := &gpb.PathElem{Name: s.Name}
		if s.Keys != nil {
			e.Key = map[string]string{}
			for j, k := range s.KN {
				e.Key[k] = KeyString(s.Keys[j])
			}
		}
		if x.V.Shape == "OC" {
			if s.List {
				p.Elem = append(p.Elem, &gpb.PathElem{Name: s.Name + "s"})
			}
			_, isLeaf := x.C.Positions[s.Pos]
			if isLeaf && i == len(steps)-1 {
				cs := "config"
				if pkg.PreferState || s.Pos == "c/s" {
					cs = "state"
				}
				p.Elem = append(p.Elem, &gpb.PathElem{Name: cs})
			}
		}
		p.Elem = append(p.Elem, e)
	}
	return p, nil
}

// IsPresence reports whether the container at schema position pos is a presence container.
func (x *Ctx) IsPresence(pos string) bool {
	for _, p := range x.C.Presence {
		if p == pos {
			return true
		}
	}
	return false
}

// PosOf returns the schema position of an abs.Path that starts at the fake root.
func (x *Ctx) PosOf(p abs.Path) string { return x.posOfAbs(p) }

// Decimal marks a reference JSON string that encodes a decimal64 (compared by lexical
// class and value rather than byte-for-byte).
type Decimal string

// SameDecimal compares two decimal strings numerically.
func SameDecimal(a, b string) bool {
	fa, err1 := strconv.ParseFloat(a, 64)
	fb, err2 := strconv.ParseFloat(b, 64)
	return err1 == nil && err2 == nil && fa == fb
}

// IsIdentity reports whether corpus type typ holds identity values.
func IsIdentity(typ string) bool { return typ == "idref" || typ == "u-iu" }

// TypedValue is the reference scalar TypedValue encoding of a canonical value of corpus
// type typ (gNMI specification section 2.2.3 / ygot's documented encoding).
func TypedValue(c, typ string) *gpb.TypedValue {
	kind, body, _ := strings.Cut(c, ":")
	switch {
	case strings.HasPrefix(kind, "int"):
		n, _ := strconv.ParseInt(body, 10, 64)
		return &gpb.TypedValue{Value: &gpb.TypedValue_IntVal{IntVal: n}}
	case strings.HasPrefix(kind, "uint"):
		n, _ := strconv.ParseUint(body, 10, 64)
		return &gpb.TypedValue{Value: &gpb.TypedValue_UintVal{UintVal: n}}
	}
	switch kind {
	case "str":
		return &gpb.TypedValue{Value: &gpb.TypedValue_StringVal{StringVal: body}}
	case "bool":
		return &gpb.TypedValue{Value: &gpb.TypedValue_BoolVal{BoolVal: body == "true"}}
	case "dec":
		f, _ := strconv.ParseFloat(body, 64)
		return &gpb.TypedValue{Value: &gpb.TypedValue_DoubleVal{DoubleVal: f}}
	case "enum":
		return &gpb.TypedValue{Value: &gpb.TypedValue_StringVal{StringVal: body}}
	case "bin":
		b, _ := hex.DecodeString(body)
		if b == nil {
			b = []byte{}
		}
		return &gpb.TypedValue{Value: &gpb.TypedValue_BytesVal{BytesVal: b}}
	case "empty":
		return &gpb.TypedValue{Value: &gpb.TypedValue_BoolVal{BoolVal: true}}
	}
	return nil
}

// LeafListValue encodes a leaf-list as a TypedValue.
func LeafListValue(cs []string, typ string) *gpb.TypedValue {
	sa := &gpb.ScalarArray{}
	for _, c := range cs {
		sa.Element = append(sa.Element, TypedValue(c, typ))
	}
	return &gpb.TypedValue{Value: &gpb.TypedValue_LeaflistVal{LeaflistVal: sa}}
}

// JSONValue is the reference RFC 7951 encoding of a canonical scalar as a Go value ready
// for json.Marshal (json.Number for numbers).
func JSONValue(c, typ string) interface{} { return JSONValueOpt(c, typ, true, false) }

// JSONValueOpt is JSONValue with the identityref module prefix optional and decimal64
// strings optionally marked as Decimal.
func JSONValueOpt(c, typ string, idPrefix, markDec bool) interface{} {
	kind, body, _ := strings.Cut(c, ":")
	switch kind {
	case "int8", "int16", "int32", "uint8", "uint16", "uint32":
		return json.Number(body)
	case "int64", "uint64":
		return body
	case "dec":
		if markDec {
			return Decimal(body)
		}
		return body
	case "str":
		return body
	case "bool":
		return body == "true"
	case "enum":
		if IsIdentity(typ) && idPrefix {
			return IdentityModule + ":" + body
		}
		return body
	case "bin":
		b, _ := hex.DecodeString(body)
		return base64.StdEncoding.EncodeToString(b)
	case "empty":
		return []interface{}{nil}
	}
	return nil
}

// JSONIETF returns a json_ietf_val TypedValue holding v.
func JSONIETF(v interface{}) *gpb.TypedValue {
	b, err := json.Marshal(v)
	if err != nil {
		panic(err)
	}
	return &gpb.TypedValue{Value: &gpb.TypedValue_JsonIetfVal{JsonIetfVal: b}}
}

// IsOrdered reports whether corpus list l is ordered-by user.
func (c *Corpus) IsOrdered(l string) bool {
	for _, o := range c.Ordered {
		if o == l {
			return true
		}
	}
	return false
}
