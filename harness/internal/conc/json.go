package conc

import (
	"sort"
	"strings"

	"verif/harness/internal/abs"
	"verif/harness/internal/reg"
)

// JSONOpts selects the flavour of the reference RFC 7951 document.
type JSONOpts struct {
	ModulePrefix   bool // prefix member names with the module name where RFC 7951 requires it
	IdentityPrefix bool // identityref values as module:name (RFC 7951) instead of the bare name
	MarkDecimals   bool // decimal64 strings as conc.Decimal
}

// node is the intermediate data-tree form of a document.
type jnode struct {
	leaf     interface{}
	isLeaf   bool
	children map[string]*jnode
	order    []string
	entries  []*jnode // list entries in order
	isList   bool
	// reference-document mode only:
	unordered bool // array of an unordered list
	prunable  bool // non-presence container: not rendered when empty
}

func newObj() *jnode { return &jnode{children: map[string]*jnode{}} }

func (n *jnode) child(name string) *jnode {
	c, ok := n.children[name]
	if !ok {
		c = newObj()
		n.children[name] = c
		n.order = append(n.order, name)
	}
	return c
}

// Unordered marks the array of an unordered (ordered-by system) list in a reference
// document: entry order is not significant when comparing.
type Unordered []interface{}

func (n *jnode) value() interface{} {
	if n.isLeaf {
		return n.leaf
	}
	if n.isList {
		out := []interface{}{}
		for _, e := range n.entries {
			out = append(out, e.value())
		}
		if n.unordered {
			return Unordered(out)
		}
		return out
	}
	m := map[string]interface{}{}
	for k, c := range n.children {
		if c.prunable && !c.isLeaf && !c.isList && c.empty() {
			continue
		}
		m[k] = c.value()
	}
	return m
}

// empty reports whether an object renders without members (recursively prunable).
func (n *jnode) empty() bool {
	if n.isLeaf {
		return false
	}
	if n.isList {
		return len(n.entries) == 0
	}
	for _, c := range n.children {
		if !(c.prunable && !c.isLeaf && c.empty()) {
			return false
		}
	}
	return true
}

// dataSteps maps one abstract step (name at schema position pos, leaf or not) to the
// data-tree element names of the variant's shape in package pkg.
func (x *Ctx) dataSteps(name, pos string, isLeaf bool, pkg *reg.Pkg) []string {
	if x.V.Shape != "OC" {
		return []string{name}
	}
	if _, isList := x.C.Lists[pos]; isList {
		return []string{name + "s", name}
	}
	if isLeaf {
		cs := "config"
		if (pkg != nil && pkg.PreferState) || pos == "c/s" {
			cs = "state"
		}
		return []string{cs, name}
	}
	return []string{name}
}

func (x *Ctx) posOfAbs(p abs.Path) string {
	var names []string
	for _, s := range p[len(x.V.Prefix()):] {
		if !strings.HasPrefix(s, "=") {
			names = append(names, s)
		}
	}
	return strings.Join(names, "/")
}

// RenderJSON renders the part of the concrete tree t that lies below `at` (an abs.Path from
// the fake root: a container, a list entry, the variant container, or the fake root itself
// when at is empty) as an RFC 7951 document for package pkg. It is the reference encoder:
// it shares nothing with ygot's renderer.
func (x *Ctx) RenderJSON(t *abs.Tree, at abs.Path, pkg *reg.Pkg, o JSONOpts) interface{} {
	root := newObj()
	pre := at.String()
	under := func(k string) (abs.Path, bool) {
		if pre == "" {
			return abs.Path(strings.Split(k, abs.Sep)), true
		}
		if k == pre {
			return nil, true
		}
		if strings.HasPrefix(k, pre+abs.Sep) {
			return abs.Path(strings.Split(k[len(pre)+1:], abs.Sep)), true
		}
		return nil, false
	}
	mod := x.V.Module
	name := func(n string, top bool) string {
		if o.ModulePrefix && top {
			return mod + ":" + n
		}
		return n
	}
	// descend creates the object for relative path rel (containers / entries) and returns it.
	var descend func(rel abs.Path) *jnode
	descend = func(rel abs.Path) *jnode {
		cur := root
		full := append(abs.Path{}, at...)
		top := true
		for i := 0; i < len(rel); i++ {
			s := rel[i]
			full = append(full, s)
			if len(full) <= len(x.V.Prefix()) {
				cur = cur.child(name(s, top))
				top = false
				cur.prunable = o.MarkDecimals
				continue
			}
			pos := x.posOfAbs(full)
			if kn, isList := x.C.Lists[pos]; isList && i+1 < len(rel) {
				ds := x.dataSteps(s, pos, false, pkg)
				for _, d := range ds {
					cur = cur.child(name(d, top))
					top = false
				}
				cur.isList = true
				if o.MarkDecimals && !x.isOrderedPos(pos) {
					cur.unordered = true
				}
				i++
				key := rel[i]
				full = append(full, key)
				var ent *jnode
				for _, e := range cur.entries {
					if e.children["\x00key"] != nil && e.children["\x00key"].leaf == key {
						ent = e
					}
				}
				if ent == nil {
					ent = newObj()
					ent.children["\x00key"] = &jnode{isLeaf: true, leaf: key}
					cur.entries = append(cur.entries, ent)
					// OpenConfig style: the entry's direct key leaves are leafrefs to config/<key>
					if x.V.Shape == "OC" {
						parts := strings.Split(key[1:], abs.KSep)
						for j, k := range kn {
							typ := x.TypeAt(pos + "/" + k)
							ent.child(k).isLeaf = true
							ent.children[k].leaf = x.jsonVal(parts[j], typ, o)
						}
					}
				}
				cur = ent
				continue
			}
			for _, d := range x.dataSteps(s, pos, false, pkg) {
				cur = cur.child(name(d, top))
				top = false
				if o.MarkDecimals && !x.IsPresence(pos) {
					cur.prunable = true
				}
			}
		}
		return cur
	}
	// entries, in order
	var ls []string
	for l := range t.Ents {
		ls = append(ls, l)
	}
	sort.Slice(ls, func(i, j int) bool {
		if len(ls[i]) != len(ls[j]) {
			return len(ls[i]) < len(ls[j])
		}
		return ls[i] < ls[j]
	})
	for _, l := range ls {
		for _, k := range t.Ents[l] {
			if rel, ok := under(l + abs.Sep + k); ok && rel != nil {
				descend(rel)
			}
		}
	}
	// containers
	var cs []string
	for c := range t.Conts {
		cs = append(cs, c)
	}
	sort.Strings(cs)
	for _, c := range cs {
		if rel, ok := under(c); ok && rel != nil {
			descend(rel)
		}
	}
	setLeaf := func(k string, v interface{}) {
		rel, ok := under(k)
		if !ok || rel == nil {
			return
		}
		parent := descend(rel[:len(rel)-1])
		full := append(append(abs.Path{}, at...), rel...)
		pos := x.posOfAbs(full)
		cur := parent
		top := len(rel) == 1
		for _, d := range x.dataSteps(rel[len(rel)-1], pos, true, pkg) {
			cur = cur.child(name(d, top))
			top = false
			cur.prunable = o.MarkDecimals
		}
		cur.isLeaf = true
		cur.leaf = v
	}
	for k, v := range t.Leaves {
		full := abs.Path(strings.Split(k, abs.Sep))
		setLeaf(k, x.jsonVal(v, x.TypeAt(x.posOfAbs(full)), o))
	}
	for k, vs := range t.LL {
		full := abs.Path(strings.Split(k, abs.Sep))
		typ := x.TypeAt(x.posOfAbs(full))
		arr := []interface{}{}
		for _, v := range vs {
			arr = append(arr, x.jsonVal(v, typ, o))
		}
		setLeaf(k, arr)
	}
	strip(root)
	return root.value()
}

// jsonVal encodes a scalar. Documents used as input payloads (no option set) carry the
// identityref module prefix, as RFC 7951 prescribes.
func (x *Ctx) jsonVal(c, typ string, o JSONOpts) interface{} {
	if !o.MarkDecimals && !o.IdentityPrefix {
		return JSONValueOpt(c, typ, true, false)
	}
	return JSONValueOpt(c, typ, o.IdentityPrefix, o.MarkDecimals)
}

func (x *Ctx) isOrderedPos(pos string) bool {
	for _, o := range x.C.Ordered {
		if o == pos {
			return true
		}
	}
	return false
}

func strip(n *jnode) {
	delete(n.children, "\x00key")
	for _, c := range n.children {
		strip(c)
	}
	for _, e := range n.entries {
		strip(e)
	}
}
