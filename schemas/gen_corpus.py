#!/usr/bin/env python3
"""Generates the verification YANG corpus and variants.json.

Design time only: the outputs (vf-*.yang, variants.json) are committed. The corpus is
a family of *variants* of one abstract tree shape (see spec/DataTree.tla, constant
Shape): every variant is a top-level container tN whose nodes have the same names and
kinds but different YANG types, so that one abstract transition emitted by TLC can be
replayed on every key type / leaf type.

  shape "T" (module vf-tree, plain YANG):
     tN/c/a  tN/c/b  tN/c/ll(leaf-list)  tN/c/p(presence)/x
     tN/l[k]/{k,v,sub/w}      tN/ol[k]/{k,v} (ordered-by user)
     tN/m[k1 k2]/{k1,k2,v}    tN/st(config false)/{s, ul(unkeyed list)/u}
  shape "OC" (module vf-oc, OpenConfig style: config/state duplication, surrounding
     containers, leafref keys); compressed it has the same field positions as "T".
"""
import json, os

HERE = os.path.dirname(os.path.abspath(__file__))

# type name -> (yang type statement, pool of canonical concrete values)
# canonical forms:  int8:-1  uint64:5  str:abc  bool:true  dec:1.5  enum:NAME  id:NAME
#                   bin:<hex>  empty
TYPES = {
    "int8":   ("type int8;",   ["int8:-128", "int8:127", "int8:-1", "int8:0", "int8:1"]),
    "int16":  ("type int16;",  ["int16:-32768", "int16:32767", "int16:-1", "int16:0"]),
    "int32":  ("type int32;",  ["int32:-2147483648", "int32:2147483647", "int32:-1", "int32:0"]),
    "int64":  ("type int64;",  ["int64:-9223372036854775808", "int64:9223372036854775807", "int64:-1", "int64:0", "int64:9007199254740993"]),
    "uint8":  ("type uint8;",  ["uint8:255", "uint8:0", "uint8:1"]),
    "uint16": ("type uint16;", ["uint16:65535", "uint16:0", "uint16:7"]),
    "uint32": ("type uint32;", ["uint32:4294967295", "uint32:0", "uint32:42"]),
    "uint64": ("type uint64;", ["uint64:18446744073709551615", "uint64:0", "uint64:9007199254740993"]),
    "string": ("type string;", ["str:alpha", "str:x y", "str:k=v", "str:é", "str:Beta-2", "str:*", "str:a/b]c"]),
    "boolean": ("type boolean;", ["bool:true", "bool:false"]),
    "dec2":   ("type decimal64 { fraction-digits 2; }", ["dec:-1.25", "dec:3.5", "dec:0", "dec:1000000.01"]),
    "enum":   ("type colour;", ["enum:RED", "enum:GREEN", "enum:BLUE"]),
    "idref":  ("type identityref { base vf-ids:SHAPE; }", ["enum:CIRCLE", "enum:SQUARE", "enum:TRI"]),
    "u-is":   ("type uis;", ["int32:-5", "str:abc", "int32:0", "str:zz", "int32:7"]),
    "u-bu":   ("type ubu;", ["bin:00ff10", "uint16:9", "bin:616263", "uint16:0"]),
    "u-bs":   ("type ubs;", ["bool:true", "str:True", "str:1", "str:abc", "bool:false", "str:t"]),
    "u-iu":   ("type uiu;", ["enum:CIRCLE", "uint8:9", "enum:TRI", "uint8:0"]),
    "u-eu":   ("type ueu;", ["enum:E1", "uint32:9", "enum:E2", "uint32:0"]),
    # members declared against the numeric order of their kinds: a value both accept belongs to the first
    "u-ul":   ("type uul;", ["uint64:5", "int64:-3", "uint64:0", "uint64:18446744073709551615", "int64:-9223372036854775808"]),
    # a 64-bit signed member first: its zero is a Go zero value of kind int64
    "u-lb":   ("type ulb;", ["int64:0", "bool:true", "int64:-7", "bool:false", "int64:9007199254740993"]),
    "binary": ("type binary;", ["bin:00ff10", "bin:", "bin:616263", "bin:fbefbe"]),   # fbefbe is "++++" in base64
    "empty":  ("type empty;", ["empty"]),
}

# role -> type, per variant.  Roles of shape T.
ROLES = ["a", "b", "ll", "x", "k", "v", "w", "ok", "ov", "k1", "k2", "mv", "s", "u", "ow"]
T_VARIANTS = {
    #        a        b         ll        x         k         v        w         ok        ov       k1        k2        mv       s        u
    "t1": ["string", "int32",  "string", "uint8",  "string", "string", "int8",  "string", "uint16", "string", "uint8",  "string", "uint64", "string", "string"],
    "t2": ["int8",   "uint64", "int32",  "string", "int8",   "int64", "boolean", "uint32", "string", "int16",  "string", "dec2",   "string", "int32", "uint8"],
    "t3": ["int64",  "dec2",   "uint64", "boolean", "uint64", "dec2",  "string", "int64",  "enum",  "uint64", "int64",  "boolean", "enum",   "enum", "enum"],
    "t4": ["enum",   "idref",  "enum",   "empty",  "enum",   "idref", "enum",   "enum",   "idref", "enum",   "idref",  "enum",   "idref",  "idref", "idref"],
    "t5": ["u-is",   "u-eu",   "u-is",   "u-is",   "u-is",   "u-eu",  "u-is",   "u-is",   "u-eu",  "u-is",   "enum",   "u-is",   "u-eu",   "u-is", "u-eu"],
    "t6": ["binary", "boolean", "dec2",  "binary", "boolean", "binary", "uint32", "dec2",  "binary", "boolean", "dec2",  "binary", "boolean", "dec2", "binary"],
    "t7": ["uint16", "int16",  "idref",  "int64",  "idref",  "uint8", "uint16", "idref",  "int32", "uint32", "uint16", "int16",  "int8",   "uint8", "int64"],
    "t8": ["uint32", "string", "u-eu",   "dec2",   "dec2",   "u-is",  "idref",  "u-eu",   "u-is",  "u-eu",   "int32",  "u-eu",   "dec2",   "u-eu", "dec2"],
    "t9": ["dec2",   "uint8",  "int8",   "enum",   "int16",  "enum",  "dec2",   "int8",   "int64", "int8",   "boolean", "int64",  "uint16", "int64", "boolean"],
    "t10": ["u-bu",  "u-iu",   "u-bu",   "u-bu",   "u-bs",   "u-bu",  "u-iu",   "uint8",  "u-bu",  "int32",  "string", "u-iu",   "u-bu",   "u-bu",  "u-bu"],
    "t11": ["u-lb",  "u-ul",   "u-iu",   "u-ul",   "u-ul",   "u-lb",  "u-ul",   "u-lb",   "u-ul",  "u-ul",   "u-lb",   "u-lb",   "u-ul",   "u-lb",  "u-lb"],
}
OC_VARIANTS = {
    "o1": ["string", "int32",  "string", "uint8",  "string", "string", "int8",  "string", "uint16", "string", "uint8",  "string", "uint64", "string", "int16"],
    "o2": ["enum",   "uint64", "int32",  "string", "uint32", "idref", "boolean", "enum",  "string", "int16",  "idref",  "dec2",   "enum",   "int32", "enum"],
    "o3": ["u-is",   "dec2",   "u-eu",   "int64",  "u-is",   "u-eu",  "string", "int64",  "u-is",  "enum",   "u-is",   "boolean", "idref",  "u-is", "u-is"],
    "o4": ["int64",  "binary", "uint64", "boolean", "int8",  "binary", "dec2",  "idref",  "int64", "uint64", "int64",  "u-eu",   "dec2",   "dec2", "uint64"],
    "o5": ["u-bu",   "u-iu",   "u-bu",   "u-bu",   "u-bs",   "u-iu",  "u-bu",   "uint16", "u-bu",  "string", "string", "u-bu",   "u-bu",   "u-bu", "u-bu"],
    "o6": ["u-lb",   "u-ul",   "u-ul",   "u-lb",   "u-ul",   "u-lb",  "u-ul",   "u-lb",   "u-ul",  "u-lb",   "u-ul",   "u-lb",   "u-ul",   "u-lb", "u-ul"],
}


def leaf(name, t, ind, extra=""):
    return f"{ind}leaf {name} {{ {TYPES[t][0]}{extra} }}\n"


def leaflist(name, t, ind, extra=""):
    return f"{ind}leaf-list {name} {{ {TYPES[t][0]}{extra} }}\n"


def gen_tree():
    out = ["module vf-tree {\n  yang-version 1.1;\n  namespace \"urn:vf:tree\";\n  prefix vt;\n"
           "  import vf-ids { prefix vf-ids; }\n\n"
           "  typedef colour { type enumeration { enum RED { value 1; } enum GREEN { value 5; } enum BLUE { value 7; } enum \"1:N\" { value 9; } } }\n"
           "  typedef uis { type union { type int32; type string { pattern '[a-z]+'; } } }\n"
           "  typedef e12 { type enumeration { enum E1; enum E2; } }\n"
           "  typedef ueu { type union { type e12; type uint32; } }\n"
           "  typedef ubu { type union { type uint16; type binary; } }\n"
           "  typedef ubs { type union { type boolean; type string; } }\n"
           "  typedef uiu { type union { type identityref { base vf-ids:SHAPE; } type uint8; } }\n"
           "  typedef uul { type union { type uint64; type int64; } }\n"
           "  typedef ulb { type union { type int64; type boolean; } }\n\n"]
    out.append("  container vt {\n")
    for name, types in T_VARIANTS.items():
        r = dict(zip(ROLES, types))
        s = f"  container {name} {{\n"
        s += "    container c {\n"
        s += leaf("a", r["a"], "      ") + leaf("b", r["b"], "      ") + leaflist("ll", r["ll"], "      ")
        s += "      container p {\n        presence \"p\";\n" + leaf("x", r["x"], "        ") + "      }\n"
        if int(name[1:]) % 2 == 0:
            # even-numbered variants: a derived-state leaf c/s whose config false statement sits on the
            # choice around it (legal YANG: the nodes of the choice inherit it)
            s += "      choice cc {\n        config false;\n" + leaf("s", r["s"], "        ") + "      }\n"
        s += "    }\n"
        s += "    list l {\n      key \"k\";\n" + leaf("k", r["k"], "      ") + leaf("v", r["v"], "      ")
        s += "      container sub {\n" + leaf("w", r["w"], "        ") + "      }\n    }\n"
        s += "    list ol {\n      key \"k\";\n      ordered-by user;\n" + leaf("k", r["ok"], "      ") + leaf("v", r["ov"], "      ") + "      container sub {\n" + leaf("w", r["ow"], "        ") + "      }\n    }\n"
        s += "    list m {\n      key \"k1 k2\";\n" + leaf("k1", r["k1"], "      ") + leaf("k2", r["k2"], "      ") + leaf("v", r["mv"], "      ") + "    }\n"
        s += "    list om {\n      key \"k1 k2\";\n      ordered-by user;\n" + leaf("k1", r["k1"], "      ") + leaf("k2", r["k2"], "      ") + leaf("v", r["mv"], "      ") + "    }\n"
        s += "    list n {\n      key \"y x\";\n" + leaf("y", r["k1"], "      ") + leaf("x", r["k1"], "      ") + leaf("v", r["mv"], "      ") + "    }\n"
        s += "    container st {\n      config false;\n" + leaf("s", r["s"], "      ")
        s += "      list ul {\n" + leaf("u", r["u"], "        ") + "      }\n    }\n"
        s += "  }\n"
        out.append(s)
    out.append("  }\n}\n")
    return "".join(out)


def cs(body_cfg, body_state_extra, ind):
    """config/state pair of containers."""
    return (f"{ind}container config {{\n{body_cfg}{ind}}}\n"
            f"{ind}container state {{\n{ind}  config false;\n{body_cfg}{body_state_extra}{ind}}}\n")


def gen_oc():
    out = ["module vf-oc {\n  yang-version 1.1;\n  namespace \"urn:vf:oc\";\n  prefix vo;\n"
           "  import vf-ids { prefix vf-ids; }\n\n"
           "  typedef colour { type enumeration { enum RED { value 1; } enum GREEN { value 5; } enum BLUE { value 7; } enum \"1:N\" { value 9; } } }\n"
           "  typedef uis { type union { type int32; type string { pattern '[a-z]+'; } } }\n"
           "  typedef e12 { type enumeration { enum E1; enum E2; } }\n"
           "  typedef ueu { type union { type e12; type uint32; } }\n"
           "  typedef ubu { type union { type uint16; type binary; } }\n"
           "  typedef ubs { type union { type boolean; type string; } }\n"
           "  typedef uiu { type union { type identityref { base vf-ids:SHAPE; } type uint8; } }\n"
           "  typedef uul { type union { type uint64; type int64; } }\n"
           "  typedef ulb { type union { type int64; type boolean; } }\n\n"]
    out.append("  container vo {\n")
    for name, types in OC_VARIANTS.items():
        r = dict(zip(ROLES, types))
        i8 = "        "
        s = f"  container {name} {{\n    container c {{\n"
        s += cs(leaf("a", r["a"], i8) + leaf("b", r["b"], i8) + leaflist("ll", r["ll"], i8), leaf("s", r["s"], i8), "      ")
        s += "      container p {\n        presence \"p\";\n" + cs(leaf("x", r["x"], "          "), "", "        ") + "      }\n"
        s += "    }\n"
        # keyed list with surrounding container, leafref key
        s += "    container ls {\n      list l {\n        key \"k\";\n        leaf k { type leafref { path \"../config/k\"; } }\n"
        s += cs(leaf("k", r["k"], "          ") + leaf("v", r["v"], "          "), "", "        ")
        s += "        container sub {\n" + cs(leaf("w", r["w"], "            "), "", "          ") + "        }\n"
        s += "      }\n    }\n"
        s += "    container ols {\n      list ol {\n        key \"k\";\n        ordered-by user;\n        leaf k { type leafref { path \"../config/k\"; } }\n"
        s += cs(leaf("k", r["ok"], "          ") + leaf("v", r["ov"], "          "), "", "        ")
        s += "        container sub {\n" + cs(leaf("w", r["ow"], "            "), "", "          ") + "        }\n"
        s += "      }\n    }\n"
        s += "    container ms {\n      list m {\n        key \"k1 k2\";\n        leaf k1 { type leafref { path \"../config/k1\"; } }\n        leaf k2 { type leafref { path \"../config/k2\"; } }\n"
        s += cs(leaf("k1", r["k1"], "          ") + leaf("k2", r["k2"], "          ") + leaf("v", r["mv"], "          "), "", "        ")
        s += "      }\n    }\n"
        s += "    container ns {\n      list n {\n        key \"y x\";\n        leaf y { type leafref { path \"../config/y\"; } }\n        leaf x { type leafref { path \"../config/x\"; } }\n"
        s += cs(leaf("y", r["k1"], "          ") + leaf("x", r["k1"], "          ") + leaf("v", r["mv"], "          "), "", "        ")
        s += "      }\n    }\n"
        s += "    container oms {\n      list om {\n        key \"k1 k2\";\n        ordered-by user;\n        leaf k1 { type leafref { path \"../config/k1\"; } }\n        leaf k2 { type leafref { path \"../config/k2\"; } }\n"
        s += cs(leaf("k1", r["k1"], "          ") + leaf("k2", r["k2"], "          ") + leaf("v", r["mv"], "          "), "", "        ")
        s += "      }\n    }\n"
        s += "  }\n"
        out.append(s)
    out.append("  }\n}\n")
    return "".join(out)


IDS = """module vf-ids {
  yang-version 1.1;
  namespace "urn:vf:ids";
  prefix vf-ids;

  identity SHAPE;
  identity CIRCLE { base SHAPE; }
  identity SQUARE { base SHAPE; }
  identity TRI { base SHAPE; }
}
"""


def variants():
    v = {}
    for name, types in T_VARIANTS.items():
        r = dict(zip(ROLES, types))
        v[name] = {"module": "vf-tree", "shape": "T", "roles": r}
    for name, types in OC_VARIANTS.items():
        r = dict(zip(ROLES, types))
        v[name] = {"module": "vf-oc", "shape": "OC", "roles": r}
    pools = {t: p for t, (_, p) in TYPES.items()}
    # abstract leaf position -> role
    pos = {"c/a": "a", "c/b": "b", "c/ll": "ll", "c/p/x": "x", "l/k": "k", "l/v": "v", "l/sub/w": "w",
           "ol/k": "ok", "ol/v": "ov", "ol/sub/w": "ow", "m/k1": "k1", "m/k2": "k2", "m/v": "mv", "om/k1": "k1", "om/k2": "k2", "om/v": "mv", "n/y": "k1", "n/x": "k1", "n/v": "mv", "st/s": "s", "st/ul/u": "u"}
    return {"variants": v, "pools": pools, "positions": pos,
            "lists": {"l": ["k"], "ol": ["k"], "m": ["k1", "k2"], "om": ["k1", "k2"], "n": ["y", "x"]}, "ordered": ["ol", "om"],
            "leaflists": ["c/ll"], "presence": ["c/p"], "unkeyed": ["st/ul"]}


if __name__ == "__main__":
    open(os.path.join(HERE, "vf-tree.yang"), "w").write(gen_tree())
    open(os.path.join(HERE, "vf-oc.yang"), "w").write(gen_oc())
    open(os.path.join(HERE, "vf-ids.yang"), "w").write(IDS)
    json.dump(variants(), open(os.path.join(HERE, "variants.json"), "w"), indent=1, ensure_ascii=False)
    print("ok")
